"""
Obligation tables: for each claimed property, the list of proof-obligation units (tools/run.py: Ob).
Geometry (nd, np, index tuples, table slices) is enumerated as concrete parameters; contents stay symbolic.
"""
import random
from run import Ob

RAID_SRCS = ['raid/int.c', 'raid/intz.c', 'raid/raid.c', 'raid/tables.c']


# ---------------------------------------------------------------- tables (C02, C03, C16)
def table_obs(tier):
    obs = []
    for hi in range(16):
        obs.append(Ob('tab.mul.hi%x' % hi, 'harness/tables.c', 'h_tab_mul', ['raid/tables.c'], defs={'HI': hi},
                      functions=['raid_gfmul[256][256] (raid/tables.c)'], timeout=600, mem=3, cost=3))
    for e, fn in (('h_tab_inv', 'raid_gfinv[256]'), ('h_tab_exp', 'raid_gfexp[256]'),
                  ('h_tab_cauchy', 'raid_gfcauchy[6][256]'), ('h_tab_power', 'raid_gfvandermonde[3][256]'),
                  ('h_tab_pshufb', 'raid_gfcauchypshufb[251][4][2][16]'), ('h_tab_mulpshufb', 'raid_gfmulpshufb[256][2][16]')):
        obs.append(Ob('tab.' + e[6:], 'harness/tables.c', e, ['raid/tables.c'], functions=[fn + ' (raid/tables.c)'],
                      timeout=600, mem=3, cost=2))
    return obs


def c02(tier, seed):
    return table_obs(tier)


PROPS = {
    'C02': dict(level='proof', obligations=c02,
                explanation='',
                trusted_base=[], assumptions=[], not_covered=[]),
}
