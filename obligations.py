"""
Obligation tables: for each claimed property, the list of proof-obligation units (tools/run.py: Ob).
Geometry (nd, np, index tuples, table slices) is enumerated as concrete parameters; contents stay symbolic.
"""
import random
from run import Ob

RAID_SRCS = ['raid/int.c', 'raid/intz.c', 'raid/raid.c', 'raid/tables.c']


# ---------------------------------------------------------------- tables (C02, C03, C16)
def table_obs(tier):
    obs = []
    for hi in range(16):
        obs.append(Ob('tab.mul.hi%x' % hi, 'harness/h_tables.c', 'h_tab_mul', ['raid/tables.c'], defs={'HI': hi},
                      functions=['raid_gfmul[256][256] (raid/tables.c)'], timeout=600, mem=3, cost=3))
    for e, fn in (('h_tab_inv', 'raid_gfinv[256]'), ('h_tab_exp', 'raid_gfexp[256]'),
                  ('h_tab_cauchy', 'raid_gfcauchy[6][256]'), ('h_tab_power', 'raid_gfvandermonde[3][256]'),
                  ('h_tab_pshufb', 'raid_gfcauchypshufb[251][4][2][16]'), ('h_tab_mulpshufb', 'raid_gfmulpshufb[256][2][16]')):
        obs.append(Ob('tab.' + e[6:], 'harness/h_tables.c', e, ['raid/tables.c'], functions=[fn + ' (raid/tables.c)'],
                      timeout=600, mem=3, cost=2))
    return obs


# ---------------------------------------------------------------- stream primitives (C09, C10, C16)
STREAM_FUNCS = {
    'h_sgetb32': ['sgetb32', 'sgetc', 'sgetc_uncached', 'sfill', 'stell'],
    'h_sgetb64': ['sgetb64', 'sgetc', 'sgetc_uncached', 'sfill', 'stell'],
    'h_sgetble32': ['sgetble32', 'sread', 'sgetc', 'sgetc_uncached', 'sfill'],
    'h_sgetbs': ['sgetbs', 'sgetb32', 'sread', 'sgetc', 'sgetc_uncached', 'sfill'],
    'h_rt32': ['sputb32', 'swrite', 'sputc', 'sflush', 'sgetb32'],
    'h_rt64': ['sputb64', 'swrite', 'sputc', 'sflush', 'sgetb64'],
    'h_rtle32': ['sputble32', 'swrite', 'sflush', 'sgetble32', 'sread'],
    'h_rtbs': ['sputbs', 'sputb32', 'swrite', 'sflush', 'sgetbs', 'sread'],
}


def stream_obs(which):
    obs = []
    for e in which:
        obs.append(Ob('stream.' + e[2:], 'harness/h_stream.c', e, ['cmdline/util.c'], unwind=14, solver=['--sat-solver', 'cadical'],
                      functions=[f + ' (cmdline/stream.c)' for f in STREAM_FUNCS[e]], timeout=900, mem=6, cost=5,
                      kind='proof' if e not in ('h_sgetbs', 'h_rtbs') else 'bounded',
                      bound=None if e not in ('h_sgetbs', 'h_rtbs') else 'string buffer of at most 6 bytes (STRSZ), every size argument 1..6',
                      note='every byte string of length <= 12 (a 64-bit varint has at most 10 bytes), every chunking by read(), STREAM_SIZE 1..4; loops unwound to 14 with unwinding assertions (complete: bounded by operand width)'))
    return obs


def bittrick_obs():
    obs = []
    for f in ('x2_32', 'x2_64', 'd2_32', 'd2_64'):
        obs.append(Ob('gf.' + f, 'harness/h_gf.c', 'h_' + f, [], route='dfcc', enforce=f, unwind=10,
                      functions=[f + ' (raid/gf.h)'], timeout=300, mem=3, cost=1,
                      note='contract enforced by goto-instrument --dfcc for every argument value'))
    return obs


# ---------------------------------------------------------------- generators (C02)
KISSAT = ['--external-sat-solver', 'kissat']
GEN_SRCS = ['raid/int.c', 'raid/intz.c', 'raid/raid.c', 'raid/tables.c']
GENS = [  # (function, np, chunk bytes, mode, file)
    ('raid_gen1_int32', 1, 8, 'RAID_MODE_CAUCHY', 'raid/int.c'), ('raid_gen1_int64', 1, 16, 'RAID_MODE_CAUCHY', 'raid/int.c'),
    ('raid_gen2_int32', 2, 8, 'RAID_MODE_CAUCHY', 'raid/int.c'), ('raid_gen2_int64', 2, 16, 'RAID_MODE_CAUCHY', 'raid/int.c'),
    ('raid_genz_int32', 3, 8, 'RAID_MODE_VANDERMONDE', 'raid/intz.c'), ('raid_genz_int64', 3, 16, 'RAID_MODE_VANDERMONDE', 'raid/intz.c'),
    ('raid_gen3_int8', 3, 1, 'RAID_MODE_CAUCHY', 'raid/int.c'), ('raid_gen4_int8', 4, 1, 'RAID_MODE_CAUCHY', 'raid/int.c'),
    ('raid_gen5_int8', 5, 1, 'RAID_MODE_CAUCHY', 'raid/int.c'), ('raid_gen6_int8', 6, 1, 'RAID_MODE_CAUCHY', 'raid/int.c'),
]


def gen_ob(fn, np_, chunk, mode, file, nd, size, lo=None, hi=None, tier='quick', timeout=900, cost=5, seed=0):
    defs = {'GEN_FN': fn, 'NP': np_, 'ND': nd, 'SIZE': size, 'MODE': mode}
    full = lo is None
    name = 'gen.%s.nd%d.size%d' % (fn[5:], nd, size)
    if not full:
        defs.update({'SYM_LO': lo, 'SYM_HI': hi, 'FILL_SEED': 1 + seed % 251})
        name += '.sym%d-%d' % (lo, hi - 1)
    return Ob(name, 'harness/h_gen.c', 'h_gen', GEN_SRCS, defs=defs, unwind=max(nd, size, 10) + 9, solver=KISSAT,
              functions=['%s (%s)' % (fn, file), 'raid_mode (raid/raid.c)'], timeout=timeout, mem=6, cost=cost, tier=tier,
              kind='proof' if full else 'bounded',
              bound=None if full else 'contents symbolic on disks %d..%d only, the other disks hold concrete seeded bytes; size = %d bytes' % (lo, hi - 1, size),
              note='geometry nd=%d np=%d size=%d concrete, every byte of every data and parity block symbolic; loops unwound to the concrete bounds with unwinding assertions (complete for this geometry); size is %d chunk(s) of the implementation' % (nd, np_, size, size // chunk))


def gen_obs(tier, seed):
    obs = []
    for fn, np_, chunk, mode, file in GENS:
        int8 = chunk == 1
        for nd in ((1, 2, 3) if int8 else (1, 2, 4)):
            heavy = fn in ('raid_gen6_int8', 'raid_gen5_int8') and nd == 3
            obs.append(gen_ob(fn, np_, chunk, mode, file, nd, chunk, cost=20 if heavy else 5))
        # two chunks: the outer loop carries no state from one chunk to the next
        obs.append(gen_ob(fn, np_, chunk, mode, file, 2, 2 * chunk, cost=8))
        # thorough: larger complete geometries
        for nd in ((4, 5) if int8 else (8, 12)):
            obs.append(gen_ob(fn, np_, chunk, mode, file, nd, chunk, tier='thorough', timeout=3000, cost=60))
        if not int8:
            # table-free variants: every disk of the largest array, one symbolic disk at a time (bounded, labelled)
            ks = [0, 1, 31, 32, 33, 127, 128, 249, 250] if tier == 'quick' else list(range(251))
            rnd = random.Random(seed)
            ks = sorted(set(ks + [rnd.randrange(251) for _ in range(3)]))
            for k in ks:
                obs.append(gen_ob(fn, np_, chunk, mode, file, 251, chunk, lo=k, hi=k + 1, tier='quick' if k in (0, 32, 128, 250) else 'thorough', cost=4, seed=seed))
        else:
            for nd, k in ((33, 32), (33, 0), (40, 39)):
                obs.append(gen_ob(fn, np_, chunk, mode, file, nd, chunk, lo=k, hi=k + 1, tier='thorough', timeout=3000, cost=50, seed=seed))
    # the dispatcher raid_gen + raid_init binding (portable configuration), np = 1..6 and the alternate mode
    for np_ in range(1, 7):
        for mode in (('RAID_MODE_CAUCHY', 'RAID_MODE_VANDERMONDE') if np_ == 3 else ('RAID_MODE_CAUCHY',)):
            for nd in ((1, 2) if np_ <= 2 or mode == 'RAID_MODE_VANDERMONDE' else (1,)):
                obs.append(Ob('gen.dispatch.np%d.%s.nd%d' % (np_, 'z' if 'VAND' in mode else 'c', nd), 'harness/h_gen.c', 'h_gen',
                              GEN_SRCS + ['raid/module.c'], defs={'GEN_VIA_DISPATCH': None, 'NP': np_, 'ND': nd, 'SIZE': 64, 'MODE': mode},
                              unwind=80, solver=KISSAT, incl_first=['include/noasm'], timeout=1200, mem=8, cost=15,
                              functions=['raid_gen (raid/raid.c)', 'raid_init (raid/module.c)', 'raid_mode (raid/raid.c)'],
                              note='raid_gen(nd=%d, np=%d, size=64) through raid_gen_ptr[] as bound by the real raid_init() in the configuration without inline assembly' % (nd, np_)))
    return obs


def c02(tier, seed):
    return table_obs(tier) + bittrick_obs() + gen_obs(tier, seed)


# ---------------------------------------------------------------- split parity (C17)
def c17(tier, seed):
    P = 'harness/h_parity.c'
    pf = lambda *f: [x + ' (cmdline/parity.c)' for x in f]
    return [
        Ob('parity.split_find.contract', P, 'h_split_find', route='dfcc', enforce='parity_split_find', unwind=10,
           functions=pf('parity_split_find'), timeout=600, mem=6, cost=5, small_path=True,
           note='up to SPLIT_MAX=8 splits, every size vector and offset; loop bounded by SPLIT_MAX, unwound completely'),
        Ob('parity.split_find.lemma', P, 'h_split_lemma', unwind=10, functions=pf('parity_split_find'), timeout=600, mem=6, cost=5, small_path=True,
           note='two calls of the real function: injective, monotone, no straddling for block aligned sizes'),
        Ob('parity.hbit_u64.contract', P, 'h_hbit', route='dfcc', enforce='hbit_u64', unwind=66, functions=pf('hbit_u64'), timeout=600, mem=4, cost=3, small_path=True,
           note='loop bounded by the operand width (64), unwound completely'),
        Ob('parity.handle_fill.contract', P, 'h_fill', route='dfcc', enforce='parity_handle_fill', replace=['parity_handle_grow', 'parity_handle_shrink', 'hbit_u64'],
           loop_contracts=True, unwind=8, functions=pf('parity_handle_fill'), timeout=1500, mem=8, cost=30, small_path=True,
           inject=[dict(file='cmdline/parity.c', function='parity_handle_fill', loop=0, expect_loops=1, clauses="""
__CPROVER_assigns(base, delta, g_grow_failed, g_last_grow)
__CPROVER_loop_invariant(delta >= 0 && base >= 0 && delta <= size && base <= size && (delta & block_mask) == 0 && (base & block_mask) == 0)
__CPROVER_loop_invariant(base + delta <= size && (g_grow_failed || base + delta == size))
__CPROVER_loop_invariant(base >= (split->st.st_size & ~block_mask))
__CPROVER_decreases(delta)
""")],
           note='UNBOUNDED: the bit-by-bit grow loop carries an inductive loop contract (invariant + decreases, injected in a scratch copy); parity_handle_grow / parity_handle_shrink / hbit_u64 replaced by their contracts'),
    ] + [
        Ob('parity.%s.address.bs2^%d' % (rw, sh), P, 'h_parity_' + rw, unwind=10, defs={'BLOCK_SHIFT': sh}, small_path=True,
           functions=pf('parity_' + rw, 'parity_split_find'), timeout=900, mem=6, cost=8, tier='quick' if sh in (10, 18, 24) else 'thorough',
           note='block size 2^%d concrete, position / split sizes / valid sizes symbolic' % sh + ('; read() returns the whole block, an error, EOF, or splits it 1 + (n-2) + 1' if rw == 'read' else ''))
        for rw in ('write', 'read') for sh in range(10, 25)
    ]


def c09(tier, seed):
    return stream_obs(['h_sgetb32', 'h_sgetb64', 'h_sgetble32', 'h_sgetbs'])


def c10(tier, seed):
    return stream_obs(['h_rt32', 'h_rt64', 'h_rtle32', 'h_rtbs'])


PROPS = {
    'C17': dict(level='proof', obligations=c17, explanation='', trusted_base=[], assumptions=[], not_covered=[]),
    'C09': dict(level='other', obligations=c09, explanation='', trusted_base=[], assumptions=[], not_covered=[]),
    'C10': dict(level='other', obligations=c10, explanation='', trusted_base=[], assumptions=[], not_covered=[]),
    'C02': dict(level='proof', obligations=c02,
                explanation='',
                trusted_base=[], assumptions=[], not_covered=[]),
}
