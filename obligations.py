"""
Obligation tables: for each claimed property, the list of proof-obligation units (tools/run.py: Ob).
Geometry (nd, np, index tuples, table slices) is enumerated as concrete parameters; contents stay symbolic.
"""
import random
from run import Ob

RAID_SRCS = ['raid/int.c', 'raid/intz.c', 'raid/raid.c', 'raid/tables.c']


# ---------------------------------------------------------------- tables (C02, C03, C16)
def table_obs(tier):
    obs = []
    for hi in range(16):
        obs.append(Ob('tab.mul.hi%x' % hi, 'harness/h_tables.c', 'h_tab_mul', ['raid/tables.c'], defs={'HI': hi},
                      functions=['raid_gfmul[256][256] (raid/tables.c)'], timeout=600, mem=3, cost=3))
    for e, fn in (('h_tab_inv', 'raid_gfinv[256]'), ('h_tab_exp', 'raid_gfexp[256]'),
                  ('h_tab_cauchy', 'raid_gfcauchy[6][256]'), ('h_tab_power', 'raid_gfvandermonde[3][256]'),
                  ('h_tab_pshufb', 'raid_gfcauchypshufb[251][4][2][16]'), ('h_tab_mulpshufb', 'raid_gfmulpshufb[256][2][16]')):
        obs.append(Ob('tab.' + e[6:], 'harness/h_tables.c', e, ['raid/tables.c'], functions=[fn + ' (raid/tables.c)'],
                      timeout=600, mem=3, cost=2))
    return obs


# ---------------------------------------------------------------- stream primitives (C09, C10, C16)
STREAM_FUNCS = {
    'h_sgetb32': ['sgetb32', 'sgetc', 'sgetc_uncached', 'sfill', 'stell'],
    'h_sgetb64': ['sgetb64', 'sgetc', 'sgetc_uncached', 'sfill', 'stell'],
    'h_sgetble32': ['sgetble32', 'sread', 'sgetc', 'sgetc_uncached', 'sfill'],
    'h_sgetbs': ['sgetbs', 'sgetb32', 'sread', 'sgetc', 'sgetc_uncached', 'sfill'],
    'h_rt32': ['sputb32', 'swrite', 'sputc', 'sflush', 'sgetb32'],
    'h_rt64': ['sputb64', 'swrite', 'sputc', 'sflush', 'sgetb64'],
    'h_rtle32': ['sputble32', 'swrite', 'sflush', 'sgetble32', 'sread'],
    'h_rtbs': ['sputbs', 'sputb32', 'swrite', 'sflush', 'sgetbs', 'sread'],
}


def stream_obs(which):
    obs = []
    for e in which:
        obs.append(Ob('stream.' + e[2:], 'harness/h_stream.c', e, ['cmdline/util.c'], unwind=14, solver=['--sat-solver', 'cadical'],
                      functions=[f + ' (cmdline/stream.c)' for f in STREAM_FUNCS[e]], timeout=900, mem=6, cost=5,
                      kind='proof' if e not in ('h_sgetbs', 'h_rtbs') else 'bounded',
                      bound=None if e not in ('h_sgetbs', 'h_rtbs') else 'string buffer of at most 6 bytes (STRSZ), every size argument 1..6',
                      note='every byte string of length <= 12 (a 64-bit varint has at most 10 bytes), every chunking by read(), STREAM_SIZE 1..4; loops unwound to 14 with unwinding assertions (complete: bounded by operand width)'))
    return obs


def bittrick_obs():
    obs = []
    for f in ('x2_32', 'x2_64', 'd2_32', 'd2_64'):
        obs.append(Ob('gf.' + f, 'harness/h_gf.c', 'h_' + f, [], route='dfcc', enforce=f, unwind=10,
                      functions=[f + ' (raid/gf.h)'], timeout=300, mem=3, cost=1,
                      note='contract enforced by goto-instrument --dfcc for every argument value'))
    return obs


# ---------------------------------------------------------------- generators (C02)
KISSAT = ['--external-sat-solver', 'kissat']
GEN_SRCS = ['raid/int.c', 'raid/intz.c', 'raid/raid.c', 'raid/tables.c']
GENS = [  # (function, np, chunk bytes, mode, file)
    ('raid_gen1_int32', 1, 8, 'RAID_MODE_CAUCHY', 'raid/int.c'), ('raid_gen1_int64', 1, 16, 'RAID_MODE_CAUCHY', 'raid/int.c'),
    ('raid_gen2_int32', 2, 8, 'RAID_MODE_CAUCHY', 'raid/int.c'), ('raid_gen2_int64', 2, 16, 'RAID_MODE_CAUCHY', 'raid/int.c'),
    ('raid_genz_int32', 3, 8, 'RAID_MODE_VANDERMONDE', 'raid/intz.c'), ('raid_genz_int64', 3, 16, 'RAID_MODE_VANDERMONDE', 'raid/intz.c'),
    ('raid_gen3_int8', 3, 1, 'RAID_MODE_CAUCHY', 'raid/int.c'), ('raid_gen4_int8', 4, 1, 'RAID_MODE_CAUCHY', 'raid/int.c'),
    ('raid_gen5_int8', 5, 1, 'RAID_MODE_CAUCHY', 'raid/int.c'), ('raid_gen6_int8', 6, 1, 'RAID_MODE_CAUCHY', 'raid/int.c'),
]


def gen_ob(fn, np_, chunk, mode, file, nd, size, lo=None, hi=None, tier='quick', timeout=900, cost=5, seed=0):
    defs = {'GEN_FN': fn, 'NP': np_, 'ND': nd, 'SIZE': size, 'MODE': mode}
    full = lo is None
    name = 'gen.%s.nd%d.size%d' % (fn[5:], nd, size)
    if not full:
        defs.update({'SYM_LO': lo, 'SYM_HI': hi, 'FILL_SEED': 1 + seed % 251})
        name += '.sym%d-%d' % (lo, hi - 1)
    return Ob(name, 'harness/h_gen.c', 'h_gen', GEN_SRCS, defs=defs, unwind=max(nd, size, 10) + 9, solver=KISSAT,
              functions=['%s (%s)' % (fn, file), 'raid_mode (raid/raid.c)'], timeout=timeout, mem=6, cost=cost, tier=tier,
              kind='proof' if full else 'bounded',
              bound=None if full else 'contents symbolic on disks %d..%d only, the other disks hold concrete seeded bytes; size = %d bytes' % (lo, hi - 1, size),
              note='geometry nd=%d np=%d size=%d concrete, every byte of every data and parity block symbolic; loops unwound to the concrete bounds with unwinding assertions (complete for this geometry); size is %d chunk(s) of the implementation' % (nd, np_, size, size // chunk))


def gen_obs(tier, seed):
    obs = []
    for fn, np_, chunk, mode, file in GENS:
        int8 = chunk == 1
        for nd in ((1, 2, 3) if int8 else (1, 2, 4)):
            heavy = fn in ('raid_gen6_int8', 'raid_gen5_int8') and nd == 3
            obs.append(gen_ob(fn, np_, chunk, mode, file, nd, chunk, cost=20 if heavy else 5))
        # two chunks: the outer loop carries no state from one chunk to the next
        obs.append(gen_ob(fn, np_, chunk, mode, file, 2, 2 * chunk, cost=8))
        # thorough: larger complete geometries
        for nd in ((4, 5) if int8 else (8, 12)):
            obs.append(gen_ob(fn, np_, chunk, mode, file, nd, chunk, tier='thorough', timeout=3000, cost=60))
    # the dispatcher raid_gen + raid_init binding (portable configuration), np = 1..6 and the alternate mode
    for np_ in range(1, 7):
        for mode in (('RAID_MODE_CAUCHY', 'RAID_MODE_VANDERMONDE') if np_ == 3 else ('RAID_MODE_CAUCHY',)):
            for nd in ((1, 2) if np_ <= 2 or mode == 'RAID_MODE_VANDERMONDE' else (1,)):
                obs.append(Ob('gen.dispatch.np%d.%s.nd%d' % (np_, 'z' if 'VAND' in mode else 'c', nd), 'harness/h_gen.c', 'h_gen',
                              GEN_SRCS + ['raid/module.c'], defs={'GEN_VIA_DISPATCH': None, 'NP': np_, 'ND': nd, 'SIZE': 64, 'MODE': mode},
                              unwind=80, solver=KISSAT, incl_first=['include/noasm'], timeout=1200, mem=8, cost=15,
                              functions=['raid_gen (raid/raid.c)', 'raid_init (raid/module.c)', 'raid_mode (raid/raid.c)'],
                              note='raid_gen(nd=%d, np=%d, size=64) through raid_gen_ptr[] as bound by the real raid_init() in the configuration without inline assembly' % (nd, np_)))
    return obs


def genstep_obs():
    obs = []
    names = 'pqrstu'
    for np_ in (3, 4, 5, 6):
        fn = 'raid_gen%d_int8' % np_
        accs = names[:np_]
        pro = '\tuint8_t d0;\n' + ''.join('\tuint8_t %s0 = *%s0p;\n' % (c, c) for c in names) + '\tdo { /* the region text closes this brace */'
        epi = '\twhile (0);\n' + ''.join('\t*%s0p = %s0;\n' % (c, c) for c in names)
        reg = dict(region='genstep', file='raid/int.c', scope='void %s(int nd, size_t size, void **vv)' % fn, begin='for (d = l; d > 0; --d) {', end='/* first disk with all coefficients at 1 */',
                   end_first_after=True, max_lines=14, brace_balance=-1, expect_loops=0,
                   proto='static void region_genstep(uint8_t **v, int d, size_t i, ' + ', '.join('uint8_t *%s0p' % c for c in names) + ')', prologue=pro, epilogue=epi)
        obs.append(Ob('gen.step.%s' % fn[5:], 'harness/h_genstep.c', 'h_genstep', ['raid/raid.c', 'raid/tables.c'], inject=[reg], defs={'STEP_NP': np_}, unwind=260, timeout=1800, mem=6, cost=40, tier='quick' if np_ == 6 else 'thorough',
                      functions=['%s: inner loop body (raid/int.c, extracted mechanically)' % fn],
                      note='UNBOUNDED in nd: disk index d symbolic over 1..250, data byte and all accumulators symbolic; multiplication written in table form (TAB-MUL, TAB-CAUCHY)'))
    return obs


def c02(tier, seed):
    return table_obs(tier) + bittrick_obs() + gen_obs(tier, seed) + genstep_obs() + main_obs()[:1] + x86onedisk_obs()


# ---------------------------------------------------------------- split parity (C17)
def c17(tier, seed):
    return _c17(tier, seed) + [o for o in openmode_obs() if o.name in ('parity.open.readonly', 'parity.create.sizes')] + [o for o in header_obs() if o.name == 'state.header.roundtrip'] + parityrec_obs()


def _c17(tier, seed):
    P = 'harness/h_parity.c'
    pf = lambda *f: [x + ' (cmdline/parity.c)' for x in f]
    return [
        Ob('parity.split_find.contract', P, 'h_split_find', route='dfcc', enforce='parity_split_find', unwind=10,
           functions=pf('parity_split_find'), timeout=600, mem=6, cost=5, small_path=True,
           note='up to SPLIT_MAX=8 splits, every size vector and offset; loop bounded by SPLIT_MAX, unwound completely'),
        Ob('parity.split_find.lemma', P, 'h_split_lemma', unwind=10, functions=pf('parity_split_find'), timeout=600, mem=6, cost=5, small_path=True,
           note='two calls of the real function: injective, monotone, no straddling for block aligned sizes'),
        Ob('parity.hbit_u64.contract', P, 'h_hbit', route='dfcc', enforce='hbit_u64', unwind=66, functions=pf('hbit_u64'), timeout=600, mem=4, cost=3, small_path=True,
           note='loop bounded by the operand width (64), unwound completely'),
        Ob('parity.handle_fill.contract', P, 'h_fill', route='dfcc', enforce='parity_handle_fill', replace=['parity_handle_grow', 'parity_handle_shrink', 'hbit_u64'],
           loop_contracts=True, unwind=8, functions=pf('parity_handle_fill'), timeout=1500, mem=8, cost=30, small_path=True,
           inject=[dict(file='cmdline/parity.c', function='parity_handle_fill', loop=0, expect_loops=1, clauses="""
__CPROVER_assigns(base, delta, g_grow_failed, g_last_grow)
__CPROVER_loop_invariant(delta >= 0 && base >= 0 && delta <= size && base <= size && (delta & block_mask) == 0 && (base & block_mask) == 0)
__CPROVER_loop_invariant(base + delta <= size && (g_grow_failed || base + delta == size))
__CPROVER_loop_invariant(base >= (split->st.st_size & ~block_mask))
__CPROVER_decreases(delta)
""")],
           note='UNBOUNDED: the bit-by-bit grow loop carries an inductive loop contract (invariant + decreases, injected in a scratch copy); parity_handle_grow / parity_handle_shrink / hbit_u64 replaced by their contracts'),
        Ob('parity.chsize.contract', P, 'h_chsize', route='dfcc', replace=['parity_handle_chsize'], unwind=10, small_path=True, solver=KISSAT, timeout=2400, mem=8, cost=30, replay=False,
           functions=pf('parity_chsize', 'parity_split_is_fixed'),
           note='up to SPLIT_MAX=8 splits, every size vector / request / OS outcome; parity_handle_chsize replaced by its contract (goto-instrument --dfcc), which also records what each split was asked to become'),
    ] + [
        Ob('parity.%s.address.bs2^%d' % (rw, sh), P, 'h_parity_' + rw, unwind=10, defs={'BLOCK_SHIFT': sh}, small_path=True,
           functions=pf('parity_' + rw, 'parity_split_find'), timeout=900, mem=6, cost=8, tier='quick' if sh in (10, 18, 24) else 'thorough',
           note='block size 2^%d concrete, position / split sizes / valid sizes symbolic' % sh + ('; read() returns the whole block, an error, EOF, or splits it 1 + (n-2) + 1' if rw == 'read' else ''))
        for rw in ('write', 'read') for sh in range(10, 25)
    ]


# ---------------------------------------------------------------- recovery (C03)
REC_SRCS = ['raid/int.c', 'raid/intz.c', 'raid/raid.c', 'raid/tables.c', 'raid/module.c', 'raid/helper.c']


def rec_obs(tier, seed):
    import itertools
    R = 'harness/h_rec.c'
    obs = []
    recf = ['raid_delta_gen (raid/raid.c)', 'raid_gen (raid/raid.c)', 'raid_init (raid/module.c)', 'raid_mode (raid/raid.c)', 'raid_zero (raid/raid.c)']
    # recovery through the first parity (raid_rec1_int8 -> raid_rec1of1 -> raid_gen): every lost disk
    for nd in (2, 3, 4):
        for x in range(nd):
            obs.append(Ob('rec.rec1of1.nd%d.id%d' % (nd, x), R, 'h_recfn', REC_SRCS,
                          defs={'ND': nd, 'NPT': 2, 'NR': 1, 'SIZE': 64, 'REC_FN': 'raid_rec1_int8', 'ID_LIST': x, 'IP_LIST': 0, 'MODE': 'RAID_MODE_CAUCHY'},
                          unwind=132, solver=KISSAT, incl_first=['include/noasm'], timeout=900, mem=8, cost=10, tier='quick' if nd <= 3 else 'thorough',
                          functions=['raid_rec1_int8 (raid/int.c)', 'raid_rec1of1 (raid/raid.c)', 'raid_gen (raid/raid.c)', 'raid_gen1_int64 (raid/int.c)'],
                          note='nd=%d, data block %d lost, recovered from parity 0; size 64 (smallest the API admits); every content symbolic' % (nd, x)))
    # delta parity: the first half of every decoder (pointer-vector shuffling + generator with aliased outputs)
    for nd, npt, ids, ips, mode, quick in ((2, 2, (0,), (1,), 'C', True), (2, 2, (0, 1), (0, 1), 'C', True), (3, 3, (1,), (2,), 'C', True), (3, 3, (0, 2), (0, 2), 'C', False),
                                           (3, 3, (0, 2), (1, 2), 'C', False), (2, 3, (1,), (2,), 'Z', True), (3, 4, (0, 1, 2), (0, 1, 3), 'C', False), (2, 6, (0, 1), (2, 5), 'C', False)):
        obs.append(Ob('rec.delta_gen.nd%d.p%d%s.id%s.ip%s' % (nd, npt, mode.lower(), ''.join(map(str, ids)), ''.join(map(str, ips))), R, 'h_delta_gen', REC_SRCS,
                      defs={'ND': nd, 'NPT': npt, 'NR': len(ids), 'SIZE': 64, 'ID_LIST': ','.join(map(str, ids)), 'IP_LIST': ','.join(map(str, ips)),
                            'MODE': 'RAID_MODE_CAUCHY' if mode == 'C' else 'RAID_MODE_VANDERMONDE'},
                      unwind=132, solver=KISSAT, incl_first=['include/noasm'], timeout=3000, mem=10, cost=60, tier='quick' if quick else 'thorough', functions=recf,
                      note='nd=%d, %d parity blocks, lost %s, parities used %s; unused parities alias the last lost block and must come back untouched' % (nd, npt, ids, ips)))
    for n in (1,):  # n = 2 did not finish in 85 minutes (kissat) and is not claimed
        obs.append(Ob('rec.invert.n%d' % n, R, 'h_invert', ['raid/raid.c', 'raid/tables.c'], defs={'INV_N': n}, unwind=8, solver=KISSAT, timeout=6000, mem=8, cost=40, tier='quick' if n == 1 else 'thorough',
                      functions=['raid_invert (raid/raid.c)', 'mul (raid/gf.h)', 'inv (raid/gf.h)'], kind='bounded', bound='n = %d (n <= 6 in the code)' % n,
                      note='every %dx%d matrix without zero pivot' % (n, n)))
    obs.append(Ob('rec.dispatch.raid_rec', R, 'h_dispatch', ['raid/raid.c', 'raid/tables.c'], unwind=8, timeout=900, mem=6, cost=10,
                  functions=['raid_rec (raid/raid.c)'],
                  note='UNBOUNDED in nd (1..251), np (1..6) and the failure list (all symbolic); the decoders and generators are replaced by recording stubs'))
    for name, tab, rows in (('cauchy', 'raid_gfcauchy', 6), ('power', 'raid_gfvandermonde', 3)):
        obs.append(Ob('mds.%s.order1-2' % name, R, 'h_mds2', ['raid/tables.c'], defs={'MDS_TABLE': tab, 'MDS_ROWS': rows}, timeout=900, mem=4, cost=10,
                      functions=[tab + ' (raid/tables.c)'], note='row and column indices symbolic: all %d x 251 entries, all 2x2 minors' % rows))
    for r in itertools.combinations(range(6), 3):
        obs.append(Ob('mds.cauchy.order3.rows%d%d%d' % r, R, 'h_mds3', ['raid/tables.c'], defs={'MDS_R0': r[0], 'MDS_R1': r[1], 'MDS_R2': r[2]},
                      solver=KISSAT, timeout=3000, mem=6, cost=40, tier='thorough',
                      functions=['raid_gfcauchy (raid/tables.c)'], note='rows %s concrete, the three columns symbolic (all C(251,3) = 2 604 125 column triples)' % (r,)))
    obs.append(Ob('mds.power.order3', R, 'h_mds3', ['raid/tables.c'], defs={'MDS_TABLE': 'raid_gfvandermonde', 'MDS_ROWS': 3}, solver=KISSAT, timeout=3000, mem=6, cost=40, tier='thorough',
                  functions=['raid_gfvandermonde (raid/tables.c)'], note='the only row triple (0,1,2), columns symbolic'))
    synd = dict(region='validate_syndrome', file='raid/check.c', begin='/* check that the final parity is 0 */', end='return 0;', end_first_after=True, max_lines=8, brace_balance=-1, expect_loops=1,
                proto='static int region_validate_syndrome(uint8_t *p, int nr, int nv)', prologue='\tint l;\n\t{ /* body of the per-byte loop; the region text closes this brace */', epilogue='\treturn 0;')
    obs.append(Ob('check.validate.syndrome_region', R, 'h_syndrome', [], inject=[synd], defs={'VERIF_SYNDROME_REGION': None, 'SIZE': 6}, unwind=9, timeout=600, mem=4, cost=3,
                  functions=['raid_validate: final syndrome test (raid/check.c, extracted mechanically)'], note='every syndrome vector, every nr < nv <= 6'))
    obs.append(Ob('helper.raid_sort', R, 'h_sort', ['raid/helper.c'], unwind=8, timeout=600, mem=4, cost=3, functions=['raid_sort (raid/helper.c)']))
    obs.append(Ob('helper.raid_insert', R, 'h_insert', ['raid/helper.c'], unwind=9, timeout=600, mem=4, cost=3, functions=['raid_insert (raid/helper.c)']))
    for r, n in ((1, 1), (1, 8), (2, 8), (3, 8), (6, 8), (5, 6), (6, 6)):
        obs.append(Ob('combo.r%d.n%d' % (r, n), R, 'h_comb', [], defs={'COMB_R': r, 'COMB_N': n}, unwind=80, timeout=600, mem=4, cost=3, kind='bounded',
                      bound='r=%d, n=%d concrete (n = nd+np of the stripe being scanned; n <= 8 here)' % (r, n), functions=['combination_first (raid/combo.h)', 'combination_next (raid/combo.h)']))
    return obs


def c03(tier, seed):
    return rec_obs(tier, seed) + table_obs(tier)


# ---------------------------------------------------------------- scrub plan (C15)
SCRUB_REGION = dict(region='scrub_limits', file='cmdline/scrub.c', begin='/* no more than the full count */', end='log_tag("count_limit:%u\\n", countlimit);',
                    max_lines=30, expect_loops=2,
                    proto='static void region_scrub_limits(struct snapraid_plan *psp, block_off_t *countlimitp, block_off_t count, time_t *timemap, time_t recentlimit)',
                    prologue='\tstruct snapraid_plan ps = *psp;\n\tblock_off_t countlimit = *countlimitp;', epilogue='\t*psp = ps;\n\t*countlimitp = countlimit;')


SCRUB_MARK = dict(region='scrub_mark', file='cmdline/scrub.c', begin='/* until now is raid */',
                  end='/* mark the state as needing write */', max_lines=34, expect_loops=1, brace_balance=-1,
                  proto='static void region_scrub_mark(struct snapraid_state *state, int silent_error_on_this_block, int io_error_on_this_block, int error_on_this_block, int rehash, struct snapraid_rehash *rehandle, unsigned diskmax, block_off_t blockcur, snapraid_info info, time_t now, int block_is_unsynced)',
                  prologue='\tunsigned j;\n\t(void)block_is_unsynced;\n\tif (1) { /* the region text starts with the last statement and the closing brace of the parity compare block */')


SCRUB_CLASSIFY = dict(region='scrub_classify', file='cmdline/scrub.c', scope='static int state_scrub_process(struct snapraid_state* state, struct snapraid_parity_handle* parity_handle, block_off_t blockstart, block_off_t blockmax, struct snapraid_plan* plan, time_t now)',
                      begin='state_usage_file(state, disk, file);', end='/* buffers for parity read and not computed */', end_first_after=True, max_lines=120, brace_balance=-1,
                      proto='static void region_scrub_classify(struct snapraid_state *state, struct snapraid_block *block, struct snapraid_disk *disk, struct snapraid_file *file, struct snapraid_task *task, int rehash, struct snapraid_rehash *rehandle, void **buffer, unsigned diskcur, unsigned read_size, block_off_t file_pos, block_off_t blockcur, int *block_unsynced_p, int *file_unsynced_p, unsigned *error_p, int *error_on_p, unsigned *silent_error_p, int *silent_on_p, unsigned *io_error_p, int *io_on_p, int *bailed)',
                      prologue='\tunsigned char hash[HASH_MAX];\n\tchar esc_buffer[ESC_MAX];\n\tdata_off_t countsize = 0;\n\tunsigned error = *error_p, silent_error = *silent_error_p, io_error = *io_error_p;\n\tint block_is_unsynced = *block_unsynced_p, file_is_unsynced = *file_unsynced_p, error_on_this_block = *error_on_p, silent_error_on_this_block = *silent_on_p, io_error_on_this_block = *io_on_p;\n\tint once;\n\tfor (once = 0; once < 1; ++once) { /* per-disk loop body; the region text closes this brace */',
                      epilogue='\tgoto out;\nbail:\n\t*bailed = 1;\nout:\n\t*block_unsynced_p = block_is_unsynced; *file_unsynced_p = file_is_unsynced; *error_p = error; *error_on_p = error_on_this_block;\n\t*silent_error_p = silent_error; *silent_on_p = silent_error_on_this_block; *io_error_p = io_error; *io_on_p = io_error_on_this_block;\n\t(void)esc_buffer; (void)countsize;')


def c15(tier, seed):
    S = 'harness/h_scrub.c'
    sf = lambda *f: [x + ' (cmdline/scrub.c)' for x in f]
    obs = [
        Ob('scrub.block_is_enabled', S, 'h_block_is_enabled', route='dfcc', replace=['info_get'], inject=[SCRUB_REGION], unwind=4, small_path=True,
           functions=sf('block_is_enabled') + ['info_get_bad / info_get_time / info_get_justsynced (cmdline/elem.h)'], timeout=600, mem=6, cost=5, replay=False,
           note='every plan, info word, position, time limit and tie counter (all symbolic); info_get replaced by its contract via goto-instrument --dfcc'),
        Ob('scrub.info_word', S, 'h_info', inject=[SCRUB_REGION], unwind=4, small_path=True, timeout=600, mem=6, cost=3,
           functions=['info_make / info_get_time / info_get_bad / info_get_rehash / info_get_justsynced / info_set_bad / info_set_rehash (cmdline/elem.h)']),
        Ob('scrub.limits.region', S, 'h_limits', inject=[SCRUB_REGION], unwind=10, small_path=True, timeout=900, mem=6, cost=10, kind='bounded',
           bound='sorted time map of at most 8 entries (TM_MAX); requested share, age limit and times symbolic',
           functions=['state_scrub: region "no more than the full count" .. "count_limit" (cmdline/scrub.c, extracted mechanically)'],
           note='region extraction drops everything outside the 25 lines and turns ps / countlimit / count / timemap / recentlimit into parameters'),
    ]
    obs.append(Ob('scrub.mark.region', S, 'h_mark', route='dfcc', replace=['info_set'], inject=[SCRUB_REGION, SCRUB_MARK], defs={'VERIF_MARK_REGION': None}, unwind=18, small_path=True,
                  timeout=900, mem=6, cost=8, replay=False,
                  functions=['state_scrub_process: region "set the error status" .. "mark the state as needing write" (cmdline/scrub.c, extracted mechanically)', 'info_make / info_set_bad (cmdline/elem.h)'],
                  note='every combination of silent / I/O / plain error, hash migration, info word, time; info_set replaced by a recording contract (dfcc); 2 disks in the rehash loop'))
    obs.append(Ob('scrub.classify.region', S, 'h_classify', inject=[SCRUB_REGION, SCRUB_CLASSIFY], defs={'VERIF_CLASSIFY_REGION': None}, unwind=18, small_path=True, timeout=900, mem=6, cost=8, replay=False,
                  functions=['state_scrub_process: per-disk classification region (cmdline/scrub.c, extracted mechanically)', 'block_has_invalid_parity / block_has_file / block_has_updated_hash (cmdline/elem.h)'],
                  note='every block state (incl. deleted and empty), time-stamp flag, reader outcome, recorded hash / digests / hash size, migration flag; memhash by contract'))
    for c, bmax in ((100, 100), (12, 1)):
        obs.append(Ob('scrub.md.c%d' % c, S, 'h_md', inject=[SCRUB_REGION], defs={'MD_C': c, 'MD_BMAX': bmax}, unwind=4, small_path=True, solver=KISSAT, timeout=900, mem=6, cost=10,
                      functions=sf('md'), note='divisor %d as at the call site, a symbolic 32-bit, b <= %d' % (c, bmax)))
    return obs + scrubplan_obs() + [o for o in staterec_obs(tier) if o.name == 'state.i_record.info.roundtrip'] + [o for o in syncrd_obs() if o.name == 'scrub.data_reader'] + inforuns_obs()


def crc_obs(tier):
    C = 'harness/h_crc.c'
    obs = [Ob('crc.tables', C, 'h_crc_tables', ['cmdline/util.c'], unwind=10, timeout=600, mem=4, cost=3,
              functions=['CRC32C_0..3 (cmdline/util.c)'], note='all 256 entries of the four tables, symbolic index')]
    obs.append(Ob('crc.lemma.L1', C, 'h_crc_l1', ['cmdline/util.c'], unwind=10, timeout=600, mem=4, cost=3, functions=['CRC32C_0..3 (cmdline/util.c)']))
    obs.append(Ob('crc.lemma.L2', C, 'h_crc_l2', ['cmdline/util.c'], unwind=10, solver=KISSAT, timeout=900, mem=4, cost=5, functions=['spec_crc_4zero (harness/h_crc.c, specification only)']))
    for n in (0, 1, 3, 4, 5, 8, 9) + ((11, 12, 13, 16) if tier == 'thorough' else ()):
        obs.append(Ob('crc.gen.len%d' % n, C, 'h_crc_gen', ['cmdline/util.c'], defs={'CRC_LEN': n}, unwind=20, solver=KISSAT, timeout=1800, mem=6, cost=10 + n,
                      tier='quick' if n <= 9 else 'thorough', kind='bounded', bound='length %d bytes (every initial value and content); the 4-byte fast path and the tail loop are both exercised' % n,
                      functions=['crc32c_gen_plain (cmdline/util.h)', 'crc32c_gen (cmdline/util.c)']))
    return obs


REPAIR_CHG = dict(region='repair_chg', file='cmdline/check.c', begin="/* reprocess the CHG blocks, for which we don't have a hash to check */", end='return 0;', end_first_after=True,
                  max_lines=70, expect_loops=1,
                  proto='static void region_repair_chg(struct snapraid_state *state, int rehash, struct failed_struct *failed, unsigned failed_count, void **buffer, void *buffer_zero)',
                  prologue='\tunsigned j;')


WRITEBACK = dict(region='writeback', file='cmdline/check.c', begin='/* now write recovered files */', end='/* if we are not checking, we just set the DAMAGED flag */', max_lines=110, expect_loops=3,
                 brace_balance=-1,
                 proto='static void region_writeback(struct snapraid_state *state, int fix, struct failed_struct *failed, unsigned failed_count, void **buffer, void **buffer_recov, struct snapraid_parity_handle **parity, unsigned diskmax, block_off_t i, int used_parity, int valid_parity, unsigned *error_p, unsigned *recovered_p, unsigned *unrecoverable_p, int *bailed)',
                 prologue='\tunsigned j, l;\n\tint ret;\n\tchar esc_buffer[ESC_MAX];\n\tunsigned error = *error_p, recovered_error = *recovered_p, unrecoverable_error = *unrecoverable_p;\n\tif (1) { if (1) { /* the region text closes the two enclosing blocks of the stripe loop and opens the else branch of the outer one */',
                 epilogue='\t}\n\tgoto out;\nbail:\n\t*bailed = 1;\nout:\n\t*error_p = error; *recovered_p = recovered_error; *unrecoverable_p = unrecoverable_error;\n\t(void)esc_buffer;')


FILE_POST = dict(region='file_post', file='cmdline/check.c', begin='static int file_post(struct snapraid_state* state, int fix, unsigned i, struct snapraid_handle* handle, unsigned diskmax)',
                 end=' * Check if we have to process the specified block index ::i.', max_lines=220, expect_loops=1,
                 proto='static int region_file_post(struct snapraid_state *state, int fix, unsigned i, struct snapraid_handle *handle, unsigned diskmax)',
                 prologue='\t/* the region text is the whole body block of file_post() followed by the opening of the next doc comment (closed by the end marker) */',
                 epilogue='\treturn 0;')


CHECK_OPEN = dict(region='check_open', file='cmdline/check.c', scope='static int state_check_process(struct snapraid_state* state, int fix, struct snapraid_parity_handle** parity, block_off_t blockstart, block_off_t blockmax)',
                  begin='/* if the file is closed or different than the current one */', end='/* read from the file */', max_lines=130, expect_loops=0,
                  proto='static void region_check_open(struct snapraid_state *state, int fix, block_off_t i, unsigned j, struct snapraid_handle *handle, struct snapraid_disk *disk, struct snapraid_file *file, block_off_t file_pos, struct snapraid_block *block, struct failed_struct *failed, unsigned *failed_count_p, unsigned *error_p, unsigned *unrecoverable_p, unsigned *recovered_p, int *bailed, int *skipped)',
                  prologue='\tint ret;\n\tchar esc_buffer[ESC_MAX];\n\tunsigned failed_count = *failed_count_p, error = *error_p, unrecoverable_error = *unrecoverable_p, recovered_error = *recovered_p;\n\tint once, fell = 0;\n\tfor (once = 0; once < 1; ++once) { /* per-disk loop body: `continue` leaves it */',
                  epilogue='\tfell = 1;\n\t}\n\tif (!fell) *skipped = 1;\n\tgoto out;\nbail:\n\t*bailed = 1;\nout:\n\t*failed_count_p = failed_count; *error_p = error; *unrecoverable_p = unrecoverable_error; *recovered_p = recovered_error;\n\t(void)esc_buffer;')


CHECK_GATE = dict(region='check_gate', file='cmdline/check.c', scope='int state_check(struct snapraid_state* state, int fix, block_off_t blockstart, block_off_t blockcount)',
                  begin='error = 0;', end='/* try to close only if opened */', end_first_after=True, max_lines=20, expect_loops=0,
                  proto='static void region_check_gate(struct snapraid_state *state, int fix, struct snapraid_parity_handle **parity_ptr, block_off_t blockstart, block_off_t blockmax, unsigned *error_p)',
                  prologue='\tint ret;\n\tunsigned error = *error_p;', epilogue='\t*error_p = error;')


def checkgate_obs():
    return [Ob('check.process_gate.region', 'harness/h_checkgate.c', 'h_check_gate', inject=[CHECK_GATE], unwind=4, small_path=True, timeout=600, mem=6, cost=2,
               functions=['state_check: region deciding whether state_check_process runs (cmdline/check.c, extracted mechanically)'],
               note='every start position and parity size (32 bit), check and fix, the step failing or not')]


def filepost_obs():
    return [Ob('check.open.region', 'harness/h_filepost.c', 'h_check_open', inject=[FILE_POST, CHECK_OPEN], defs={'VERIF_OPEN_REGION': None}, unwind=4, small_path=True, timeout=900, mem=8, cost=6, kind='bounded', bound='one disk slot',
               functions=['state_check_process: region "if the file is closed or different than the current one" .. "read from the file" (cmdline/check.c, extracted mechanically)', 'handle_close (cmdline/handle.c, real)'],
               note='check / fix, every flag word of the file, what the handle holds, every outcome of close / create / open / truncate, recorded vs actual size and time-stamp, syncedonly'),
            Ob('check.file_post', 'harness/h_filepost.c', 'h_file_post', inject=[FILE_POST, CHECK_OPEN], unwind=4, small_path=True, timeout=900, mem=8, cost=6, kind='bounded', bound='one disk slot',
               functions=['file_post (cmdline/check.c; whole body extracted mechanically, every callee routed to a recording stub)'],
               note='check / fix, every flag word of the file, excluded / unsynced, last block or not, every block state, what the handle holds, every inode collision (none, same name, another file with any size / stamp), every outcome of close / rename / open / utime')]


REPAIR_OUTCOME = dict(region='repair_outcome', file='cmdline/check.c', begin='/* try all the recovering strategies */', end='/* now write recovered files */', max_lines=80, expect_loops=4, brace_balance=1,
                      proto='static void region_repair_outcome(struct snapraid_state *state, int rehash, block_off_t i, unsigned diskmax, struct failed_struct *failed, unsigned *failed_map, unsigned failed_count, void **buffer, void **buffer_recov, void *buffer_zero, int used_parity, int valid_parity, unsigned *error_p, unsigned *unrecoverable_p)',
                      prologue='\tunsigned j, l;\n\tint ret;\n\tchar esc_buffer[ESC_MAX];\n\tunsigned error = *error_p, unrecoverable_error = *unrecoverable_p;',
                      epilogue='\t} /* closes the else branch the region text opened */\n\t*error_p = error; *unrecoverable_p = unrecoverable_error;\n\t(void)esc_buffer;')


REPAIR_FETCH = dict(region='repair_fetch', file='cmdline/check.c', scope='static int repair(struct snapraid_state* state, int rehash, unsigned pos, unsigned diskmax, struct failed_struct* failed, unsigned* failed_map, unsigned failed_count, void** buffer, void** buffer_recov, void* buffer_zero)',
                    begin='/* but we are not interested in DELETED ones. */', end='/* if nothing to fix */', end_first_after=True, max_lines=40, expect_loops=1,
                    proto='static void region_repair_fetch(struct snapraid_state *state, int rehash, struct failed_struct *failed, unsigned *failed_map, unsigned failed_count, void **buffer, int *n_p, int *something_p)',
                    prologue='\tunsigned j;\n\tint n;\n\tint something_to_recover;', epilogue='\t*n_p = n; *something_p = something_to_recover;')


PARITY_OFFER = dict(region='parity_offer', file='cmdline/check.c', scope='static int state_check_process(struct snapraid_state* state, int fix, struct snapraid_parity_handle** parity, block_off_t blockstart, block_off_t blockmax)',
                    begin='/* now read and check the parity if requested */', end='/* try all the recovering strategies */', end_first_after=True, max_lines=45, brace_balance=1,
                    proto='static void region_parity_offer(struct snapraid_state *state, struct snapraid_parity_handle **parity, block_off_t i, unsigned diskmax, unsigned buffermax, void **buffer, void **buffer_recov, void **out_recov, void **out_zero, unsigned *error_p)',
                    prologue='\tunsigned l;\n\tint ret;\n\tunsigned error = *error_p;',
                    epilogue='\tfor (l = 0; l < LEV_MAX; ++l) out_recov[l] = buffer_recov[l];\n\t*out_zero = buffer_zero;\n\t} /* closes the block the region text opened */\n\t*error_p = error;\n\t(void)ret;')


DATA_VERIFY = dict(region='data_verify', file='cmdline/check.c', scope='static int state_check_process(struct snapraid_state* state, int fix, struct snapraid_parity_handle** parity, block_off_t blockstart, block_off_t blockmax)',
                   begin='/* read from the file */', end='/* now read and check the parity if requested */', max_lines=110, expect_loops=0, brace_balance=-1,
                   proto='static void region_data_verify(struct snapraid_state *state, int rehash, block_off_t i, unsigned j, struct snapraid_handle *handle, struct snapraid_disk *disk, struct snapraid_file *file, block_off_t file_pos, struct snapraid_block *block, unsigned block_state, void **buffer, struct failed_struct *failed, unsigned *failed_count_p, unsigned *error_p, data_off_t *countsize_p)',
                   prologue='\tunsigned char hash[HASH_MAX];\n\tchar esc_buffer[ESC_MAX];\n\tint read_size;\n\tunsigned failed_count = *failed_count_p, error = *error_p;\n\tdata_off_t countsize = *countsize_p;\n\tint once;\n\tfor (once = 0; once < 1; ++once) { /* per-disk loop body; the region text closes this brace */',
                   epilogue='\t*failed_count_p = failed_count; *error_p = error; *countsize_p = countsize;\n\t(void)esc_buffer;')


CHECK_LINKS = dict(region='check_links', file='cmdline/check.c', begin='/* for each link in the disk */', end='/* for each dir in the disk */', max_lines=200, expect_loops=1,
                   proto='static void region_check_links(struct snapraid_state *state, int fix, struct snapraid_handle *handle, unsigned i, unsigned *error_p, unsigned *unrecoverable_p, unsigned *recovered_p, int *bailed)',
                   prologue='\tstruct snapraid_disk *disk;\n\ttommy_node *node;\n\tint ret;\n\tchar esc_buffer[ESC_MAX], esc_buffer_alt[ESC_MAX];\n\tunsigned error = *error_p, unrecoverable_error = *unrecoverable_p, recovered_error = *recovered_p;\n\t(void)state;',
                   epilogue='\tgoto out;\nbail:\n\t*bailed = 1;\nout:\n\t*error_p = error; *unrecoverable_p = unrecoverable_error; *recovered_p = recovered_error;\n\t(void)esc_buffer; (void)esc_buffer_alt;')


_EPRO = '\tstruct snapraid_disk *disk;\n\ttommy_node *node;\n\tint ret;\n\tchar esc_buffer[ESC_MAX];\n\tunsigned error = *error_p, unrecoverable_error = *unrecoverable_p, recovered_error = *recovered_p;\n\t(void)state;'
_EEPI = '\tgoto out;\nbail:\n\t*bailed = 1;\nout:\n\t*error_p = error; *unrecoverable_p = unrecoverable_error; *recovered_p = recovered_error;\n\t(void)esc_buffer;'
CHECK_EMPTYFILES = dict(region='check_emptyfiles', file='cmdline/check.c', begin='/* for each empty file in the disk */', end='/* for each link in the disk */', max_lines=120, expect_loops=1,
                        proto='static void region_check_emptyfiles(struct snapraid_state *state, int fix, struct snapraid_handle *handle, unsigned i, unsigned *error_p, unsigned *unrecoverable_p, unsigned *recovered_p, int *bailed)',
                        prologue=_EPRO, epilogue=_EEPI)
CHECK_DIRS = dict(region='check_dirs', file='cmdline/check.c', begin='/* for each dir in the disk */', end='state_progress_end(state, countpos, countmax, countsize);', end_first_after=True, max_lines=90, expect_loops=1, brace_balance=-1,
                  proto='static void region_check_dirs(struct snapraid_state *state, int fix, struct snapraid_handle *handle, unsigned i, unsigned *error_p, unsigned *unrecoverable_p, unsigned *recovered_p, int *bailed)',
                  prologue=_EPRO + '\n\tif (1) { /* the region text closes the per-disk loop */', epilogue=_EEPI)


def links_obs():
    return [Ob('check.links.region', 'harness/h_links.c', 'h_check_links', inject=[CHECK_LINKS, CHECK_EMPTYFILES, CHECK_DIRS], unwind=6, small_path=True, timeout=1200, mem=8, cost=8, replay=False, kind='bounded', bound='at most 2 links on the disk',
               functions=['state_check_process: region "for each link in the disk" .. "for each dir in the disk" (cmdline/check.c, extracted mechanically)'],
               note='check and fix, symbolic and hard links, excluded or not, every outcome of stat / readlink / mkancestor / remove / symlink / hardlink, right or wrong target / inode'),
            Ob('check.emptyfiles.region', 'harness/h_links.c', 'h_check_emptyfiles', inject=[CHECK_LINKS, CHECK_EMPTYFILES, CHECK_DIRS], defs={'VERIF_EMPTY_REGIONS': None}, unwind=6, small_path=True, timeout=900, mem=8, cost=5, replay=False, kind='bounded', bound='at most 2 files on the disk',
               functions=['state_check_process: region "for each empty file in the disk" (cmdline/check.c, extracted mechanically)'], note='check and fix, every recorded size, excluded or not, every outcome of stat / mkancestor / open / fmtime / close'),
            Ob('check.dirs.region', 'harness/h_links.c', 'h_check_dirs', inject=[CHECK_LINKS, CHECK_EMPTYFILES, CHECK_DIRS], defs={'VERIF_EMPTY_REGIONS': None}, unwind=6, small_path=True, timeout=900, mem=8, cost=5, replay=False, kind='bounded', bound='at most 2 directories on the disk',
               functions=['state_check_process: region "for each dir in the disk" (cmdline/check.c, extracted mechanically)'], note='check and fix, excluded or not, every outcome of stat / mkancestor / mkdir')]


CHECK_BIE = dict(region='check_block_is_enabled', file='cmdline/check.c', begin='static int block_is_enabled(struct snapraid_state* state, block_off_t i, struct snapraid_handle* handle, unsigned diskmax)',
                 end='static int state_check_process(struct snapraid_state* state, int fix, struct snapraid_parity_handle** parity, block_off_t blockstart, block_off_t blockmax)', max_lines=80, expect_loops=2,
                 proto='static int region_check_block_is_enabled(struct snapraid_state *state, block_off_t i, struct snapraid_handle *handle, unsigned diskmax)', epilogue='\treturn 0;')


def writeback_obs():
    return [Ob('check.block_is_enabled', 'harness/h_writeback.c', 'h_check_block_is_enabled', inject=[WRITEBACK, REPAIR_OUTCOME, DATA_VERIFY, CHECK_BIE, PARITY_OFFER, REPAIR_FETCH], unwind=8, small_path=True, timeout=900, mem=8, cost=4, replay=False, kind='bounded', bound='3 disk slots',
               functions=['block_is_enabled (cmdline/check.c; whole body extracted mechanically, callees routed to stubs)'],
               note='-e on blocks / files-with-errors filter / plain, 1..6 parity levels each excluded or not, per disk slot: present or not, every block state, file excluded or not; stripe bad or not'),
            Ob('check.data_verify.region', 'harness/h_writeback.c', 'h_data_verify', inject=[WRITEBACK, REPAIR_OUTCOME, DATA_VERIFY, CHECK_BIE, PARITY_OFFER, REPAIR_FETCH], unwind=18, small_path=True, timeout=1200, mem=8, cost=6, replay=False,
               functions=['state_check_process: region "read from the file" .. "now read and check the parity" (cmdline/check.c, extracted mechanically)'],
               note='every read outcome, block state BLK / CHG / REP, digest and recorded hash (hash size 16), migration flag, disk slot, fill of the failed set; handle_read / memhash by stub'),
            Ob('check.repair_outcome.region', 'harness/h_writeback.c', 'h_repair_outcome', inject=[WRITEBACK, REPAIR_OUTCOME, DATA_VERIFY, CHECK_BIE, PARITY_OFFER, REPAIR_FETCH], unwind=12, small_path=True, timeout=1200, mem=8, cost=8, replay=False, kind='bounded',
               bound='at most 3 failed entries per stripe, 1..6 parity levels, block size 8',
               functions=['state_check_process: region "try all the recovering strategies" .. "now write recovered files" (cmdline/check.c, extracted mechanically)'],
               note='every result of repair, bad / out-of-date pattern, recomputed and on-disk parity content, readable levels, used / valid parity; repair by stub (its own units)'),
            Ob('check.parity_offer.region', 'harness/h_writeback.c', 'h_parity_offer', inject=[WRITEBACK, REPAIR_OUTCOME, DATA_VERIFY, CHECK_BIE, PARITY_OFFER, REPAIR_FETCH], unwind=16, small_path=True, timeout=900, mem=8, cost=4, replay=False,
               functions=['state_check_process: region "now read and check the parity" .. "try all the recovering strategies" (cmdline/check.c, extracted mechanically)'],
               note='1..6 levels, each open or not, each read failing or not, each pointer left by an earlier stripe zero or not; parity_read by recording stub'),
            Ob('check.repair_fetch.region', 'harness/h_writeback.c', 'h_repair_fetch', inject=[WRITEBACK, REPAIR_OUTCOME, DATA_VERIFY, CHECK_BIE, PARITY_OFFER, REPAIR_FETCH], unwind=18, small_path=True, timeout=900, mem=8, cost=4, replay=False, kind='bounded',
               bound='at most 3 failed entries per stripe',
               functions=['repair: region of the first strategy that fills bad blocks from the import / search indexes (cmdline/check.c, extracted mechanically)'],
               note='every bad / state (BLK REP CHG DELETED) pattern, every outcome of both fetches, buffer slot, file position; state_import_fetch / state_search_fetch by recording stubs (their own units: import.fetch, search.fetch)'),
            Ob('check.writeback.region', 'harness/h_writeback.c', 'h_writeback', inject=[WRITEBACK, REPAIR_OUTCOME, DATA_VERIFY, CHECK_BIE, PARITY_OFFER, REPAIR_FETCH], unwind=12, small_path=True, timeout=1200, mem=8, cost=10, replay=False, kind='bounded',
               bound='at most 3 failed entries per stripe, 1..6 parity levels',
               functions=['state_check_process: region "now write recovered files" (cmdline/check.c, extracted mechanically)'],
               note='check and fix, every bad / out-of-date / excluded / unsynced combination per entry, every disk slot and file position, every write outcome, every readability / accessibility / exclusion per parity level; handle_write / parity_write by recording stub')]


def check_obs(tier):
    K = 'harness/h_check.c'
    cf = lambda *f: [x + ' (cmdline/check.c)' for x in f]
    return [
        Ob('check.blockcmp', K, 'h_blockcmp', unwind=18, small_path=True, timeout=900, mem=6, cost=5, functions=cf('blockcmp'), replay=False,
           note='every digest / recorded hash / hash size 2..16 / block content / valid length (block size 8 in the driver); memhash by contract (arbitrary digest)'),
        Ob('check.is_hash_matching', K, 'h_is_hash_matching', route='dfcc', replace=['blockcmp', 'file_block_size', 'raid_gen'], unwind=12, small_path=True, timeout=900, mem=6, cost=8, object_bits=12,
           functions=cf('is_hash_matching'), replay=False, kind='bounded', bound='at most 3 failed blocks per stripe in the driver',
           note='every block state / out-of-date mark / comparison outcome; callees replaced by contracts (goto-instrument --dfcc)'),
        Ob('check.repair.chg_region', K, 'h_repair_chg', route='dfcc', replace=['blockcmp', 'file_block_size'], inject=[REPAIR_CHG], defs={'VERIF_CHG_REGION': None}, unwind=18, small_path=True,
           object_bits=12, timeout=900, mem=8, cost=10, replay=False, kind='bounded', bound='at most 3 failed blocks, block size 8',
           functions=['repair: region "reprocess the CHG blocks" (cmdline/check.c, extracted mechanically)', 'hash_is_invalid / hash_is_zero (cmdline/elem.h)'],
           note='every bad / state / past-hash kind (invalid, zero, ordinary) per entry, every rebuilt content, every comparison outcome; entries sit in disk slots different from their position in failed[]; blockcmp replaced by a recording contract (dfcc)'),
        ] + ([Ob('check.repair_step', K, 'h_repair_step', route='dfcc', replace=['raid_data', 'raid_gen', 'is_hash_matching', 'is_parity_matching'], unwind=10, small_path=True, object_bits=12, solver=KISSAT,
           timeout=1500, mem=12, cost=30, functions=cf('repair_step') + ['combination_first / combination_next (raid/combo.h)'], replay=False, kind='bounded',
           bound='1 failed block and parity levels 1..2, every readability pattern of the parities and every sequence of validation verdicts',
           defs={'REPAIR_LEVEL_MAX': 2, 'NFAIL': 1, 'NATT': 3},
           note='raid_data / raid_gen / is_hash_matching / is_parity_matching replaced by recording contracts (goto-instrument --dfcc)')]
        if tier != 'thorough' else
        [Ob('check.repair_step.f%d.l%d' % (nf, lv), K, 'h_repair_step', route='dfcc', replace=['raid_data', 'raid_gen', 'is_hash_matching', 'is_parity_matching'], unwind=10, small_path=True, object_bits=12, solver=KISSAT,
           timeout=6000, mem=16, cost=30, functions=cf('repair_step') + ['combination_first / combination_next (raid/combo.h)'], replay=False, kind='bounded',
           bound='up to %d failed blocks and %d parity levels, every readability pattern of the parities and every sequence of validation verdicts' % (nf, lv),
           defs={'REPAIR_LEVEL_MAX': lv, 'REPAIR_LEVEL_IS': lv, 'NFAIL': nf, 'NATT': 3},
           note='raid_data / raid_gen / is_hash_matching / is_parity_matching replaced by recording contracts (goto-instrument --dfcc)') for nf, lv in ((1, 1), (1, 2), (1, 3), (2, 2), (2, 3))]) + [
Ob('check.repair_step.beyond_parity.f%d.l%d' % (fc, lv), K, 'h_repair_step_many', route='dfcc', replace=['raid_data', 'raid_gen', 'is_hash_matching', 'is_parity_matching'], unwind=16, small_path=True, object_bits=12, solver=KISSAT,
           timeout=1500, mem=8, cost=8, functions=cf('repair_step'), replay=False, defs={'VERIF_MANY': None, 'NFAIL': 3, 'NATT': 3, 'REPAIR_LEVEL_MAX': 6, 'MANY_FC': fc, 'MANY_LEVEL': lv},
           note='%d failed blocks, %d parity levels%s: memory safety of the real function and "no strategy"' % (fc, lv, ' (more failed blocks than LEV_MAX, the size of the local index vectors)' if fc > 6 else ''))
           for fc, lv in ((3, 2), (7, 1), (7, 6), (8, 6))] + [    ]


def elem_obs(tier):
    return [Ob('elem.file_block_size.bs2^%d' % sh, 'harness/h_elem.c', 'h_file_block_size', defs={'BLOCK_SHIFT': sh}, unwind=4, small_path=True, timeout=600, mem=6, cost=4,
               tier='quick' if sh in (10, 18, 24) else 'thorough', functions=['file_block_size (cmdline/elem.c)', 'file_block_is_last (cmdline/elem.c)'],
               note='block size 2^%d concrete (a symbolic modulus is out of reach), every file size of at most 2^32-2 blocks and every position' % sh)
            for sh in range(10, 25)]


# ---------------------------------------------------------------- filters (C18)
def c18(tier, seed):
    F = 'harness/h_filter.c'
    ef = lambda *f: [x + ' (cmdline/elem.c)' for x in f]
    return [
        Ob('filter.alloc_file', F, 'h_filter_alloc', unwind=8, small_path=True, timeout=900, mem=6, cost=10, kind='bounded',
           bound='pattern strings of at most 5 bytes, every byte value', functions=ef('filter_alloc_file') + ['pathimport / pathcpy (cmdline/support.c) by inclusion of their callers only'],
           srcs=['cmdline/support.c']),
        Ob('filter.state_filter', 'harness/h_statew.c', 'h_state_filter', route='dfcc', replace=['filter_path', 'filter_emptydir', 'filter_existence', 'filter_correctness'], unwind=6, small_path=True, object_bits=12,
           timeout=900, mem=8, cost=8, replay=False, functions=['state_filter (cmdline/state.c)'], kind='bounded', bound='one disk holding one file, one link, one empty directory; 1..2 parity levels',
           note='every combination of -f / -d / -m / -e and every verdict of the four filter functions (replaced by contracts, dfcc)'),
    ] + [
        Ob('filter.rule_list.%s.nf%d' % (('path', 'subdir', 'emptydir')[w], n), F, 'h_filter_list', ['cmdline/support.c'], defs={'NFX': n, 'WHICH': w}, unwind=9, small_path=True,
           timeout=1500, mem=8, cost=5 + 10 * n, kind='bounded', tier='quick' if n <= 2 else 'thorough',
           bound='list of exactly %d rules (any direction / disk / name / dir / rooted kind), element paths of 1..3 components, every truth table of the glob matcher' % n,
           functions=ef(('filter_path', 'filter_subdir', 'filter_emptydir')[w], 'filter_element', 'filter_recurse', 'filter_apply'))
        for w in (0, 1, 2) for n in (0, 1, 2, 3)
    ]


# ---------------------------------------------------------------- report escaping (C20)
STATUS_LOOP = dict(region='status_loop', file='cmdline/status.c', begin='/* copy the info a temp vector, and count bad/rehash/unsynced blocks */', end='log_tag("summary:has_unsynced:%u\\n", unsynced_blocks);',
                   max_lines=80, expect_loops=2,
                   proto='static void region_status_loop(struct snapraid_state *state, block_off_t blockmax, time_t **timemap_p, unsigned *bad_p, block_off_t *bad_first_p, block_off_t *bad_last_p, unsigned *count_p, unsigned *rehash_p, unsigned *unsynced_p, unsigned *unscrubbed_p)',
                   prologue='\ttime_t *timemap;\n\tunsigned bad, count, rehash, unsynced_blocks, unscrubbed_blocks;\n\tblock_off_t bad_first, bad_last, i;\n\ttommy_node *node_disk;',
                   epilogue='\t*timemap_p = timemap; *bad_p = bad; *bad_first_p = bad_first; *bad_last_p = bad_last; *count_p = count; *rehash_p = rehash; *unsynced_p = unsynced_blocks; *unscrubbed_p = unscrubbed_blocks;')


DUP_FILE = dict(region='dup_file', file='cmdline/dup.c', scope='void state_dup(struct snapraid_state* state)', begin='struct snapraid_hash* hash;', include_begin=True, end='tommy_hashdyn_foreach(&hashset, (tommy_foreach_func*)hash_free);', end_first_after=True, max_lines=40, expect_loops=0, brace_balance=-2,
                proto='static void region_dup_file(struct snapraid_state *state, tommy_hashdyn *hashset_p, struct snapraid_disk *disk, struct snapraid_file *file, unsigned *count_p, data_off_t *size_p)',
                prologue='\tunsigned count = *count_p;\n\tdata_off_t size = *size_p;\n\tchar esc_buffer[ESC_MAX], esc_buffer_alt[ESC_MAX];\n\tint once1, once2;\n#define hashset (*hashset_p)\n\tfor (once1 = 0; once1 < 1; ++once1) { for (once2 = 0; once2 < 1; ++once2) { /* the two loops the region text closes */',
                epilogue='#undef hashset\n\t*count_p = count; *size_p = size;\n\t(void)esc_buffer; (void)esc_buffer_alt;')


POOL_CLEAN = dict(region='pool_clean_dir', file='cmdline/pool.c', begin='static int clean_dir(const char* dir)', include_begin=True, end=' * Read all the links in a directory tree.',
                  max_lines=125, expect_loops=1, raw=True)


POOL_STRUCT = dict(region='pool_struct', file='cmdline/pool.c', begin='struct snapraid_pool {', include_begin=True, end='struct snapraid_pool* pool_alloc(', max_lines=14, expect_loops=0, raw=True)
POOL_MAKE_LINK = dict(region='pool_make_link', file='cmdline/pool.c', begin='static void make_link(tommy_hashdyn* poolset', include_begin=True, end='void state_pool(struct snapraid_state* state)', max_lines=110, expect_loops=0, raw=True)


def _x86_region(fn):
    return dict(region='x86_one_%s' % fn, file='raid/x86.c', begin='void raid_%s(int nd, size_t size, void **vv)' % fn, end='return;', end_first_after=True, include_end=True, max_lines=30, expect_loops=1, brace_balance=2,
                proto='static void region_x86_one_%s(int nd, size_t size, void **vv)' % fn, epilogue='\t}\n\t} /* closes the special case and the function block the region text opened */')


def x86onedisk_obs():
    obs = []
    for np_ in (3, 4, 5, 6):
        for var in ('ssse3', 'ssse3ext', 'avx2ext'):
            fn = 'gen%d_%s' % (np_, var)
            obs.append(Ob('gen.x86.%s.one_disk' % fn, 'harness/h_x86onedisk.c', 'h_x86_one_disk', inject=[_x86_region(fn)], defs={'NP': np_, 'X86_REGION_FILE': '"region_x86_one_%s.c"' % fn, 'X86_REGION_CALL': 'region_x86_one_%s' % fn},
                          unwind=10, timeout=600, mem=6, cost=2,
                          functions=['raid_%s (raid/x86.c): beginning of the function up to the end of the one-data-disk special case (extracted mechanically; the inline assembly that follows is NOT covered)' % fn],
                          note='every data block, every previous content of the parity buffers, every size 0..8'))
    return obs


def pool_obs():
    return [Ob('pool.clean_dir', 'harness/h_pool.c', 'h_pool_clean_dir', inject=[POOL_CLEAN], unwind=7, unwindset=['clean_dir:2', 'clean_dir.0:7'], object_bits=12, small_path=True, timeout=900, mem=8, cost=5, kind='bounded',
               bound='a pool tree of at most 3 entries in the root, each directory holding at most one link (shape in harness/h_pool.c); directories nested deeper are handled by the same code but are outside the bound, every combination of absent / link / directory',
               functions=['clean_dir (cmdline/pool.c, whole function extracted verbatim; opendir / readdir / lstat / rmdir / closedir / pathprint / pathslash routed to stubs)'],
               note='every combination and order of links, foreign files and directories; rmdir failing or not'),
            Ob('pool.make_link', 'harness/h_poollink.c', 'h_pool_make_link', inject=[POOL_STRUCT, POOL_MAKE_LINK], unwind=6, small_path=True, timeout=600, mem=6, cost=2,
               functions=['make_link + struct snapraid_pool (cmdline/pool.c, extracted verbatim; file system, index and path building routed to stubs)'],
               note='a link already present or not, with any time-stamp and target; share directory or not; every outcome of remove / mkancestor / symlink (EEXIST or other) / lmtime')]


def dup_obs():
    D = 'harness/h_dup.c'
    return [Ob('dup.hash_alloc.hs%d' % hs, D, 'h_dup_hash_alloc', inject=[DUP_FILE], defs={'HS': hs}, unwind=50, small_path=True, timeout=900, mem=6, cost=4, replay=False, kind='bounded', bound='files of at most 3 blocks, hash size %d' % hs,
               functions=['hash_alloc (cmdline/dup.c)'], note='every block state and recorded hash') for hs in (4,)] + [
            Ob('dup.hash_compare', D, 'h_dup_compare', inject=[DUP_FILE], unwind=20, small_path=True, timeout=600, mem=6, cost=2, replay=False, functions=['hash_compare (cmdline/dup.c)'], note='every pair of digests'),
            Ob('dup.file_loop.region', D, 'h_dup_file', inject=[DUP_FILE], unwind=4, small_path=True, timeout=600, mem=6, cost=2, replay=False,
               functions=['state_dup: per-file body of the loop (cmdline/dup.c, extracted mechanically)'], note='empty / hashed / not hashed file, digest already met or not, every size and running totals')]


def status_obs():
    return [Ob('status.summary_loop.region', 'harness/h_status.c', 'h_status_loop', inject=[STATUS_LOOP], unwind=8, small_path=True, timeout=900, mem=6, cost=6, kind='bounded', bound='at most 4 stripes, 2 disks', replay=False,
               functions=['state_status: region "copy the info a temp vector, and count bad/rehash/unsynced blocks" (cmdline/status.c, extracted mechanically)'],
               note='every info word and block state per stripe; info_get / fs_par2block_find by stub')]


def c20(tier, seed):
    E = 'harness/h_esc.c'
    return [
        Ob('esc.tag', E, 'h_esc_tag', ['cmdline/support.c'], unwind=14, timeout=900, mem=6, cost=5, kind='bounded',
           bound='strings of at most 5 bytes, every byte value', functions=['esc_tag (cmdline/support.c)']),
        Ob('esc.shell', E, 'h_esc_shell', ['cmdline/support.c'], unwind=14, timeout=900, mem=6, cost=5, kind='bounded',
           bound='strings of at most 5 bytes, every byte value', functions=['esc_shell / esc_shell_multi (cmdline/support.c)'],
           expect_fail=['esc_shell leaves no TAB or NEWLINE unquoted']),
    ] + status_obs() + dup_obs() + pool_obs()


STATE_Q_REGION = dict(region='state_q', file='cmdline/state.c', begin="} else if (c == 'Q') {", end="} else if (c == 'N') {", include_begin=True, max_lines=150,
                      proto='static void region_state_q(struct snapraid_state *state, STREAM *f, const char *path)',
                      prologue="\tint ret;\n\tint c = 'Q';\n\tif (c == 0) {", epilogue='\t}\n\t(void)ret;')


STATE_Q_AUTOCONF = dict(region='state_q_autoconf', file='cmdline/state.c', scope="} else if (c == 'Q') {", begin='if (v_level >= LEV_MAX) {', include_begin=True,
                        end='/* if we use this parity entry */', end_first_after=True, max_lines=40, expect_loops=0,
                        proto='static void region_state_q_autoconf(struct snapraid_state *state, uint32_t v_level, uint32_t v_split_mac, const char *path, STREAM *f)')


def state_obs(tier):
    return [Ob('state.verify_content.all_copies', 'harness/h_statew.c', 'h_verify_all', unwind=6, small_path=True, timeout=900, mem=8, cost=5, replay=False, kind='bounded', bound='1..3 content copies',
               functions=['state_verify_content (cmdline/state.c)'],
               note='every verdict vector of the per-copy verification threads (thread_create / thread_join / sopen_read / sclose by stub)'),
            Ob('elem.fs_file2block_get.guard', 'harness/h_elem.c', 'h_file2block_guard', unwind=4, small_path=True, timeout=600, mem=6, cost=3,
               functions=['fs_file2block_get (cmdline/elem.c)', 'file_block (cmdline/elem.h)'], note='every blockmax and position (32 bit)'),
            Ob('state.write.order', 'harness/h_statew.c', 'h_state_write', route='dfcc', replace=['state_write_content', 'state_verify_content', 'state_rename_content'], unwind=4, small_path=True,
               timeout=900, mem=8, cost=5, replay=False, functions=['state_write (cmdline/state.c)'],
               note='typestate contracts on the three steps (dfcc replace): each requires the phase its predecessor ensures; the checksum handed to the verification is the one produced by the write'),
            Ob('state.record_Q.autoconf', 'harness/h_stateq.c', 'h_region_q_autoconf', ['cmdline/util.c'], inject=[STATE_Q_AUTOCONF], unwind=12, small_path=True, timeout=900, mem=8, cost=5,
               functions=["state_read_content: region record 'Q', auto-configuration step (cmdline/state.c, extracted mechanically)"],
               note="region = the validity checks on the announced level / split count plus the auto-configuration step; state, v_level, v_split_mac become parameters; every 32-bit value of both")]


SYNC_COMPLETE = dict(region='sync_complete', file='cmdline/sync.c', begin="/* if we have read all the data required and it's correct, proceed with the parity */",
                     end='/* finally schedule parity write */', max_lines=90, expect_loops=2,
                     proto='static void region_sync_complete(struct snapraid_state *state, struct snapraid_handle *handle, unsigned diskmax, block_off_t blockcur, int error_on_this_block, int io_error_on_this_block, int silent_error_on_this_block, int fixed_error_on_this_block, int parity_needs_to_be_updated, int *parity_going_p, int rehash, struct snapraid_rehash *rehandle, void **buffer, snapraid_info info, time_t now)',
                     prologue='\tunsigned j;\n\tint parity_going_to_be_updated = *parity_going_p;', epilogue='\t*parity_going_p = parity_going_to_be_updated;')


SYNC_HASH = dict(region='sync_hash', file='cmdline/sync.c', scope='static int state_sync_process(struct snapraid_state* state, struct snapraid_parity_handle* parity_handle, block_off_t blockstart, block_off_t blockmax)', begin='/* now compute the hash */', end='/* if we have only silent errors we can try to fix them on-the-fly */',
                 max_lines=100, brace_balance=-1,
                 proto='static void region_sync_hash(struct snapraid_state *state, int rehash, void **buffer, unsigned diskcur, unsigned read_size, struct snapraid_rehash *rehandle, struct snapraid_block *block, struct snapraid_disk *disk, struct snapraid_file *file, block_off_t file_pos, struct snapraid_task *task, block_off_t blockcur, unsigned *error_p, int *error_on_p, unsigned *silent_error_p, int *silent_on_p, struct failed_struct *failed, unsigned *failed_count_p, int *needs_p)',
                 prologue='\tunsigned char hash[HASH_MAX];\n\tchar esc_buffer[ESC_MAX];\n\tunsigned error = *error_p, silent_error = *silent_error_p, failed_count = *failed_count_p;\n\tint error_on_this_block = *error_on_p, silent_error_on_this_block = *silent_on_p, parity_needs_to_be_updated = *needs_p;\n\tint once;\n\tfor (once = 0; once < 1; ++once) { /* the per-disk loop body: `continue` ends it; the region text closes this brace */',
                 epilogue='\t*error_p = error; *silent_error_p = silent_error; *failed_count_p = failed_count;\n\t*error_on_p = error_on_this_block; *silent_on_p = silent_error_on_this_block; *needs_p = parity_needs_to_be_updated;\n\t(void)esc_buffer;')


SYNC_FIXCHK = dict(region='sync_fixchk', file='cmdline/sync.c', begin='/* check the result and prepare the data */', end='/* if all is processed, we have fixed it */',
                   max_lines=50, expect_loops=1,
                   proto='static unsigned region_sync_fixchk(struct snapraid_state *state, int rehash, struct failed_struct *failed, unsigned failed_count, void **buffer, void **copy)',
                   prologue='\tunsigned j;', epilogue='\treturn j;')


def sync_fixchk_obs():
    return [Ob('sync.fixcheck.region', 'harness/h_sync.c', 'h_sync_fixchk', inject=[SYNC_COMPLETE, SYNC_FIXCHK], defs={'VERIF_FIXCHK_REGION': None}, unwind=18, small_path=True, timeout=900, mem=8, cost=8, replay=False,
               kind='bounded', bound='at most 3 failed blocks per stripe, block size 8',
               functions=['state_sync_process: region "check the result and prepare the data" .. "if all is processed" (cmdline/sync.c, extracted mechanically)'],
               note='every state BLK/CHG/REP/DELETED of each failed block, sizes, buffer and saved-copy contents, outcome of each digest comparison; memhash by contract')]


SYNC_PREHASH = dict(region='sync_prehash', file='cmdline/sync.c', scope='static int state_hash_process(struct snapraid_state* state, block_off_t blockstart, block_off_t blockmax, int* skip_sync)',
                    begin='/* now compute the hash */', end='/* count the number of processed block */', end_first_after=True, max_lines=60,
                    proto='static void region_sync_prehash(struct snapraid_state *state, int rehash, unsigned char *buffer, unsigned read_size, unsigned block_state, struct snapraid_block *block, block_off_t i, struct snapraid_disk *disk, struct snapraid_file *file, struct snapraid_handle *handle, unsigned j, block_off_t file_pos, int *skip_sync, unsigned *silent_error_p, int *reached_end)',
                    prologue='\tunsigned char hash[HASH_MAX];\n\tchar esc_buffer[ESC_MAX];\n\tunsigned silent_error = *silent_error_p;\n\tint once;\n\tfor (once = 0; once < 1; ++once) { /* loop body: `continue` ends it */',
                    epilogue='\t*reached_end = 1;\n\t}\n\t*silent_error_p = silent_error;\n\t(void)esc_buffer;')


def sync_prehash_obs():
    return [Ob('sync.prehash.region', 'harness/h_sync.c', 'h_sync_prehash', inject=[SYNC_COMPLETE, SYNC_PREHASH], defs={'VERIF_PREHASH_REGION': None}, unwind=18, small_path=True, timeout=900, mem=8, cost=8, replay=False,
               functions=['state_hash_process: region "now compute the hash" .. "count the number of processed block" (cmdline/sync.c, extracted mechanically)'],
               note='every block state CHG/REP, recorded hash, digests, hash size 2..16, migration flag, copy flag; memhash by contract')]


SYNC_WERR = dict(region='sync_werr', file='cmdline/sync.c', begin='/* handle errors reported */', end='/* mark the state as needing write */', end_first_after=True, max_lines=40, expect_loops=1,
                 proto='static void region_sync_werr(struct snapraid_state *state, int *writer_error, block_off_t blockcur, unsigned *error_p, unsigned *io_error_p, int *bailed)',
                 prologue='\tunsigned j, error = *error_p, io_error = *io_error_p;',
                 epilogue='\tgoto out;\nbail:\n\t*bailed = 1;\nout:\n\t*error_p = error; *io_error_p = io_error;')


def sync_hash_obs():
    return [Ob('sync.hash.region', 'harness/h_sync.c', 'h_sync_hash', inject=[SYNC_COMPLETE, SYNC_HASH], defs={'VERIF_HASH_REGION': None}, unwind=18, small_path=True, timeout=900, mem=8, cost=8, replay=False,
               functions=['state_sync_process: region "now compute the hash" .. "if we have only silent errors" (cmdline/sync.c, extracted mechanically)', 'block_has_updated_hash / block_has_invalid_parity / hash_is_unique (cmdline/elem.h)'],
               note='every block state BLK/REP/CHG, recorded hash, digests of both kinds, hash size 2..16, migration flag; memhash by contract (arbitrary digest per kind)')]


def fs_obs():
    rp = ['fs_par2extent_get_unlock', 'fs_file2extent_get_unlock', 'tommy_tree_insert', 'tommy_tree_remove']
    return [Ob('fs.deallocate', 'harness/h_fs.c', 'h_fs_deallocate', route='dfcc', replace=rp, unwind=4, small_path=True, object_bits=12, solver=KISSAT, timeout=1800, mem=8, cost=20, replay=False,
               functions=['fs_deallocate (cmdline/elem.c)', 'extent_alloc (cmdline/elem.c)'],
               note='every extent (parity position, file position, length) and every position inside it, probed at a symbolic position; tree operations and the extent finder by recording contracts (dfcc)'),
            ] + [Ob('fs.allocate.prev%d' % hp, 'harness/h_fs.c', 'h_fs_allocate', route='dfcc', replace=rp, defs={'HAVE_PREV': hp}, unwind=4, small_path=True, object_bits=12, solver=KISSAT, timeout=1800, mem=8, cost=20, replay=False,
               functions=['fs_allocate (cmdline/elem.c)', 'extent_alloc (cmdline/elem.c)'],
               note='every existing extent / new position / file position; an extent for the previous file block %s; tree operations and the extent finder by recording contracts (dfcc)' % ('exists' if hp else 'does not exist')) for hp in (0, 1)]


def fstree_obs():
    T = 'harness/h_fstree.c'
    bound = 'search trees of at most 7 extents (every shape of depth <= 3, every position / length, in-order increasing and non overlapping)'
    obs = [Ob('fs.cmp.disk_empty', T, 'h_cmp_disk_empty', unwind=4, small_path=True, timeout=600, mem=4, cost=2,
              functions=['extent_disk_empty_compare_unlock (cmdline/elem.c)'], note='every extent (position, length >= 1) and every parity size'),
           Ob('fs.cmp.parity_inside', T, 'h_cmp_parity_inside', unwind=4, small_path=True, timeout=600, mem=4, cost=2,
              functions=['extent_parity_inside_compare_unlock (cmdline/elem.c)', 'extent_parity_compare (cmdline/elem.c)'], note='every extent and every position'),
           Ob('fs.cmp.file_inside', T, 'h_cmp_file_inside', unwind=4, small_path=True, timeout=600, mem=4, cost=2,
              functions=['extent_file_inside_compare_unlock (cmdline/elem.c)', 'extent_file_compare (cmdline/elem.c)'], note='every extent, every file position, file before / same / after'),
           Ob('fs.tree.is_empty', T, 'h_fs_is_empty', unwind=9, small_path=True, timeout=900, mem=6, cost=5, kind='bounded', bound=bound,
              functions=['fs_is_empty (cmdline/elem.c)', 'tommy_tree_search_compare / tommy_tree_search_node (tommyds/tommytree.c)', 'extent_disk_empty_compare_unlock (cmdline/elem.c)']),
           Ob('fs.tree.par2extent', T, 'h_fs_par2extent', unwind=9, small_path=True, timeout=900, mem=6, cost=8, kind='bounded', bound=bound,
              functions=['fs_par2extent_get_unlock / fs_par2file_find / fs_par2block_find / fs_file2block_get (cmdline/elem.c)', 'tommy_tree_search_compare / tommy_tree_search_node (tommyds/tommytree.c)'],
              note='with every value of the last-extent cache (none, or any extent of the tree)'),
           Ob('fs.tree.size', T, 'h_fs_size', unwind=9, small_path=True, timeout=900, mem=6, cost=5, kind='bounded', bound=bound,
              functions=['fs_size / extent_disk_size_compare_unlock (cmdline/elem.c)', 'tommy_tree_search_compare (tommyds/tommytree.c)'])]
    return obs


SCAN_EMPTY = dict(region='scan_empty', file='cmdline/scan.c', begin='/* check for disks where all the previously existing files where removed */',
                  end='/* check for disks without the physical offset support */', max_lines=60, expect_loops=1,
                  proto='static void region_scan_empty(struct snapraid_state *state, tommy_list scanlist, int is_diff)',
                  prologue='\ttommy_node *i;\n\ttommy_node *j;\n\tint done;')
SYNC_PSIZE = dict(region='sync_psize', file='cmdline/sync.c', scope='int state_sync(struct snapraid_state* state, block_off_t blockstart, block_off_t blockcount)',
                  begin='/* minimum size of the parity files we expect */', end='unrecoverable_error = 0;', end_first_after=True, max_lines=90,
                  proto='static int region_sync_psize(struct snapraid_state *state, block_off_t blockstart, block_off_t blockcount, block_off_t *blockmax_p, struct snapraid_parity_handle *parity_handle)',
                  prologue='\tblock_off_t blockmax = *blockmax_p;\n\tblock_off_t used_paritymax;\n\tblock_off_t file_paritymax;\n\tunsigned l;\n\tint ret;',
                  epilogue='\t*blockmax_p = blockmax;\n\treturn 0;')
STATE_Z = dict(region='state_z', file='cmdline/state.c', scope="} else if (c == 'z') {", begin='uint32_t block_size;', include_begin=True,
               end="} else if (c == 'y') {", end_first_after=True, max_lines=50, expect_loops=0,
               proto='static void region_state_z(struct snapraid_state *state, STREAM *f, const char *path)', prologue='\tint ret;')
STATE_Y = dict(region='state_y', file='cmdline/state.c', scope="} else if (c == 'y') {", begin='uint32_t hash_size;', include_begin=True,
               end="} else if (c == 'x') {", end_first_after=True, max_lines=50, expect_loops=0,
               proto='static void region_state_y(struct snapraid_state *state, STREAM *f, const char *path)', prologue='\tint ret;')
STATE_M = dict(region='state_m', file='cmdline/state.c', scope="} else if (c == 'm' || c == 'M') {", begin='/* find the disk */', include_begin=True,
               end='map = map_alloc(disk->name, v_pos, v_total_blocks, v_free_blocks, uuid);', end_first_after=True, max_lines=40, expect_loops=0,
               proto='static void region_state_m(struct snapraid_state *state, char *buffer, char *uuid, STREAM *f, const char *path, struct snapraid_disk **disk_out)',
               prologue='\tstruct snapraid_disk *disk;', epilogue='\t*disk_out = disk;')
DIFF_VERDICT = dict(region='diff_verdict', file='cmdline/scan.c', begin='total.count_equal = 0;', include_begin=True, end='int state_diff(struct snapraid_state* state)', max_lines=100, expect_loops=1,
                    brace_balance=-1,
                    proto='static int region_diff_verdict(struct snapraid_state *state, tommy_list scanlist, int is_diff)',
                    prologue='\ttommy_node *i;\n\tfptr *msg;\n\tstruct snapraid_scan total;\n\tint no_difference;\n\t{ /* the region text ends with the closing brace of state_diffscan */', epilogue='\treturn 0;')
ILK_REGIONS = [SCAN_EMPTY, SYNC_PSIZE, STATE_Z, STATE_Y, STATE_M, DIFF_VERDICT]


MAIN_CONFIG = dict(region='main_config', file='cmdline/snapraid.c', begin='state_init(&state);', include_begin=True, end='if (operation == OPERATION_DIFF) {', max_lines=40, expect_loops=0,
                   proto='static void region_main_config(struct snapraid_state *state_p, struct snapraid_option *opt_p, const char *conf, const char *command, int *lock_p)',
                   prologue='\tstruct snapraid_state state = *state_p;\n\tstruct snapraid_option opt = *opt_p;\n\ttommy_list filterlist_disk;\n\tint lock = *lock_p;\n\ttommy_list_init(&filterlist_disk);',
                   epilogue='\t*state_p = state;\n\t*lock_p = lock;')
MAIN_SYNC = dict(region='main_sync', file='cmdline/snapraid.c', begin='state.clear_past_hash = 1;', include_begin=True, end='} else if (operation == OPERATION_DRY) {', end_first_after=True,
                 max_lines=70, expect_loops=0,
                 proto='static void region_main_sync(struct snapraid_state *state_p, struct snapraid_option *opt_p, const char *run, block_off_t blockstart, block_off_t blockcount)',
                 prologue='\tstruct snapraid_state state = *state_p;\n\tstruct snapraid_option opt = *opt_p;\n\tint ret;', epilogue='\t*state_p = state;')


SCAN_FILE = dict(region='scan_file', file='cmdline/scan.c', begin='static void scan_file(struct snapraid_scan* scan, int is_diff, const char* sub, struct stat* st, uint64_t physical)',
                 end=' * Remove the specified dir from the data set.', max_lines=460, expect_loops=1,
                 proto='static void region_scan_file(struct snapraid_scan *scan, int is_diff, const char *sub, struct stat *st, uint64_t physical)',
                 prologue='\t/* the region text is the whole body block of scan_file() followed by the opening of the next doc comment (closed by the end marker) */')


SCAN_EMPTYDIR = dict(region='scan_emptydir', file='cmdline/scan.c', begin='static void scan_emptydir(struct snapraid_scan* scan, const char* sub)', end='struct dirent_sorted {', max_lines=50, expect_loops=0,
                     proto='static void region_scan_emptydir(struct snapraid_scan *scan, const char *sub)', prologue='\t/* the region text is the whole body block of scan_emptydir() */')


SCAN_LINK = dict(region='scan_link', file='cmdline/scan.c', begin='static void scan_link(struct snapraid_scan* scan, int is_diff, const char* sub, const char* linkto, unsigned link_flag)',
                 end=' * Insert the specified file in the parity.', max_lines=90, expect_loops=0,
                 proto='static void region_scan_link(struct snapraid_scan *scan, int is_diff, const char *sub, const char *linkto, unsigned link_flag)', prologue='\t/* the region text is the whole body block of scan_link() */')


SCAN_DEALLOC = dict(region='scan_file_deallocate', file='cmdline/scan.c', begin='static void scan_file_deallocate(struct snapraid_scan* scan, struct snapraid_file* file)',
                    end='static void scan_file_delayed_allocate(struct snapraid_scan* scan, struct snapraid_file* file)', max_lines=90, expect_loops=1,
                    proto='static void region_scan_file_deallocate(struct snapraid_scan *scan, struct snapraid_file *file)')
SCAN_ALLOC = dict(region='scan_file_allocate', file='cmdline/scan.c', begin='static void scan_file_allocate(struct snapraid_scan* scan, struct snapraid_file* file)',
                  end=' * Delete the specified file from the parity.', max_lines=100, expect_loops=2,
                  proto='static void region_scan_file_allocate(struct snapraid_scan *scan, struct snapraid_file *file)', prologue='\t/* whole body of scan_file_allocate() followed by the opening of the next doc comment (closed by the end marker) */')


def scanalloc_obs():
    A = 'harness/h_scanalloc.c'
    b = 'files of at most 2 blocks, 5 parity positions, hash size 16'
    return [Ob('scan.file_deallocate', A, 'h_scan_file_deallocate', inject=[SCAN_DEALLOC, SCAN_ALLOC], unwind=18, small_path=True, timeout=900, mem=6, cost=5, replay=False, kind='bounded', bound=b,
               functions=['scan_file_deallocate (cmdline/scan.c; whole body extracted mechanically, callees routed to stubs)', 'hash_invalid_set (cmdline/elem.h)'],
               note='every state (BLK / CHG / REP) and hash per block, past hashes sanitised at load time or not'),
            Ob('scan.file_allocate', A, 'h_scan_file_allocate', inject=[SCAN_DEALLOC, SCAN_ALLOC], unwind=18, small_path=True, timeout=900, mem=6, cost=8, replay=False, kind='bounded', bound=b,
               functions=['scan_file_allocate (cmdline/scan.c; whole body extracted mechanically, callees routed to stubs)', 'hash_zero_set / hash_invalid_set / block_has_updated_hash (cmdline/elem.h)'],
               note='every occupant (empty / deleted with any hash / file block) per position, first free position, new blocks with or without inherited hash, rehash pending per position, past hashes sanitised or not')]


SCAN_REMOVED = dict(region='scan_removed', file='cmdline/scan.c', begin='/* check for removed files */', end='/* sort the files before inserting them */', max_lines=70, expect_loops=3,
                    proto='static void region_scan_removed(struct snapraid_scan *scan, struct snapraid_disk *disk, int is_diff)', prologue='\ttommy_node *node;\n\tchar esc_buffer[ESC_MAX];', epilogue='\t(void)esc_buffer;')


def lock_obs():
    return [Ob('util.lock_lock', 'harness/h_lock.c', 'h_lock_lock', ['cmdline/util.c'], unwind=4, small_path=True, timeout=600, mem=6, cost=2, replay=False,
               functions=['lock_lock / lock_unlock (cmdline/util.c)'], note='every outcome of open / flock / close (stubs)')]


def scanhelpers_obs():
    return [Ob('scan.link_dir_set_changes', 'harness/h_scanhelpers.c', 'h_scan_set_changes', unwind=6, small_path=True, timeout=600, mem=6, cost=3, replay=False,
               functions=['scan_link_insert / scan_link_remove / scan_emptydir_insert / scan_emptydir_remove (cmdline/scan.c, whole translation unit; containers and deallocation routed to recording stubs)'],
               note='each of the four steps, state already marked for saving or not')]


def scanfile_obs():
    F = 'harness/h_scanfile.c'
    return [Ob('scan.removed.region', F, 'h_scan_removed', inject=[SCAN_FILE, SCAN_EMPTYDIR, SCAN_LINK, SCAN_REMOVED], defs={'VERIF_REMOVED': None}, unwind=6, small_path=True, timeout=600, mem=6, cost=4, replay=False, kind='bounded',
               bound='at most 3 recorded files, 3 links and 3 empty directories on the disk',
               functions=['state_diffscan: region "check for removed files" .. "sort the files before inserting them" (cmdline/scan.c, extracted mechanically)'],
               note='every present / not present pattern, sync and diff; scan_file_remove / scan_link_remove / scan_emptydir_remove by recording stub'),
            Ob('scan.link', F, 'h_scan_link', inject=[SCAN_FILE, SCAN_EMPTYDIR, SCAN_LINK], defs={'VERIF_SCANLINK': None}, unwind=6, small_path=True, timeout=600, mem=6, cost=3, replay=False,
               functions=['scan_link (cmdline/scan.c; whole body extracted mechanically, callees routed to stubs)'], note='recorded or new link, same / different target, symbolic / hard link then and now, sync and diff'),
            Ob('scan.emptydir', F, 'h_scan_emptydir', inject=[SCAN_FILE, SCAN_EMPTYDIR, SCAN_LINK], defs={'VERIF_EMPTYDIR': None}, unwind=6, small_path=True, timeout=600, mem=6, cost=3, replay=False,
               functions=['scan_emptydir (cmdline/scan.c; whole body extracted mechanically, callees routed to stubs)'], note='recorded or new directory, every value of the seven change counters'),
            Ob('scan.scan_file', F, 'h_scan_file', inject=[SCAN_FILE], unwind=6, small_path=True, timeout=1800, mem=8, cost=15, replay=False,
               functions=['scan_file (cmdline/scan.c; whole body extracted mechanically, every callee routed to a recording stub)'],
               note='every size / time-stamp / inode / link count of the entry, every recorded file found by inode and / or by path (same or another object), disk inode / uuid capabilities, --force-zero, --force-nocopy, sync and diff, two disks in the copy search'),
            Ob('scan.full_hashed', F, 'h_full_hashed', inject=[SCAN_FILE], unwind=6, small_path=True, timeout=900, mem=6, cost=4, kind='bounded', bound='files of at most 4 blocks',
               functions=['file_is_full_hashed_and_stable (cmdline/scan.c)', 'block_has_updated_hash (cmdline/elem.h)'],
               note='every block state, mapped / unmapped position and rehash mark per block; fs_file2block_get / fs_file2par_find / info_get by stub')]


def filecopy_obs():
    return [Ob('elem.file_copy.hash%d' % hs, 'harness/h_elem.c', 'h_file_copy', defs={'HASH_SZ': hs}, unwind=18, small_path=True, timeout=900, mem=6, cost=4, kind='bounded',
               bound='files of at most 3 blocks, hash size %d' % hs,
               functions=['file_copy (cmdline/elem.c)'], note='every source / destination hash, source state BLK or REP, every destination state and flag word') for hs in (16, 4)]


MAIN_DIFF = dict(region='main_diff', file='cmdline/snapraid.c', begin='if (operation == OPERATION_DIFF) {', end='} else if (operation == OPERATION_SYNC) {', max_lines=14, expect_loops=0,
                 proto='static void region_main_diff(struct snapraid_state *state_p)', prologue='\tstruct snapraid_state state = *state_p;\n\tint ret;', epilogue='\t*state_p = state;')


MAIN_OPS = dict(region='main_ops', file='cmdline/snapraid.c', begin='#define OPERATION_DIFF 0', include_begin=True, end='#define OPERATION_SMART 17', include_end=True, max_lines=20, expect_loops=0,
                proto='static void region_main_ops(void)')
MAIN_DISPATCH = dict(region='main_dispatch', file='cmdline/snapraid.c', begin='if (operation == OPERATION_DIFF) {', include_begin=True, end='/* close log file */', max_lines=260, expect_loops=0,
                     proto='static void region_main_dispatch(struct snapraid_state *state_p, struct snapraid_option *opt_p, int operation, const char *run, const char *import_timestamp, const char *import_content)',
                     prologue='\tstruct snapraid_state state = *state_p;\n\tstruct snapraid_option opt = *opt_p;\n\tint ret;\n\tblock_off_t blockstart = 0, blockcount = 0;\n\ttommy_list filterlist_file, filterlist_disk;\n\tint filter_missing = 0, filter_error = 0, plan = 0, olderthan = 0;\n\ttommy_list_init(&filterlist_file);\n\ttommy_list_init(&filterlist_disk);',
                     epilogue='\t*state_p = state;')


def main_obs():
    M = 'harness/h_main.c'
    return [Ob('main.config.region', M, 'h_main_config', inject=[MAIN_CONFIG, MAIN_SYNC, MAIN_DIFF, MAIN_OPS, MAIN_DISPATCH], unwind=4, small_path=True, timeout=600, mem=6, cost=3,
               functions=['main: region "state_init(&state)" .. before the command dispatch (cmdline/snapraid.c, extracted mechanically)'],
               note='configured mode Cauchy / Vandermonde, lock file configured or not, --test-skip-lock, lock_lock succeeding / failing with any errno; every callee a recording stub'),
            Ob('main.sync_branch.region', M, 'h_main_sync', inject=[MAIN_CONFIG, MAIN_SYNC, MAIN_DIFF, MAIN_OPS, MAIN_DISPATCH], unwind=4, small_path=True, timeout=600, mem=6, cost=3,
               functions=['main: the OPERATION_SYNC branch (cmdline/snapraid.c, extracted mechanically)'],
               note='every outcome of scan / sync / test command, need_write set by scan or by sync, forced content write, kill-after-sync; every callee a recording stub'),
            Ob('main.diff_branch.region', M, 'h_main_diff', inject=[MAIN_CONFIG, MAIN_SYNC, MAIN_DIFF, MAIN_OPS, MAIN_DISPATCH], unwind=4, small_path=True, timeout=600, mem=6, cost=2,
               functions=['main: the OPERATION_DIFF branch (cmdline/snapraid.c, extracted mechanically)'], note='every return value of state_diff'),
            Ob('main.dispatch.region', M, 'h_main_dispatch', inject=[MAIN_CONFIG, MAIN_SYNC, MAIN_DIFF, MAIN_OPS, MAIN_DISPATCH], unwind=4, small_path=True, timeout=600, mem=6, cost=4,
               functions=['main: the whole command dispatch "if (operation == OPERATION_DIFF)" .. "close log file" (cmdline/snapraid.c, extracted mechanically, with its OPERATION_* definitions)'],
               note='every operation code, every outcome of the command, audit-only, import options; every state_* callee a recording stub')]


def c14(tier, seed):
    I = 'harness/h_interlock.c'
    P = 'harness/h_psize.c'
    obs = [
        Ob('ilk.scan.empty_disk.region', I, 'h_scan_empty', inject=ILK_REGIONS, unwind=6, small_path=True, timeout=900, mem=6, cost=5, kind='bounded', bound='1..3 data disks; every value of the seven per-disk change counters',
           functions=['state_diffscan: region "check for disks where all the previously existing files where removed" (cmdline/scan.c, extracted mechanically)'],
           note='every counter vector per disk, --force-empty on/off, sync and diff; exit() routed to a checking stub'),
        Ob('ilk.sync.parity_size.region', I, 'h_sync_psize', inject=ILK_REGIONS, unwind=8, small_path=True, timeout=900, mem=6, cost=8,
           functions=['state_sync: region "minimum size of the parity files we expect" .. before "unrecoverable_error = 0" (cmdline/sync.c, extracted mechanically)'],
           note='1..6 parity levels (loop bounded by LEV_MAX, fully unwound), every file size per level, every required size, every start / count, force-full / force-realloc; parity_create / parity_size / parity_used_size by stub; block size 256 (concrete: symbolic division is out of reach)'),
        Ob('ilk.state.z_record.region', I, 'h_state_z', inject=ILK_REGIONS, unwind=4, small_path=True, timeout=600, mem=6, cost=2,
           functions=["state_read_content: region 'z' record (cmdline/state.c, extracted mechanically)"], note='every recorded / configured block size, with and without configuration file'),
        Ob('ilk.state.y_record.region', I, 'h_state_y', inject=ILK_REGIONS, unwind=4, small_path=True, timeout=600, mem=6, cost=2,
           functions=["state_read_content: region 'y' record (cmdline/state.c, extracted mechanically)"], note='every recorded / configured hash size'),
        Ob('ilk.state.m_record.region', I, 'h_state_m', inject=ILK_REGIONS, unwind=4, small_path=True, timeout=600, mem=6, cost=2,
           functions=["state_read_content: region 'm'/'M' record, disk lookup (cmdline/state.c, extracted mechanically)"], note='disk found by name / by UUID / not at all'),
        Ob('parity.used_size', P, 'h_used_size', unwind=8, small_path=True, timeout=900, mem=6, cost=8, kind='bounded', bound='1..3 disks of at most 5 positions, every block state at every position',
           functions=['parity_used_size (cmdline/parity.c)', 'block_has_file_and_valid_parity (cmdline/elem.h)'], note='fs_size / fs_par2block_find by stub over a symbolic block table'),
        Ob('parity.allocated_size', P, 'h_allocated_size', unwind=8, small_path=True, timeout=900, mem=6, cost=8, kind='bounded', bound='1..3 disks of at most 5 positions, every block state at every position',
           functions=['parity_allocated_size (cmdline/parity.c)', 'block_has_file (cmdline/elem.h)'], note='fs_size / fs_par2block_find by stub over a symbolic block table'),
    ]
    return obs + main_obs() + [o for o in scanfile_obs() if o.name in ('scan.emptydir', 'scan.scan_file', 'scan.link', 'scan.removed.region')] + lock_obs()


OPEN_NOATIME = dict(region='open_noatime', file='cmdline/unix.c', begin='int open_noatime(const char* file, int flags)', end='int dirent_hidden(struct dirent* dd)', max_lines=16, expect_loops=0,
                    proto='static int real_open_noatime(const char *file, int flags)', epilogue='\treturn -1;')
ADVISE_FLAGS = dict(region='advise_flags', file='cmdline/support.c', begin='int advise_flags(struct advise_struct* advise)', end='int advise_open(struct advise_struct* advise, int f)', max_lines=24, expect_loops=0,
                    proto='static int real_advise_flags(struct advise_struct *advise)', epilogue='\treturn 0;')


CHECK_PARITY = dict(region='check_parity', file='cmdline/check.c', scope='int state_check(struct snapraid_state* state, int fix, block_off_t blockstart, block_off_t blockcount)',
                    begin='blockmax = parity_allocated_size(state);', include_begin=True, end='/* abort if error are present */', end_first_after=True, max_lines=130, expect_loops=4,
                    proto='static int region_check_parity(struct snapraid_state *state, int fix, block_off_t blockstart, block_off_t blockcount)',
                    prologue='\tblock_off_t blockmax;\n\tdata_off_t size;\n\tstruct snapraid_parity_handle parity[LEV_MAX];\n\tstruct snapraid_parity_handle *parity_ptr[LEV_MAX];\n\tunsigned error;\n\tunsigned l;\n\tint ret;',
                    epilogue='\treturn error != 0 ? -1 : 0;')


def openmode_obs():
    O = 'harness/h_openmode.c'
    return [Ob('handle.open.readonly', O, 'h_handle_open', inject=[OPEN_NOATIME, ADVISE_FLAGS, CHECK_PARITY], unwind=10, small_path=True, timeout=900, mem=6, cost=4, replay=False,
               functions=['handle_open (cmdline/handle.c)', 'open_noatime (cmdline/unix.c, extracted mechanically)', 'advise_flags (cmdline/support.c, extracted mechanically)'],
               note='every advise mode, every outcome / errno of open (incl. the EPERM retry without O_NOATIME), fstat and advise; open / fstat / close / advise_open by stub'),
            Ob('parity.open.readonly', O, 'h_parity_open', inject=[OPEN_NOATIME, ADVISE_FLAGS, CHECK_PARITY], unwind=10, small_path=True, timeout=900, mem=6, cost=6, replay=False,
               functions=['parity_open (cmdline/parity.c)', 'open_noatime (cmdline/unix.c, extracted mechanically)', 'advise_flags (cmdline/support.c, extracted mechanically)'],
               note='0..8 splits (SPLIT_MAX, fully unwound), every advise mode, every outcome / errno of each open, every recorded / real size'),
            Ob('handle.read', O, 'h_handle_read', inject=[OPEN_NOATIME, ADVISE_FLAGS, CHECK_PARITY], unwind=10, small_path=True, timeout=900, mem=6, cost=6, replay=False,
               functions=['handle_read (cmdline/handle.c)'], note='block size 8: every file content, valid length 1..8, position, chunking of the reads (0..8 bytes each), failing read, end of file, valid size of the handle; pread / bw_limit / advise_read / file_block_size by stub'),
            Ob('handle.write', O, 'h_handle_write', inject=[OPEN_NOATIME, ADVISE_FLAGS, CHECK_PARITY], unwind=10, small_path=True, timeout=900, mem=6, cost=3, replay=False,
               functions=['handle_write (cmdline/handle.c)'], note='block size 8: every valid length, position, short write; pwrite / advise_write / file_block_size by stub'),
            Ob('handle.utime', O, 'h_handle_utime', inject=[OPEN_NOATIME, ADVISE_FLAGS, CHECK_PARITY], unwind=10, small_path=True, timeout=600, mem=6, cost=2, replay=False,
               functions=['handle_utime (cmdline/handle.c)'], note='every recorded time (64-bit seconds, nanoseconds), open / closed handle, fmtime outcome'),
            Ob('handle.create', O, 'h_handle_create', inject=[OPEN_NOATIME, ADVISE_FLAGS, CHECK_PARITY], unwind=10, small_path=True, timeout=600, mem=6, cost=3, replay=False,
               functions=['handle_create (cmdline/handle.c)'], note='every outcome / errno of the successive open calls, of mkancestor and of the rename of a .unrecoverable copy; every advise mode'),
            Ob('parity.create.sizes', O, 'h_parity_create', inject=[OPEN_NOATIME, ADVISE_FLAGS, CHECK_PARITY], unwind=10, small_path=True, timeout=900, mem=6, cost=6, replay=False,
               functions=['parity_create (cmdline/parity.c)'], note='0..8 splits, every recorded / real size per split, every outcome of open / fstat / advise; no O_TRUNC / O_APPEND'),
            Ob('check.parity_open.region', O, 'h_check_parity', inject=[OPEN_NOATIME, ADVISE_FLAGS, CHECK_PARITY], unwind=8, small_path=True, timeout=900, mem=6, cost=5, replay=False,
               functions=['state_check: region "if (fix)" .. "abort if error are present" (cmdline/check.c, extracted mechanically)'],
               note='check / fix / audit-only, 1..6 parity levels, every skip / exclusion / open / create / resize outcome; parity_* and state_check_process by recording stub')]


def touch_obs():
    return [Ob('touch.state_touch', 'harness/h_touch.c', 'h_touch', unwind=6, small_path=True, timeout=600, mem=6, cost=3, kind='bounded', bound='one recorded file on one disk', replay=False,
               functions=['state_touch (cmdline/touch.c, whole translation unit; system calls routed to recording stubs)'],
               note='every recorded and on-disk nanosecond value, every outcome of open / fstat / fmtime / close, random values')]


def c12(tier, seed):
    return openmode_obs() + [o for o in main_obs() if o.name in ('main.dispatch.region', 'main.diff_branch.region')] + writeback_obs() + filepost_obs() + links_obs() + touch_obs()


def c11(tier, seed):
    I = 'harness/h_interlock.c'
    P = 'harness/h_psize.c'
    return scanhelpers_obs() + scanfile_obs() + filecopy_obs() + [
        Ob('scan.diff_verdict.region', I, 'h_diff_verdict', inject=ILK_REGIONS, unwind=6, small_path=True, timeout=900, mem=6, cost=5, kind='bounded', bound='1..3 data disks; every value (< 2^30) of the seven per-disk change counters',
           functions=['state_diffscan: region "total.count_equal = 0" .. end of the function (cmdline/scan.c, extracted mechanically)'],
           note='every counter vector per disk, parity_is_invalid true / false, diff and scan'),
        Ob('parity.is_invalid', P, 'h_is_invalid', defs={'VERIF_ALLOW_BEYOND': None}, unwind=8, small_path=True, timeout=900, mem=6, cost=8, kind='bounded', bound='1..3 disks of at most 5 positions, every block state at every position',
           functions=['parity_is_invalid (cmdline/parity.c)', 'parity_allocated_size (cmdline/parity.c)', 'block_has_file / block_has_invalid_parity (cmdline/elem.h)']),
    ] + [o for o in main_obs() if o.name in ('main.diff_branch.region', 'main.sync_branch.region')] + [o for o in syncrd_obs() if o.name == 'sync.data_reader']


def c06(tier, seed):
    Y = 'harness/h_sync.c'
    return [
        Ob('sync.block_is_enabled', Y, 'h_block_is_enabled', route='dfcc', replace=['fs_par2block_find'], inject=[SYNC_COMPLETE], unwind=6, small_path=True, timeout=900, mem=8, cost=8, replay=False,
           functions=['block_is_enabled (cmdline/sync.c)', 'block_has_file / block_has_invalid_parity (cmdline/elem.h)'], kind='bounded', bound='3 disk slots',
           note='every presence / block-state combination on 3 disks and the force-full flag; fs_par2block_find replaced by contract (dfcc)'),
        Ob('sync.complete.region', Y, 'h_sync_complete', route='dfcc', replace=['fs_par2block_find', 'fs_deallocate', 'raid_gen', 'info_set'], inject=[SYNC_COMPLETE], unwind=18, small_path=True,
           solver=KISSAT, defs={'ND': 3 if tier == 'thorough' else 2}, timeout=3000, mem=8, cost=40, replay=False, kind='bounded', bound='2 disk slots (thorough: 3)',
           functions=['state_sync_process: region "proceed with the parity" .. "finally schedule parity write" (cmdline/sync.c, extracted mechanically)'],
           note='every combination of error / I/O error / silent / fixed / needs-update / rehash flags, block states and presence on 3 disks; callees replaced by recording contracts (dfcc)'),
    ] + sync_fixchk_obs() + fs_obs() + fstree_obs() + scanalloc_obs() + holeruns_obs() + blockruns_obs()


def c05(tier, seed):
    return check_obs(tier) + import_obs() + search_obs() + writeback_obs() + filepost_obs() + [o for o in openmode_obs() if o.name in ('handle.read', 'handle.write', 'handle.utime', 'handle.create')] + scanalloc_obs() + links_obs() + blockruns_obs()


def import_obs():
    return [Ob('import.fetch', 'harness/h_import.c', 'h_import_fetch', unwind=18, small_path=True, timeout=900, mem=6, cost=5, replay=False,
               functions=['state_import_fetch (cmdline/import.c)'],
               note='every candidate / size / file content / digest / recorded hash / hash size 2..16 / migration flag / short read; tommy_hashdyn_search, open, pread, close, memhash by stub')]


def search_obs():
    H = 'harness/h_search.c'
    return [Ob('search.file_compare', H, 'h_search_compare', unwind=18, small_path=True, timeout=900, mem=6, cost=5, replay=False,
               functions=['search_file_compare (cmdline/search.c)'],
               note='every stamp of the missing file and of the candidate, block state, file content, digest, recorded hash, hash size 2..16, migration flag, short read; open / pread / close / memhash by stub'),
            Ob('search.fetch', H, 'h_search_fetch', unwind=18, small_path=True, timeout=900, mem=6, cost=5, replay=False,
               functions=['state_search_fetch (cmdline/search.c)', 'search_file_compare (cmdline/search.c)'],
               note='the index search by stub applying the REAL comparison to one candidate; file_block_size by stub (its own unit: elem.file_block_size)')]


def c19(tier, seed):
    return sync_hash_obs() + sync_prehash_obs() + import_obs() + search_obs() + scanfile_obs() + filecopy_obs() + [o for o in writeback_obs() if o.name == 'check.repair_fetch.region']


def c09(tier, seed):
    return stream_obs(['h_sgetb32', 'h_sgetb64', 'h_sgetble32', 'h_sgetbs']) + crc_obs(tier) + state_obs(tier) + crc_record_obs() + mapguard_obs() + runguard_obs() + ssync_obs() + header_obs() + othercopies_obs()


NSEC_ENC = dict(region='nsec_enc', file='cmdline/state.c', begin='/* encode STAT_NSEC_INVALID as 0 */', end='sputb64(inode, f);', end_first_after=True, max_lines=8, expect_loops=0,
                proto='static void region_nsec_enc(int32_t mtime_nsec, STREAM *f)')
NSEC_DEC = dict(region='nsec_dec', file='cmdline/state.c', begin='/* STAT_NSEC_INVALID is encoded as 0 */', end='ret = sgetb64(f, &v_inode);', end_first_after=True, max_lines=8, expect_loops=0,
                proto='static void region_nsec_dec(uint32_t *v_mtime_nsec_p)', prologue='\tuint32_t v_mtime_nsec = *v_mtime_nsec_p;', epilogue='\t*v_mtime_nsec_p = v_mtime_nsec;')


INFO_ENC = dict(region='info_enc', file='cmdline/state.c', begin='/* if there is info */', end='if (serror(f)) {', end_first_after=True, max_lines=40, expect_loops=0,
                proto='static void region_info_enc(snapraid_info info, time_t info_now, time_t info_oldest, STREAM *f)', prologue='\tunsigned flag;\n\ttime_t t;')
INFO_DEC = dict(region='info_dec', file='cmdline/state.c', begin='/* if there is an info */', end='while (v_count) {', end_first_after=True, max_lines=40, expect_loops=0,
                proto='static snapraid_info region_info_dec(struct snapraid_state *state, uint32_t flag, uint32_t v_oldest, STREAM *f, const char *path)',
                prologue='\tint ret, bad, rehash, justsynced;\n\tuint32_t t;\n\tsnapraid_info info;', epilogue='\t(void)ret;\n\treturn info;')


CRC_CHECK = dict(region='crc_check', file='cmdline/state.c', scope="} else if (c == 'N') {", begin='/* get the crc before reading it from the file */', end='crc_checked = 1;', end_first_after=True,
                 include_end=True, max_lines=30, expect_loops=0,
                 proto='static void region_crc_check(STREAM *f, const char *path, int *crc_checked_p)',
                 prologue='\tint ret, crc_checked = *crc_checked_p;\n\tuint32_t crc_stored, crc_computed;', epilogue='\t*crc_checked_p = crc_checked;\n\t(void)ret;')


def crc_record_obs():
    return [Ob('state.N_record.crc_check', 'harness/h_staterec.c', 'h_crc_record', inject=[NSEC_ENC, NSEC_DEC, CRC_CHECK], defs={'VERIF_CRC_REGION': None}, unwind=4, small_path=True, timeout=600, mem=6, cost=3,
               functions=["state_read_content: region 'N' record (cmdline/state.c, extracted mechanically)"],
               note='every computed / stored CRC value and a failing read; scrc and sgetble32 replaced by recording stubs')]


def _map_region(letter, scope):
    return dict(region='map_%s' % letter, file='cmdline/state.c', scope=scope, begin='ret = sgetb32(f, &mapping);', include_begin=True,
                end='disk = tommy_array_get(&disk_mapping, mapping);', end_first_after=True, include_end=True, max_lines=12, expect_loops=0,
                proto='static struct snapraid_disk *region_map_%s(STREAM *f, const char *path, uint32_t mapping_max, tommy_array *disk_mapping_p)' % letter,
                prologue='\tint ret;\n\tuint32_t mapping;\n\tstruct snapraid_disk *disk;', epilogue='\treturn disk;')


MAP_REGIONS = [_map_region('f', "\t\tif (c == 'f') {"), _map_region('h', "} else if (c == 'h') {"), _map_region('s', "} else if (c == 's') {"),
               _map_region('a', "} else if (c == 'a') {"), _map_region('r', "} else if (c == 'r') {")]


RUN_I = dict(region='run_i', file='cmdline/state.c', scope="} else if (c == 'i') {", begin='ret = sgetb32(f, &v_count);', end='ret = sgetb32(f, &flag);', end_first_after=True,
             max_lines=20, expect_loops=0, proto='static void region_run_i(STREAM *f, const char *path, uint32_t v_pos, uint32_t v_count, block_off_t blockmax, int ret)')
RUN_H = dict(region='run_h', file='cmdline/state.c', scope="} else if (c == 'h') {", begin='ret = sgetb32(f, &v_count);', end='/* get the sub-command */', end_first_after=True,
             max_lines=20, expect_loops=0, proto='static void region_run_h(STREAM *f, const char *path, uint32_t v_pos, uint32_t v_count, block_off_t blockmax, int ret)')
RUN_F = dict(region='run_f', file='cmdline/state.c', scope="\t\tif (c == 'f') {", begin='ret = sgetb32(f, &v_count);', end='/* fill the blocks in the run */', end_first_after=True,
             max_lines=30, expect_loops=0, proto='static void region_run_f(STREAM *f, const char *path, block_off_t v_pos, uint32_t v_count, uint32_t v_idx, block_off_t blockmax, struct snapraid_file *file, int ret)')
RUN_REGIONS = [RUN_I, RUN_H, RUN_F]


def runguard_obs():
    return [Ob('state.%s_record.run_guard' % l, 'harness/h_staterec.c', 'h_run_%s' % l, inject=[NSEC_ENC, NSEC_DEC] + RUN_REGIONS, defs={'VERIF_RUN_REGIONS': None},
               unwind=4, small_path=True, timeout=600, mem=6, cost=2,
               functions=["state_read_content: region '%s' record, run-length guard (cmdline/state.c, extracted mechanically)" % l],
               note='every 32-bit position, count and array / file size') for l in 'ihf']


WRITE_FLUSH = dict(region='write_flush', file='cmdline/state.c', begin='retval = state_write_thread(context);', end='crc = context->crc;', end_first_after=True, max_lines=40, expect_loops=0,
                   proto='static void region_write_flush(STREAM *f, void *retval)')


def ssync_obs():
    return [Ob('state.write.flush_sequence.region', 'harness/h_ssync.c', 'h_write_flush', inject=[WRITE_FLUSH], unwind=6, small_path=True, timeout=600, mem=6, cost=2,
               functions=['state_write_content: region after the writer returned, "flush -> fsync -> close" (cmdline/state.c, extracted mechanically; single-stream build)'],
               note='writer failed or not, every outcome of sflush / ssync / sclose'),
            Ob('stream.ssync', 'harness/h_ssync.c', 'h_ssync', inject=[WRITE_FLUSH], unwind=6, small_path=True, timeout=600, mem=6, cost=2, kind='bounded', bound='at most 4 content copies in the stream',
               functions=['ssync (cmdline/stream.c)'], note='1..4 handles, every outcome of each fsync')]


HDR_WRITE = dict(region='hdr_write', file='cmdline/state.c', begin='/* check what version to use */', end='/* for each map */', end_first_after=True, max_lines=110, expect_loops=1,
                 proto='static void *region_hdr_write(struct snapraid_state *state, STREAM *f, block_off_t blockmax, int info_has_rehash, void *context)',
                 prologue='\tunsigned l;\n\tint version;', epilogue='\treturn 0;')


def _hdr_region(name, begin, end, proto, prologue='\tint c, ret;', epilogue=''):
    return dict(region='hdr_%s' % name, file='cmdline/state.c', begin=begin, end=end, end_first_after=True, max_lines=45, expect_loops=0, proto=proto, prologue=prologue, epilogue=epilogue)


HDR_REGIONS = [HDR_WRITE,
               _hdr_region('c', "} else if (c == 'c') {", "} else if (c == 'C') {", 'static void region_hdr_c(struct snapraid_state *state, STREAM *f, const char *path)'),
               _hdr_region('cc', "} else if (c == 'C') {", "} else if (c == 'z') {", 'static void region_hdr_cc(struct snapraid_state *state, STREAM *f, const char *path)'),
               _hdr_region('z', "} else if (c == 'z') {", "} else if (c == 'y') {", 'static void region_hdr_z(struct snapraid_state *state, STREAM *f, const char *path)', prologue='\tint ret;'),
               _hdr_region('y', "} else if (c == 'y') {", "} else if (c == 'x') {", 'static void region_hdr_y(struct snapraid_state *state, STREAM *f, const char *path)', prologue='\tint ret;'),
               _hdr_region('x', "} else if (c == 'x') {", "} else if (c == 'm' || c == 'M') {", 'static void region_hdr_x(STREAM *f, const char *path, block_off_t *blockmax_p)',
                           prologue='\tint ret;\n\tblock_off_t blockmax = *blockmax_p;', epilogue='\t*blockmax_p = blockmax;')]


def header_obs(pin=False):
    fn = ["state_write_thread: region version choice + header records z x y c C (cmdline/state.c, extracted mechanically)",
          "state_read_content: branches of the 'c', 'C', 'z', 'y', 'x' records (cmdline/state.c, extracted mechanically)"]
    return [Ob('state.header.roundtrip', 'harness/h_header.c', 'h_header_roundtrip', inject=HDR_REGIONS, defs=({'VERIF_PIN_FORMAT': None} if pin else {}), unwind=18, small_path=True, timeout=900, mem=6, cost=3, functions=fn,
               note='every block size, stripe count, hash size 2..32, hash kind, previous hash kind or none, seeds, 1..2 parity levels with 1..SPLIT_MAX splits, with and without configuration (-C); byte codecs by typed recording stubs (units stream.rt*)'),
            Ob('state.header.damaged', 'harness/h_header.c', 'h_header_damaged', inject=HDR_REGIONS, unwind=18, small_path=True, timeout=900, mem=6, cost=3, functions=fn[1:],
               note='one header record with arbitrary sub-letter / 32-bit value / short read against every configuration: refused exactly when not usable')]


MAP_ASSIGN = dict(region='map_assign', file='cmdline/state.c', begin='/* map disks */', end='#if HAVE_MT_WRITE', end_first_after=True, max_lines=35, expect_loops=1,
                  proto='static void region_map_assign(struct snapraid_state *state, block_off_t blockmax)', prologue='\ttommy_node *i;\n\tint mapping_idx;')
MAP_WRITE = dict(region='map_write', file='cmdline/state.c', begin='/* for each map */', end='/* for each parity */', end_first_after=True, max_lines=40, expect_loops=1,
                 proto='static void *region_map_write(struct snapraid_state *state, STREAM *f, void *context)', prologue='\ttommy_node *i;', epilogue='\treturn 0;')
MAP_READ = dict(region='map_read', file='cmdline/state.c', begin="} else if (c == 'm' || c == 'M') {", end="} else if (c == 'P') {", end_first_after=True, max_lines=100, expect_loops=0,
                proto='static void region_map_read(struct snapraid_state *state, STREAM *f, const char *path, int c, uint32_t *mapping_max_p)',
                prologue='\tint ret;\n\tchar buffer[PATH_MAX];\n\tuint32_t mapping_max = *mapping_max_p;\n\ttommy_array disk_mapping;', epilogue='\t*mapping_max_p = mapping_max;\n\t(void)disk_mapping;')


FS_IS_EMPTY = dict(region='fs_is_empty', file='cmdline/elem.c', begin='struct extent_disk_empty {', include_begin=True, end='struct extent_disk_size {', max_lines=60, expect_loops=0, raw=True)


LINK_WRITE = dict(region='link_write', file='cmdline/state.c', scope='static void* state_write_thread(void* arg)', begin='/* for each link */', end='/* for each dir */', end_first_after=True, max_lines=35, expect_loops=1,
                  proto='static void *region_link_write(struct snapraid_disk *disk, STREAM *f, unsigned *count_hardlink_p, unsigned *count_symlink_p, void *context)',
                  prologue='\ttommy_node *j;\n\tunsigned count_hardlink = *count_hardlink_p, count_symlink = *count_symlink_p;', epilogue='\t*count_hardlink_p = count_hardlink; *count_symlink_p = count_symlink;\n\treturn 0;')
DIR_WRITE = dict(region='dir_write', file='cmdline/state.c', scope='static void* state_write_thread(void* arg)', begin='/* for each dir */', end='/* deleted blocks of the disk */', end_first_after=True, max_lines=25, expect_loops=1,
                 proto='static void *region_dir_write(struct snapraid_disk *disk, STREAM *f, unsigned *count_dir_p, void *context)',
                 prologue='\ttommy_node *j;\n\tunsigned count_dir = *count_dir_p;', epilogue='\t*count_dir_p = count_dir;\n\treturn 0;')


def _link_read(name, scope, end, counter, isdir=False):
    return dict(region=name, file='cmdline/state.c', scope=scope, begin='disk = tommy_array_get(&disk_mapping, mapping);', end=end, end_first_after=True, max_lines=60, expect_loops=0,
                proto='static void region_%s(struct snapraid_disk *disk, STREAM *f, const char *path, unsigned *%s_p)' % (name, counter),
                prologue=('\tint ret;\n\tchar sub[PATH_MAX];\n' + ('\tstruct snapraid_dir *dir;\n' if isdir else '\tchar linkto[PATH_MAX];\n\tstruct snapraid_link *slink;\n') + '\tunsigned %s = *%s_p;' % (counter, counter)),
                epilogue='\t*%s_p = %s;\n\t(void)ret;' % (counter, counter))


LINK_REGIONS = [LINK_WRITE, DIR_WRITE, _link_read('link_read_s', "} else if (c == 's') {", "} else if (c == 'a') {", 'count_symlink'),
                _link_read('link_read_a', "} else if (c == 'a') {", "} else if (c == 'r') {", 'count_hardlink'), _link_read('dir_read', "} else if (c == 'r') {", "} else if (c == 'c') {", 'count_dir', True)]


def linkrec_obs():
    return [Ob('state.link_dir_records.roundtrip', 'harness/h_linkrec.c', 'h_link_dir_records', inject=LINK_REGIONS, unwind=8, small_path=True, timeout=900, mem=8, cost=4, kind='bounded', bound='at most 2 links and 2 empty directories on the disk, one-letter names',
               functions=["state_write_thread: regions 'for each link' and 'for each dir' (cmdline/state.c, extracted mechanically)", "state_read_content: branches of the 's', 'a' and 'r' records (extracted)"],
               note='0..2 links each symlink or hardlink, 0..2 directories, every name / target letter; link_alloc / dir_alloc / tommy_hashdyn_insert by recording stubs, list functions real')]


PAR_WRITE = dict(region='par_write', file='cmdline/state.c', scope='static void* state_write_thread(void* arg)', begin='/* for each parity */', end='/* for each disk */', end_first_after=True, max_lines=40, expect_loops=2,
                 proto='static void *region_par_write(struct snapraid_state *state, STREAM *f, int version, void *context)', prologue='\tunsigned l, s;', epilogue='\treturn 0;')
PAR_READ_P = dict(region='par_read_p', file='cmdline/state.c', begin="} else if (c == 'P') {", end="} else if (c == 'Q') {", end_first_after=True, max_lines=80, expect_loops=0,
                  proto='static void region_par_read_p(struct snapraid_state *state, STREAM *f, const char *path)', prologue='\tint ret;', epilogue='\t(void)ret;')
PAR_READ_Q = dict(region='par_read_q', file='cmdline/state.c', begin="} else if (c == 'Q') {", end="} else if (c == 'N') {", end_first_after=True, max_lines=150, expect_loops=1,
                  proto='static void region_par_read_q(struct snapraid_state *state, STREAM *f, const char *path)', prologue='\tint ret;', epilogue='\t(void)ret;')


def parityrec_obs():
    return [Ob('state.parity_records.roundtrip.l%d.s%d%d%s' % (lv, s0, s1, '.format2' if v2 else ''), 'harness/h_parityrec.c', 'h_parity_records', inject=[PAR_WRITE, PAR_READ_P, PAR_READ_Q], defs={'PR_LEVEL': lv, 'PR_S0': s0, 'PR_S1': s1, 'PR_V2': v2},
               unwind=6, small_path=True, timeout=600, mem=8, cost=4, kind='bounded', bound='%d parity level(s) with %s split(s), one-letter uuids' % (lv, '/'.join(map(str, (s0, s1)[:lv]))),
               functions=["state_write_thread: region 'for each parity' (cmdline/state.c, extracted mechanically)", "state_read_content: branches of the 'P' and 'Q' records (extracted)"],
               note='every block count (32 bit), every split size (64 bit), uuid letter, format 2 or 3; reader against the same configuration; pathcpy / lev_config_name by stub')
            for lv, s0, s1, v2 in ((1, 1, 1, 0), (1, 1, 1, 1), (2, 1, 1, 1), (1, 2, 1, 0), (2, 2, 1, 0), (2, 1, 2, 0))]


INFO_WRITE = dict(region='info_write', file='cmdline/state.c', begin='/* write the info for each block */', end="sputc('N', f);", end_first_after=True, max_lines=70, expect_loops=2,
                  proto='static void *region_info_write(struct snapraid_state *state, STREAM *f, block_off_t blockmax, time_t info_oldest, time_t info_now, void *context)',
                  prologue='\tblock_off_t begin;', epilogue='\treturn 0;')
INFO_READ = dict(region='info_read', file='cmdline/state.c', begin="} else if (c == 'i') {", end="} else if (c == 'h') {", end_first_after=True, max_lines=115, expect_loops=2,
                 proto='static void region_info_read(struct snapraid_state *state, STREAM *f, const char *path, block_off_t blockmax)', prologue='\tint ret;', epilogue='\t(void)ret;')


def inforuns_obs():
    return [Ob('state.i_record.inforuns.roundtrip', 'harness/h_inforuns.c', 'h_inforuns', inject=[INFO_WRITE, INFO_READ], unwind=6, small_path=True, timeout=900, mem=8, cost=5, kind='bounded', bound='arrays of at most 3 stripes',
               functions=["state_write_thread: region 'i' record, runs of equal info words (cmdline/state.c, extracted mechanically)", "state_read_content: branch of the 'i' record (extracted)"],
               note='every info word per stripe (time, bad / rehash / just-synced marks, or none), every oldest <= now; info_get / info_set / fs_info_is_required by stub over a small array')]


def fsempty_obs():
    return [Ob('elem.fs_is_empty', 'harness/h_fsempty.c', 'h_fs_is_empty', inject=[FS_IS_EMPTY], unwind=4, small_path=True, timeout=600, mem=6, cost=2,
               functions=['fs_is_empty + extent_disk_empty_compare_unlock (cmdline/elem.c, extracted verbatim)'],
               note='file / link / directory lists each empty or not, one extent at every position or none, every blockmax; tommy_tree_search_compare by stub applying the real callback')]


def maprec_obs():
    regs = [MAP_ASSIGN, MAP_WRITE, MAP_READ]
    return [Ob('state.map_records.roundtrip', 'harness/h_maprec.c', 'h_map_records', inject=regs, unwind=6, small_path=True, timeout=900, mem=8, cost=4, kind='bounded', bound='at most 3 disks in the map list',
               functions=['state_write_content: region "map disks" (cmdline/state.c, extracted mechanically)', 'state_write_thread: region "for each map" (extracted)', "state_read_content: branch of the 'm' / 'M' record (extracted)"],
               note='1..3 disks, each empty or not, every position / block counts / uuid letter; find_disk_by_name, fs_is_empty, map_alloc, tommy_array_grow / set by stub; list functions real'),
            Ob('state.map_records.old_format', 'harness/h_maprec.c', 'h_map_old_record', inject=regs, unwind=6, small_path=True, timeout=900, mem=8, cost=3,
               functions=["state_read_content: branch of the 'm' / 'M' record (cmdline/state.c, extracted mechanically)"], note="an 'm' record (reference format before 7.0) with every position and uuid letter")]


OTHER_COPIES = dict(region='other_copies', file='cmdline/state.c', begin='/* go further to check other content files */', end='/* start with a undefined default. */', end_first_after=True, max_lines=45, expect_loops=1,
                    proto='static void region_other_copies(struct snapraid_state *state, tommy_node *node, const char *path, struct stat *st_p)', prologue='\tint ret;\n\tstruct stat st = *st_p;')


def othercopies_obs():
    return [Ob('state.read.other_copies.region', 'harness/h_othercopies.c', 'h_other_copies', inject=[OTHER_COPIES], unwind=5, small_path=True, timeout=600, mem=6, cost=2, kind='bounded', bound='2 remaining content copies',
               functions=['state_read: region "go further to check other content files" (cmdline/state.c, extracted mechanically)'],
               note='0..2 remaining copies, each present / missing / unreadable, every size; stat by recording stub')]


def mapguard_obs():
    names = dict(f='file', h='hole', s='symlink', a='hardlink', r='dir')
    return [Ob('state.%s_record.mapping_guard' % l, 'harness/h_staterec.c', 'h_map_guard', inject=[NSEC_ENC, NSEC_DEC] + MAP_REGIONS, defs={'VERIF_MAP_REGIONS': None, 'MAP_RECORD': 'region_map_%s' % l},
               unwind=4, small_path=True, timeout=600, mem=6, cost=2,
               functions=["state_read_content: region '%s' (%s) record, disk mapping index (cmdline/state.c, extracted mechanically)" % (l, names[l])],
               note='every 32-bit index, every number of mapped disks, short read; tommy_array_get / sgetb32 / os_abort by checking stubs') for l in 'fhsar']


def staterec_obs(tier):
    return [Ob('state.i_record.info.roundtrip', 'harness/h_staterec.c', 'h_info_roundtrip', inject=[NSEC_ENC, NSEC_DEC, INFO_ENC, INFO_DEC], defs={'VERIF_INFO_REGIONS': None}, unwind=4, small_path=True,
               timeout=600, mem=6, cost=3,
               functions=["state_write_content: region 'i' record info word encoding (cmdline/state.c, extracted)", "state_read_content: region 'i' record info word decoding (cmdline/state.c, extracted)", 'info_make / info_get_* (cmdline/elem.h)'],
               note='every info word, every oldest <= time, every now; sputb32 / sgetb32 replaced by a FIFO (their round trip is unit stream.rt32)'),
            Ob('state.f_record.mtime_nsec.roundtrip', 'harness/h_staterec.c', 'h_nsec_roundtrip', inject=[NSEC_ENC, NSEC_DEC], unwind=4, small_path=True, timeout=600, mem=6, cost=3,
               functions=["state_write_content: region 'f' record nanosecond encoding (cmdline/state.c, extracted)", "state_read_content: region 'f' record nanosecond decoding (cmdline/state.c, extracted)"],
               note='every nanosecond value 0..999999999 and STAT_NSEC_INVALID; sputb32 replaced by a recording stub (its round trip with sgetb32 is unit stream.rt32)')]


RUNS_WRITE = dict(region='runs_write', file='cmdline/state.c', begin='/* for all the blocks of the file */', end='++count_file;', end_first_after=True, max_lines=70, expect_loops=3,
                  proto='static void *region_runs_write(struct snapraid_state *state, struct snapraid_disk *disk, struct snapraid_file *file, STREAM *f, void *context)',
                  prologue='\tblock_off_t begin, idx;', epilogue='\treturn 0;')
RUNS_READ = dict(region='runs_read', file='cmdline/state.c', scope="\t\tif (c == 'f') {", begin='/* read all the blocks */', end='/* stat */', end_first_after=True, max_lines=130, expect_loops=2,
                 proto='static void region_runs_read(struct snapraid_state *state, struct snapraid_disk *disk, struct snapraid_file *file, STREAM *f, const char *path, block_off_t blockmax)',
                 prologue='\tuint32_t v_idx;\n\tint c, ret;')


FREC_WRITE = dict(region='frec_write', file='cmdline/state.c', begin='size = file->size;', include_begin=True, end='/* for all the blocks of the file */', end_first_after=True, max_lines=30, expect_loops=0,
                  proto='static void *region_frec_write(struct snapraid_disk *disk, struct snapraid_file *file, STREAM *f, void *context)',
                  prologue='\tuint64_t size;\n\tuint64_t mtime_sec;\n\tint32_t mtime_nsec;\n\tuint64_t inode;', epilogue='\treturn 0;')
FREC_READ = dict(region='frec_read', file='cmdline/state.c', scope="\t\tif (c == 'f') {", begin='ret = sgetb64(f, &v_size);', include_begin=True, end='/* allocate the file */', end_first_after=True, max_lines=80, expect_loops=0,
                 proto='static void region_frec_read(struct snapraid_state *state, STREAM *f, const char *path, block_off_t blockmax, uint64_t *v_size_p, uint64_t *v_mtime_sec_p, uint32_t *v_mtime_nsec_p, uint64_t *v_inode_p, char *sub_out)',
                 prologue='\tint ret;\n\tuint64_t v_size, v_mtime_sec, v_inode;\n\tuint32_t v_mtime_nsec;\n\tchar sub[PATH_MAX];',
                 epilogue='\t*v_size_p = v_size; *v_mtime_sec_p = v_mtime_sec; *v_mtime_nsec_p = v_mtime_nsec; *v_inode_p = v_inode;\n\tsub_out[0] = sub[0]; sub_out[1] = sub[1]; sub_out[2] = sub[2]; sub_out[3] = sub[3];')


def frecord_obs():
    return [Ob('state.f_record.header.roundtrip', 'harness/h_frecord.c', 'h_frecord', inject=[FREC_WRITE, FREC_READ], unwind=6, small_path=True, timeout=900, mem=6, cost=4, replay=False,
               functions=["state_write_content: region 'f' record header fields (cmdline/state.c, extracted mechanically)", "state_read_content: region 'f' record header fields (cmdline/state.c, extracted mechanically)"],
               note='every 64-bit size / modification time / inode, every nanosecond value incl. the invalid marker; writer and reader connected through a typed event stream (byte / 32-bit / 64-bit / string)')]


HOLE_WRITE = dict(region='hole_write', file='cmdline/state.c', begin='/* deleted blocks of the disk */', end='/* write the info for each block */', end_first_after=True, max_lines=65, expect_loops=3, brace_balance=-1,
                  proto='static void *region_hole_write(struct snapraid_disk *disk, STREAM *f, block_off_t blockmax, void *context)',
                  prologue='\tblock_off_t begin;\n\t{ /* per-disk loop body; the region text closes this brace */', epilogue='\treturn 0;')
HOLE_READ = dict(region='hole_read', file='cmdline/state.c', scope="} else if (c == 'h') {", begin='disk = tommy_array_get(&disk_mapping, mapping);', end="} else if (c == 's') {", end_first_after=True, max_lines=95, expect_loops=2,
                 proto='static void region_hole_read(struct snapraid_state *state, struct snapraid_disk *disk, STREAM *f, const char *path, block_off_t blockmax)',
                 prologue='\tuint32_t v_pos;\n\tint ret, c;')


def holeruns_obs():
    return [Ob('state.h_record.holeruns.roundtrip', 'harness/h_holeruns.c', 'h_holeruns', inject=[HOLE_WRITE, HOLE_READ], unwind=6, unwindset=['memcmp.0:18', 'hash_is_zero.0:18', 'hash_is_invalid.0:18'], small_path=True, timeout=1200, mem=8, cost=8,
               kind='bounded', bound='arrays of at most 3 parity positions, hash size 4',
               functions=["state_write_thread: region 'h' record, runs of deleted blocks (cmdline/state.c, extracted mechanically)", "state_read_content: region 'h' record (cmdline/state.c, extracted mechanically)"],
               note='every deleted / not deleted pattern, every hash, clear_past_hash on and off; the disk by a small model behind fs_is_block_deleted / fs_par2block_get / file_alloc / fs_file2block_get / fs_allocate')]


def blockruns_obs():
    return [Ob('state.f_record.blockruns.roundtrip' + sfx, 'harness/h_blockruns.c', 'h_blockruns', inject=[RUNS_WRITE, RUNS_READ], defs={'NBLK': nb, 'HS': hs}, unwind=6, unwindset=['memcmp.0:18', 'hash_is_zero.0:18', 'hash_is_invalid.0:18'], small_path=True, timeout=1200, mem=8, cost=10, kind='bounded',
               bound='files of at most %d block(s), hash size %d' % (nb, hs), replay=False,
               functions=["state_write_content: region 'f' record block runs (cmdline/state.c, extracted mechanically)", "state_read_content: region 'f' record block runs (cmdline/state.c, extracted mechanically)"],
               note='every state (BLK / CHG / REP), hash and parity position per block; load-time options clear_past_hash / --force-nocopy / --force-realloc; sputc / sputb32 / swrite and sgetc / sgetb32 / sread connected through a recorded event stream' + (' (full hash size: the ZERO / INVALID markers are recognisable)' if hs == 16 else ''))
            for sfx, nb, hs in (('', 2, 4), ('.fullhash', 1, 16))]


def c10(tier, seed):
    return stream_obs(['h_rt32', 'h_rt64', 'h_rtle32', 'h_rtbs']) + staterec_obs(tier) + blockruns_obs() + frecord_obs() + header_obs() + maprec_obs() + holeruns_obs() + fsempty_obs() + linkrec_obs() + parityrec_obs() + inforuns_obs()


PROPS = {
    'C17': dict(level='proof', obligations=c17, explanation='', trusted_base=[], assumptions=[], not_covered=[]),
    'C03': dict(level='proof', obligations=c03, explanation='', trusted_base=[], assumptions=[], not_covered=[]),
    'C15': dict(level='other', obligations=c15, explanation='', trusted_base=[], assumptions=[], not_covered=[]),
    'C18': dict(level='other', obligations=c18, explanation='', trusted_base=[], assumptions=[], not_covered=[]),
    'C20': dict(level='other', obligations=c20, explanation='', trusted_base=[], assumptions=[], not_covered=[]),
    'C14': dict(level='other', obligations=c14, explanation='', trusted_base=[], assumptions=[], not_covered=[]),
    'C11': dict(level='other', obligations=c11, explanation='', trusted_base=[], assumptions=[], not_covered=[]),
    'C12': dict(level='other', obligations=c12, explanation='', trusted_base=[], assumptions=[], not_covered=[]),
    'C05': dict(level='other', obligations=c05, explanation='', trusted_base=[], assumptions=[], not_covered=[]),
    'C06': dict(level='other', obligations=c06, explanation='', trusted_base=[], assumptions=[], not_covered=[]),
    'C19': dict(level='other', obligations=c19, explanation='', trusted_base=[], assumptions=[], not_covered=[]),
    'C09': dict(level='other', obligations=c09, explanation='', trusted_base=[], assumptions=[], not_covered=[]),
    'C10': dict(level='other', obligations=c10, explanation='', trusted_base=[], assumptions=[], not_covered=[]),
    'C02': dict(level='proof', obligations=c02,
                explanation='',
                trusted_base=[], assumptions=[], not_covered=[]),
}


# ---------------------------------------------------------------- evidence / manifest texts
SIMD_NOTE = ('the 23 SSE2/SSSE3/AVX2 variants in raid/x86.c and raid/x86z.c are inline assembly, which cbmc does not interpret: '
             'NOT verified (every table they read is)')
CBMC_BUG = ('cbmc 6.11 simplifier defect found while building: a pointer to a ROW of a 2-D array (e.g. table(v) == raid_gfmul[v]) dereferenced with a '
            'symbolic index is translated as an index into row 0 (minimal reproducer in DESIGN.md section 2.3; --no-simplify avoids it but needs >30 GB here). '
            'Code that does this (the T[...][x] loops of raid_rec1/2/X_int8, raid_rec2of2_int8, raid_validate) is therefore NOT under an obligation; '
            'every obligation that is claimed dereferences rows only with concrete indices or uses A[i][j] indexing, which the defect does not touch')

PROPS['C02'].update(
    explanation='Lemmas over the real raid/tables.c tie every lookup table to a table-free GF(2^8)/0x11d specification and to the documented Cauchy / power matrices for ALL indices (symbolic, loop-free). '
                'The bit tricks x2/d2 carry dfcc-enforced contracts for all arguments. Every portable generator (gen1/2/z int32+int64, gen3..6 int8) and the dispatcher raid_gen (+ real raid_init binding) is checked '
                'against sum_d A[j][d]*D_d, frame included (data, pointer vector, guard bytes), with ALL contents symbolic, for the geometries listed in units: nd 1..3 (int8) / 1..4 (int32/64) in quick, up to 5 / 12 in thorough. '
                'Whole-function obligations do not scale to large nd (DESIGN.md section 2.2: the verification condition is a XOR-of-table-lookups miter no installed SAT back end decomposes); for larger nd the claim rests on the table lemmas plus the STEP obligations: the mechanically extracted inner loop body of raid_gen3..6_int8 adds A[j][d]*D to accumulator j for EVERY disk index d in 1..250 (symbolic), every data byte and state - the induction over the loop is argued, not machine checked.',
    trusted_base=['spec/gf_spec.h (40 lines, table-free field arithmetic and the documented matrix)', 'include/noasm/config.h for the dispatcher units (repo config.h with HAVE_ASSEMBLY off)'],
    assumptions=[SIMD_NOTE, 'generator obligations enumerate geometry: nd <= 5 (int8) / nd <= 12 (int32/int64), size = 1 or 2 chunks of the implementation (64 bytes through raid_gen); larger nd and sizes are NOT covered by a whole-function obligation; the step obligations cover the loop BODY for all d, the composition over the loop (d = nd-1 .. 1, then disk 0) is an induction done on paper', CBMC_BUG],
    not_covered=['raid/x86.c, raid/x86z.c: the inline assembly (only the plain-C beginning of the gen3..6 functions of x86.c is under contract)', 'generators at nd > 12 / nd > 5 (int8) as whole functions', 'block sizes beyond two chunks (the outer loop carries no state; argued, not discharged)'])
PROPS['C03'].update(
    explanation='(1) MDS on the real tables: every 1x1 and 2x2 minor of the 6x251 Cauchy and 3x251 power matrices is non-singular for ALL row/column pairs (symbolic indices), every 3x3 minor for ALL column triples of each of the 20 row triples and of the power matrix (thorough tier only: 6-15 min per row triple) - orders 4..6 are NOT discharged (3.8e11 minors; the structural Cauchy argument needs mathematics outside the tool). '
                '(2) raid_rec dispatch: for EVERY nd <= 251, np <= 6 and sorted failure list (all symbolic), the decoder slot, id[], ip[] (first surviving parities) and the regenerated parity range are exactly as specified, decoders replaced by recording stubs. '
                '(3) raid_delta_gen and recovery through parity 0 (raid_rec1_int8 -> raid_rec1of1) restore / compute exactly the specified bytes and leave every other block, unused (aliased) parities, the zero block and the pointer vector untouched, for small concrete geometries with all contents symbolic. '
                '(4) raid_invert for 1x1 matrices only (2x2 with symbolic entries did not finish in 85 minutes and is not claimed). (5) raid_sort / raid_insert: sorted permutation for all inputs, n <= 6; combination_first/next: exactly C(n,r) strictly increasing tuples in lexicographic order for the listed (r, n). '
                'The reconstruction loops that read T[..][x] through row pointers are not under an obligation (cbmc defect, see assumptions).',
    trusted_base=['spec/gf_spec.h', 'include/noasm/config.h (dispatch tables without inline assembly)'],
    assumptions=[SIMD_NOTE, CBMC_BUG, 'MDS orders 4..6 rest on the Cauchy-matrix theorem (Roth 2006) applied to the structure proved by TAB-CAUCHY: mathematics outside the tool, not a discharged obligation',
                 'geometries of the data-path obligations are small and concrete (nd <= 4, size 64); they are complete for those geometries only'],
    not_covered=['T[..][x] reconstruction loops of raid_rec1_int8 (ip != 0), raid_rec2_int8, raid_recX_int8, raid_rec2of2_int8', 'raid_validate / raid_check / raid_scan (same row-pointer reads)', 'SSSE3/AVX2 decoders (inline assembly)', 'raid_invert for n >= 2 (it is exercised, not proved, through the small-geometry obligations)'])
PROPS['C09'].update(
    explanation='Memory safety and exact accept/reject behaviour of the content-file decoding primitives (sgetb32, sgetb64, sgetble32, sgetbs, sread, sgetc, sgetc_uncached, sfill) for EVERY byte string (12 bytes visible, a 64-bit varint has at most 10) under EVERY chunking by read() and stream buffer size 1..4 (STREAM_SIZE is a run-time variable of the real code): cbmc pointer/bounds/overflow/shift obligations on the real cmdline/stream.c plus equality with an arithmetic varint specification. '
                'This found a genuine defect (sgetbs length 0xffffffff, out-of-bounds write), repaired by a fix: commit (known_findings.txt). CRC-32C: tables, linearity lemmas and crc32c_gen* for short lengths. Record level: the Q-record validity/auto-configuration region (found and fixed an out-of-bounds defect). state_write: typestate contract write -> verify (with the checksum computed while writing) -> rename. The other record decoders are not under contract.',
    trusted_base=['read()/write() stubs in harness/h_stream.c (assumed contract of the OS calls)', 'crc32c replaced by its contract "pure, any value" in these units'],
    assumptions=['string obligations use destination buffers of at most 6 bytes (bounded, labelled)', 'forming (not dereferencing) a pointer past the end of the stream buffer (stream.h sptrlookup) is not counted as a violation'],
    not_covered=["state_read_content record decoders other than the 'Q' validity region", 'inside of state_write_content / state_verify_content / state_rename_content (O_EXCL, flush, fsync, re-read)', 'crash points (not a contract-level statement)', 'that a CRC mismatch is always reached before any state is used'])
PROPS['C10'].update(
    explanation='Codec pairs of the content file are exact inverses for ALL values: sgetb32(sputb32(v)) == v for all 2^32 v, sgetb64(sputb64(v)) == v for all 2^64 v, sgetble32/sputble32, sgetbs/sputbs (strings up to 6 arbitrary non-NUL bytes), with the bytes travelling through write() and read() stubs under every chunking and buffer size 1..4; the encoder output is minimal (canonical) and terminated as specified, nothing is left over. '
                'Record level (mechanically extracted encode/decode regions of state.c, integers travelling through a FIFO that stands for sputb32/sgetb32): the nanosecond field of the f record and the per-stripe info word of the i record round-trip for all values (a time in the future is clamped to now - the documented normalisation). The block runs of the f record (writer loop and reader loop connected through a recorded event stream; bounded: 2 blocks, hash size 4, and 1 block with hash size 16), the header of the f record (size, time, inode, path through a TYPED event stream) and the header records of the file (format version choice, block size, stripe count, hash size, hash kind + seed, previous hash kind + seed: writer region and the five reader branches) round-trip for every value. Disk maps: index assignment loop, M writer loop and M reader branch (three extracted regions) - entry k of the rebuilt mapping vector is the disk that was given index k, every field of a map survives (bounded: 3 disks). Hole record: writer and reader loops connected - deleted blocks come back at their positions with hash and state (bounded: 3 positions). Info record: the run-length loops of writer and reader connected - every stripe gets back its own word (bounded: 3 stripes). Link / directory records: name, target and kind of every link, name of every empty directory, in order (bounded: 2 + 2). Parity records (Q, and P for format 2): block counts, uuid and 64-bit size of every split (concrete geometries). fs_is_empty (real): a disk is left out of the file only if it holds nothing.',
    trusted_base=['read()/write() stubs in harness/h_stream.c'],
    assumptions=['sputbs/sgetbs round trip bounded to strings of at most 6 bytes'],
    not_covered=['the record dispatcher of state_read_content (restated in the drivers), the file-level loops around the record bodies', 'tommyds containers, list ordering, byte identity of whole files'])
PROPS['C17'].update(
    explanation='parity_split_find carries a dfcc-enforced contract for every size vector of up to SPLIT_MAX=8 splits and every offset: the result is the unique split k with prefix(k) + offset\' == offset and 0 <= offset\' < size_k, NULL exactly outside the recorded sizes, only *offset assigned. Over two calls: the address map is injective and, with block-aligned split sizes, no stripe straddles two files. '
                'parity_write / parity_read hand exactly (fd of split k, offset\', block_size) to pwrite/pread and maintain valid_size monotonically (block sizes 2^10..2^24, concrete per unit). hbit_u64 is the highest set bit (dfcc, all 2^64 values). parity_handle_fill carries an UNBOUNDED inductive loop contract (invariant + decreases, injected into a scratch copy of parity.c, grow/shrink/hbit replaced by contracts): the file ends block aligned, never above the request, never below its previous aligned size, and exactly at the request when the OS granted every grow.',
    trusted_base=['stubs for pwrite/pread/log_*/bw_limit/advise_* in harness/h_parity.c', 'include/small_path.h (PATH_MAX 64 in the cbmc build)'],
    assumptions=['growth/shrink SEQUENCES (histories) and the byte-identity with a single-file parity are not function-level statements; the latter follows from the address-map contract plus C02 and is argued, not discharged', 'parity_chsize is not yet under contract'],
    not_covered=['parity_chsize / parity_handle_chsize composition', 'parity_open / parity_create', 'state.c persistence of split sizes'])

MANIFEST_TEXT = {
    'C02': dict(level_text='Deductive proof on the real code with CBMC: table lemmas and bit-trick contracts hold for all inputs without any bound; generator contracts are proved for all contents per enumerated geometry (small nd). Proof is the right level for the algebra because the property IS a per-call input/output statement; the part cbmc cannot reach (large nd as whole functions, SIMD assembly) is stated, not claimed.',
                design_ref='DESIGN.md section 4 C02', level_note='spec/gf_spec.h; cbmc+CaDiCaL/kissat; SIMD inline assembly unverified (only the plain-C beginning of the x86 gen3..6 functions); generator geometries nd<=5/12 only', technique='CBMC code contracts (dfcc) + assume/call/assert drivers on real raid/*.c, table-free GF(2^8) spec'),
    'C03': dict(level_text='Deductive proof on the real code: MDS minors up to order 3 for all index tuples, the raid_rec dispatch contract for all nd/np/failure lists, raid_delta_gen / rec1of1 / raid_invert / helpers for all contents per small geometry. The table-driven reconstruction loops are out of reach of the installed cbmc (simplifier defect) and are listed as not covered.',
                design_ref='DESIGN.md section 4 C03', level_note='orders 4..6 of the MDS claim rest on the Cauchy theorem (assumption); reconstruction loops and SIMD not verified', technique='CBMC contracts/drivers on real raid/raid.c, int.c, helper.c, combo.h; symbolic-index minors on tables.c'),
    'C09': dict(level_text='Contract-level proof of the decoding primitives (all byte strings, all chunkings) gives the memory-safety half of the property for the stream layer; record decoders, CRC and replacement order are partially covered - hence level other, with the functions under contract listed.',
                design_ref='DESIGN.md section 4 C09', level_note='OS read/write by stub; strings <= 6 bytes; record-level decoding not covered', technique='CBMC drivers on real cmdline/stream.c with arithmetic varint spec; ASan replay'),
    'C10': dict(level_text='Encode/decode pairs are proved inverse for all values (full 32/64-bit domains); every record kind of the content file (header, disk map, parity, file incl. block runs, link, directory, hole, info) is decided as writer-region / reader-region round trip within small bounds; the file-level loops and the containers are not under contract, hence level other.',
                design_ref='DESIGN.md section 4 C10', level_note='OS read/write by stub; strings <= 6 bytes; record round trips bounded (2-3 elements); dispatcher restated in the drivers', technique='CBMC drivers on real cmdline/stream.c, round trip through ghost file; mechanically extracted writer / reader regions of real cmdline/state.c connected through a typed event stream'),
    'C17': dict(level_text='The address map of split parity is a per-call statement and is proved for all inputs (dfcc contract, SPLIT_MAX bound complete); the resize loop carries an unbounded loop contract. Resize sequences are histories and are not claimed.',
                design_ref='DESIGN.md section 4 C17', level_note='OS calls by stub; PATH_MAX shim; parity_chsize not yet under contract', technique='CBMC code contracts (dfcc enforce/replace, loop contract) on real cmdline/parity.c'),
}

NOT_YET = {
    'C01': 'not built yet in this session (planned: repair / blockcmp / file_block_size contracts)',
    'C04': 'not built yet in this session',
    'C05': 'not built yet in this session',
    'C06': 'not built yet in this session',
    'C15': 'not built yet in this session',
    'C16': 'not built yet in this session',
    'C18': 'not built yet in this session',
    'C19': 'not built yet in this session',
    'C20': 'not built yet in this session',
}

PROPS['C15'].update(
    explanation='block_is_enabled (scrub.c) follows the documented decision table for EVERY plan / info word / position / time limit / tie counter (info_get replaced by its contract with goto-instrument --dfcc): unused stripes never, bad stripes always, full = all used, new = just-synced only, bad = only bad, auto = time < limit always, == limit for the first lastlimit stripes (the counter is incremented exactly then), > limit never. '
                'The limit computation of state_scrub (mechanically extracted region) over a sorted time map: never more than the requested share nor the array, nothing younger than the age limit, cut short only by the age limit, timelimit/lastlimit consistent so that exactly countlimit stripes are selected, oldest first. md() == ceil(a*b/c) at both call sites. info word helpers are bit exact (refresh keeps the time at 8 s granularity and clears all marks; set_bad touches only the bad bit). Also scrub_data_reader (a file changed since the last sync - size, seconds or nanoseconds - is not judged as synced data) and the run-length loops of the info record (every stripe gets back its own book-keeping word).',
    trusted_base=['region extraction (tools/inject.py extract_region): anchors "/* no more than the full count */" .. "count_limit" in cmdline/scrub.c', 'qsort (libc) assumed to sort: the region is driven with an arbitrary SORTED map'],
    assumptions=['time map bounded to 8 entries in the region obligation (labelled bounded)', 'the mark-update chain of state_scrub_process (bad iff silent or I/O error; refresh iff no error at all) is NOT yet under an obligation', 'eventual coverage over repeated runs is a liveness statement: not addressed'],
    not_covered=['state_scrub_process loop body (reader threads, error classification)', 'data/parity untouched by scrub (process-level frame)', 'liveness of repeated scrubs'])
PROPS['C18'].update(
    explanation='filter_alloc_file accepts exactly the documented pattern forms (FILE, DIR/, /PATH/FILE, /PATH/DIR/; no ".", ".." or empty components; rooted only with a leading slash), classifies them and strips exactly the trailing slash, for every pattern string of at most 5 bytes. '
                'filter_path / filter_subdir / filter_emptydir evaluate a rule list as documented - rules in order, first match decides, without a match the opposite of the last rule, directories kept for traversal, name patterns offered every path component of the right kind, rooted patterns the path from the disk root with FNM_PATHNAME - for every list of 0..2 (thorough: 3) rules of any kind and EVERY behaviour of the glob matcher (fnmatch replaced by an arbitrary deterministic truth table).',
    trusted_base=['libc fnmatch (HAVE_FNMATCH=1; cmdline/fnmatch.c is not the code that runs) - only its determinism is assumed', 'malloc_nofail stub'],
    assumptions=['bounded: patterns <= 5 bytes, lists <= 3 rules, probe path a/b/c', 'filter_content (printf based), hidden-file rule, -f/-d/-m/-e selection in state_filter and "nothing outside the selection is written" are NOT yet under an obligation'],
    not_covered=['filter_content', 'filter_hidden', 'state_filter', 'scan.c call sites'])
PROPS['C20'].update(
    explanation='The escaping layer of the reports and the bad / unsynced summary of status (state_status per-stripe loop: exact count, first and last position of bad stripes, exact unsynced / rehash / unscrubbed counts): esc_tag is reversible for every string (<= 5 bytes, all byte values), never emits a raw newline / carriage return / colon and only the escapes \\n \\r \\d \\\; esc_shell output read back under POSIX shell quoting rules is the original single word, no blank or metacharacter is left unquoted - EXCEPT tab and newline, which it leaves raw (KNOWN-FINDING, shown with the real binary: `snapraid list` prints a file named a<LF>b on two lines). pool: the real clean_dir (extracted whole) over a symbolic pool tree removes exactly the directories left empty, each once, bottom-up, wherever they sit among links and foreign files (bounded tree); the real make_link keeps an existing link only with the recorded time-stamp AND target, otherwise removes it and creates a link to the recorded location with the time-stamp of the file.',
    trusted_base=['POSIX shell quoting rules as transcribed in harness/h_esc.c', 'opendir / readdir / lstat / rmdir / closedir, pathprint / pathslash by stub in pool.clean_dir (paths abstracted to the node they name)'],
    assumptions=['strings bounded to 5 bytes (every escape is per character, independent of position)', 'list / diff bodies and the link creation of pool (printf + file system over tommy lists) are NOT under an obligation; of status only the per-stripe summary loop is (bounded: 4 stripes, 2 disks); of dup the digest construction, the comparison and the per-file loop body are (bounded)'],
    not_covered=['list.c, pool.c other than clean_dir and make_link (read_dir, the walk of state_pool), the rest of status.c (file statistics, scrub age histogram)'])
MANIFEST_TEXT.update({
    'C15': dict(level_text='The selection rule of every plan and the limit arithmetic are per-call statements and are decided for all inputs (decision table) / all sorted maps up to 8 entries (limits). The per-stripe mark update inside the 700-line scrub loop and liveness are not claimed - hence level other with the exact functions listed.',
                design_ref='DESIGN.md section 4 C15', level_note='region extraction for the limit computation; qsort assumed; mark-update chain and liveness not covered', technique='CBMC contracts (dfcc replace) + driver on real cmdline/scrub.c, mechanically extracted region'),
    'C18': dict(level_text='The rule-evaluation order and the pattern classification are decided on the real elem.c for every bounded rule list against an arbitrary glob matcher; selection options and the write frame are not claimed - level other.',
                design_ref='DESIGN.md section 4 C18', level_note='libc fnmatch assumed deterministic; bounded lists/patterns; state_filter not covered', technique='CBMC drivers on real cmdline/elem.c with fnmatch as uninterpreted truth table'),
    'C20': dict(level_text='Narrow: reversibility of the two escaping functions every report goes through (one genuine finding recorded: tab/newline unquoted) and the bad / unsynced summary loop of status, the digest / per-file body of dup, and the two steps of pool that decide which links and directories exist (make_link, clean_dir). The other report bodies are printf loops over containers and are not claimed.',
                design_ref='DESIGN.md section 4 C20', level_note='strings <= 5 bytes; POSIX quoting rules transcribed by hand; report bodies not covered', technique='CBMC drivers on real cmdline/support.c esc_tag / esc_shell_multi with spec decoders; extracted regions of cmdline/status.c and dup.c; clean_dir and make_link of cmdline/pool.c extracted verbatim over stubbed file system'),
})
for k in ('C15', 'C18', 'C20'):
    NOT_YET.pop(k, None)


def hash_obs(tier):
    # 16, 17, 31, 33 (and 4, 8, 13) were dropped after a thorough run on a loaded machine: 16 did not finish in 2 hours, the others took 25-65 minutes each
    lens = (0, 1, 3, 5, 12, 15, 20, 32)
    return [Ob('hash.murmur3.len%d' % n, 'harness/h_hash.c', 'h_murmur3', ['cmdline/util.c'], defs={'HASH_LEN': n}, unwind=40, solver=KISSAT, timeout=10800, mem=6, cost=100, tier='thorough',
               kind='bounded', bound='length %d bytes, every content and every 16-byte seed' % n, native_libs=[],
               functions=['MurmurHash3_x86_128 (cmdline/murmur3.c)', 'memhash (cmdline/util.c)'])
            for n in lens]


SYNC_DATA_READER = dict(region='sync_data_reader', file='cmdline/sync.c', begin='static void sync_data_reader(struct snapraid_worker* worker, struct snapraid_task* task)',
                        end='static void sync_parity_writer(struct snapraid_worker* worker, struct snapraid_task* task)', max_lines=170, expect_loops=0,
                        proto='static void region_sync_data_reader(struct snapraid_worker *worker, struct snapraid_task *task)',
                        prologue='\t/* the region text is the whole body block of sync_data_reader() */')
SYNC_TASK_STATE = dict(region='sync_task_state', file='cmdline/sync.c', scope='static int state_sync_process(struct snapraid_state* state, struct snapraid_parity_handle* parity_handle, block_off_t blockstart, block_off_t blockmax)',
                       begin='/* handle error conditions */', end='countsize += read_size;', end_first_after=True, max_lines=50, expect_loops=0,
                       proto='static void region_sync_task_state(struct snapraid_state *state, struct snapraid_task *task, struct snapraid_disk *disk, block_off_t blockcur, unsigned *io_error_p, unsigned *error_p, int *error_on_p, int *io_on_p, int *bailed, int *fell_through)',
                       prologue='\tunsigned io_error = *io_error_p, error = *error_p;\n\tint error_on_this_block = *error_on_p, io_error_on_this_block = *io_on_p;\n\tint once;\n\tfor (once = 0; once < 1; ++once) { /* per-disk loop body: `continue` leaves it */',
                       epilogue='\t*fell_through = 1;\n\t}\n\tgoto out;\nbail:\n\t*bailed = 1;\nout:\n\t*io_error_p = io_error; *error_p = error; *error_on_p = error_on_this_block; *io_on_p = io_error_on_this_block;')


SCRUB_DATA_READER = dict(region='scrub_data_reader', file='cmdline/scrub.c', begin='static void scrub_data_reader(struct snapraid_worker* worker, struct snapraid_task* task)',
                         end='static void scrub_parity_reader(struct snapraid_worker* worker, struct snapraid_task* task)', max_lines=130, expect_loops=0,
                         proto='static void region_scrub_data_reader(struct snapraid_worker *worker, struct snapraid_task *task)',
                         prologue='\t/* the region text is the whole body block of scrub_data_reader() */')


SCRUB_PARITY_READER = dict(region='scrub_parity_reader', file='cmdline/scrub.c', begin='static void scrub_parity_reader(struct snapraid_worker* worker, struct snapraid_task* task)',
                           end='static int state_scrub_process(struct snapraid_state* state, struct snapraid_parity_handle* parity_handle, block_off_t blockstart, block_off_t blockmax, struct snapraid_plan* plan, time_t now)',
                           max_lines=40, expect_loops=0, proto='static void region_scrub_parity_reader(struct snapraid_worker *worker, struct snapraid_task *task)')
SYNC_PARITY_WRITER = dict(region='sync_parity_writer', file='cmdline/sync.c', begin='static void sync_parity_writer(struct snapraid_worker* worker, struct snapraid_task* task)',
                          end='static int state_sync_process(struct snapraid_state* state, struct snapraid_parity_handle* parity_handle, block_off_t blockstart, block_off_t blockmax)',
                          max_lines=45, expect_loops=0, proto='static void region_sync_parity_writer(struct snapraid_worker *worker, struct snapraid_task *task)')


SCRUB_PARITY_READ = dict(region='scrub_parity_read', file='cmdline/scrub.c', scope='static int state_scrub_process(struct snapraid_state* state, struct snapraid_parity_handle* parity_handle, block_off_t blockstart, block_off_t blockmax, struct snapraid_plan* plan, time_t now)', begin='/* read the parity */', end="/* if we have read all the data required and it's correct, proceed with the parity check */", max_lines=70, expect_loops=1,
                         proto='static void region_scrub_parity_read(struct snapraid_state *state, struct snapraid_io *iop, block_off_t blockcur, void **buffer_recov, unsigned *io_error_p, unsigned *error_p, int *error_on_p, int *io_on_p, int *bailed)',
                         prologue='\tstruct snapraid_io io;\n\tunsigned l, waiting_map[LEV_MAX], waiting_mac = 0;\n\tunsigned io_error = *io_error_p, error = *error_p;\n\tint error_on_this_block = *error_on_p, io_error_on_this_block = *io_on_p;\n\t(void)iop;',
                         epilogue='\tgoto out;\nbail:\n\t*bailed = 1;\nout:\n\t*io_error_p = io_error; *error_p = error; *error_on_p = error_on_this_block; *io_on_p = io_error_on_this_block;')
SCRUB_PARITY_COMPARE = dict(region='scrub_parity_compare', file='cmdline/scrub.c', begin="/* if we have read all the data required and it's correct, proceed with the parity check */", end='/* until now is raid */',
                            max_lines=40, expect_loops=1, brace_balance=1,
                            proto='static void region_scrub_parity_compare(struct snapraid_state *state, unsigned diskmax, block_off_t blockcur, void **buffer, void **buffer_recov, int block_is_unsynced, int error_on_this_block, int silent_error_on_this_block, int io_error_on_this_block, unsigned *error_p, unsigned *silent_p, int *error_on_p, int *silent_on_p)',
                            prologue='\tunsigned l;\n\tunsigned error = *error_p, silent_error = *silent_p;',
                            epilogue='\t} /* closes the block the region text opened */\n\t*error_p = error; *silent_p = silent_error; *error_on_p = error_on_this_block; *silent_on_p = silent_error_on_this_block;')


SCRUB_PLAN_STRUCT = dict(region='scrub_plan_struct', file='cmdline/scrub.c', begin='struct snapraid_plan {', include_begin=True, end='};', end_first_after=True, include_end=True, max_lines=40, expect_loops=0,
                         proto='/* the type the regions of state_scrub work on */', raw=True)
SCRUB_PLAN = dict(region='scrub_plan', file='cmdline/scrub.c', scope='int state_scrub(struct snapraid_state* state, int plan, int olderthan)', begin='blockmax = parity_allocated_size(state);', include_begin=True,
                  end='/* identify the time limit */', end_first_after=True, max_lines=50, expect_loops=0,
                  proto='static void region_scrub_plan(struct snapraid_state *state, int plan, int olderthan, time_t now, struct snapraid_plan *ps_p, block_off_t *countlimit_p, time_t *recentlimit_p, block_off_t *blockmax_p)',
                  prologue='\tstruct snapraid_plan ps = *ps_p;\n\tblock_off_t blockmax, countlimit;\n\ttime_t recentlimit;', epilogue='\t*ps_p = ps; *countlimit_p = countlimit; *recentlimit_p = recentlimit; *blockmax_p = blockmax;')
SCRUB_TIMEMAP = dict(region='scrub_timemap', file='cmdline/scrub.c', scope='int state_scrub(struct snapraid_state* state, int plan, int olderthan)', begin='/* copy the info in the temp vector */',
                     end='if (!count) {', end_first_after=True, max_lines=20, expect_loops=1,
                     proto='static void region_scrub_timemap(struct snapraid_state *state, block_off_t blockmax, time_t *timemap, block_off_t *count_p)',
                     prologue='\tblock_off_t i, count;', epilogue='\t*count_p = count;')


def scrubplan_obs():
    H = 'harness/h_scrubplan.c'
    inj = [SCRUB_PLAN_STRUCT, SCRUB_PLAN, SCRUB_TIMEMAP]
    return [Ob('scrub.plan.region', H, 'h_scrub_plan', inject=inj, unwind=4, small_path=True, timeout=600, mem=6, cost=3, replay=False,
               functions=['state_scrub: region "blockmax = parity_allocated_size" .. "identify the time limit" (cmdline/scrub.c, extracted mechanically)'],
               note='every plan / percentage 0..100 / -o value / test option / time; md and parity_allocated_size by stub (md has its own units)'),
            Ob('scrub.timemap.region', H, 'h_scrub_timemap', inject=inj, unwind=6, small_path=True, timeout=600, mem=6, cost=3, replay=False, kind='bounded', bound='at most 4 stripes',
               functions=['state_scrub: region "copy the info in the temp vector" (cmdline/scrub.c, extracted mechanically)'], note='every info word per stripe')]


def scrubpar_obs():
    H = 'harness/h_scrubpar.c'
    return [Ob('scrub.parity_read.region', H, 'h_scrub_parity_read', inject=[SCRUB_PARITY_READ, SCRUB_PARITY_COMPARE], unwind=8, small_path=True, timeout=900, mem=6, cost=6, replay=False,
               functions=['state_scrub_process: region "read the parity" (cmdline/scrub.c, extracted mechanically)'],
               note='1..6 levels completing in any order, every outcome per level, counters and I/O error limit; io_parity_read by stub'),
            Ob('scrub.parity_compare.region', H, 'h_scrub_parity_compare', inject=[SCRUB_PARITY_READ, SCRUB_PARITY_COMPARE], unwind=8, small_path=True, timeout=900, mem=6, cost=6, replay=False, kind='bounded', bound='block size 4, 2 data disks',
               functions=['state_scrub_process: region "proceed with the parity check" (cmdline/scrub.c, extracted mechanically)'],
               note='1..6 levels, every recomputed and on-disk parity content, readable / unreadable levels, synced / unsynced stripe, every combination of earlier error flags; raid_gen by stub (its own units: C02)')]


def syncrd_obs():
    R = 'harness/h_syncrd.c'
    return [Ob('io.parity_reader_writer', R, 'h_parity_rw', inject=[SYNC_DATA_READER, SYNC_TASK_STATE, SCRUB_PARITY_READER, SYNC_PARITY_WRITER], defs={'VERIF_PARITY_RW': None}, unwind=4, small_path=True, timeout=600, mem=6, cost=3, replay=False,
               functions=['scrub_parity_reader (cmdline/scrub.c; whole body extracted)', 'sync_parity_writer (cmdline/sync.c; whole body extracted)'],
               note='every outcome / errno of parity_read and parity_write, every parity level'),
            Ob('scrub.data_reader', R, 'h_scrub_data_reader', inject=[SYNC_DATA_READER, SYNC_TASK_STATE, SCRUB_DATA_READER], defs={'VERIF_SCRUB_READER': None}, unwind=10, small_path=True, timeout=900, mem=8, cost=6, replay=False,
               functions=['scrub_data_reader (cmdline/scrub.c; whole body extracted mechanically, callees routed to stubs)'],
               note='every block state, what the handle holds, every outcome / errno of close, open and read, every recorded vs actual size / seconds / nanoseconds'),
            Ob('sync.data_reader', R, 'h_sync_data_reader', inject=[SYNC_DATA_READER, SYNC_TASK_STATE], unwind=10, small_path=True, timeout=900, mem=8, cost=6, replay=False,
               functions=['sync_data_reader (cmdline/sync.c; whole body extracted mechanically, callees routed to stubs)'],
               note='every block state, what the handle holds, every outcome / errno of close, open and read, every recorded vs actual size / seconds / nanoseconds / inode'),
            Ob('sync.task_state.region', R, 'h_sync_task_state', inject=[SYNC_DATA_READER, SYNC_TASK_STATE], unwind=4, small_path=True, timeout=600, mem=6, cost=3, replay=False,
               functions=['state_sync_process: region "handle error conditions" (cmdline/sync.c, extracted mechanically)'],
               note='every task state, error counters and I/O error limit')]


def c08(tier, seed):
    c06u = [o for o in PROPS['C06']['obligations'](tier, seed) if o.name == 'sync.complete.region']
    c15u = [o for o in PROPS['C15']['obligations'](tier, seed) if o.name in ('scrub.mark.region', 'scrub.classify.region')]
    return [Ob('io.mono.writer_errors', 'harness/h_io.c', 'h_io_mono_writer', unwind=6, small_path=True, timeout=900, mem=8, cost=5, object_bits=12,
               functions=['io_parity_write_mono (cmdline/io.c)', 'io_write_next_mono (cmdline/io.c)'],
               note='two parity levels, every outcome of each writer function; the writer function is a stub that sets the task state'),
            Ob('io.writer_step.error_count', 'harness/h_io.c', 'h_io_writer_step', unwind=6, small_path=True, timeout=900, mem=8, cost=3, object_bits=12, replay=False,
               functions=['io_writer_step (cmdline/io.c)'],
               note='every task state, queue position, done flag and previous counter values; SEQUENTIAL semantics of one call (mutex / condition functions by stub) - thread interleavings are not covered'),
            Ob('sync.writer_errors.region', 'harness/h_sync.c', 'h_sync_werr', route='dfcc', replace=['info_set'], inject=[SYNC_COMPLETE, SYNC_WERR], defs={'VERIF_WERR_REGION': None}, unwind=8, small_path=True,
               timeout=900, mem=8, cost=5, replay=False,
               functions=['state_sync_process: region "handle errors reported" .. "mark the state as needing write" (cmdline/sync.c, extracted mechanically)'],
               note='every vector of writer error counts and every error limit; info_set replaced by a recording contract (dfcc)',
               expect_fail=['a parity write I/O error leaves some stripe marked bad'])] + c06u + c15u + syncrd_obs() + scrubpar_obs()


# ---------------------------------------------------------------- composed properties
def c16(tier, seed):
    """format stability = every constant / encoding is pinned to a definition that is not in the repo"""
    c17 = [o for o in PROPS['C17']['obligations'](tier, seed) if o.name in ('parity.split_find.contract', 'parity.split_find.lemma')]
    return table_obs(tier) + crc_obs(tier) + stream_obs(['h_sgetb32', 'h_sgetb64', 'h_sgetble32', 'h_sgetbs', 'h_rt32', 'h_rt64', 'h_rtle32', 'h_rtbs']) + staterec_obs(tier) + elem_obs(tier) + c17 + hash_obs(tier) + main_obs()[:1] + frecord_obs() + blockruns_obs() + header_obs(pin=True) + maprec_obs() + holeruns_obs() + linkrec_obs() + parityrec_obs() + [o for o in check_obs(tier) if o.name == 'check.blockcmp']


def c04(tier, seed):
    c15 = [o for o in PROPS['C15']['obligations'](tier, seed) if o.name in ('scrub.mark.region', 'scrub.classify.region', 'scrub.block_is_enabled', 'scrub.info_word', 'scrub.limits.region')]
    return [o for o in check_obs(tier) if o.name == 'check.blockcmp'] + sync_hash_obs() + c15 + [o for o in syncrd_obs() if o.name == 'scrub.data_reader'] + status_obs() + [o for o in openmode_obs() if o.name == 'handle.read'] + scrubpar_obs() + [o for o in writeback_obs() if o.name in ('check.repair_outcome.region', 'check.data_verify.region', 'check.block_is_enabled')]


def c01(tier, seed):
    c03 = [o for o in PROPS['C03']['obligations'](tier, seed) if o.name.startswith(('rec.', 'mds.'))]
    # check.repair_step takes ~10 minutes: in the quick tier it runs under C05 only
    fixside = checkgate_obs() + scanalloc_obs() + import_obs() + search_obs() + writeback_obs() + filepost_obs() + links_obs() + [o for o in openmode_obs() if o.name in ('handle.read', 'handle.write', 'handle.utime', 'handle.create')]
    return c03 + [o for o in check_obs(tier) if tier == 'thorough' or o.name != 'check.repair_step'] + elem_obs(tier) + fixside


PROPS['C16'] = dict(level='other', obligations=c16)
PROPS['C08'] = dict(level='other', obligations=c08)
PROPS['C04'] = dict(level='other', obligations=c04)
PROPS['C01'] = dict(level='other', obligations=c01)

PROPS['C05'].update(
    explanation='Decisions of fix that protect against writing wrong data, each on the real cmdline/check.c: blockcmp accepts a block iff the digest of its valid part equals the recorded hash over BLOCK_HASH_SIZE bytes and the padding is zero, with the previous hash kind exactly during a migration; is_hash_matching accepts iff at least one failed block is checkable and none mismatches; repair_step returns success ONLY after a reconstruction validated by hash (when a failed block has an up-to-date hash) or by a spare parity, tries every combination of readable parities exactly once, and returns -1 iff no attempt is possible; the region of repair() that classifies rebuilt pending (CHG) blocks marks them out-of-date (-> .unrecoverable, never "recovered") unless the rebuilt block OF THAT ENTRY provably is the new version (unknown past hash / zero past hash and all-zero block / past hash equal to the rebuilt block).',
    trusted_base=['memhash by contract (arbitrary digest)', 'raid_data / raid_gen / file_block_size by recording contracts (dfcc replace)', 'region extraction of repair()'],
    assumptions=['bounded: <= 3 failed blocks per stripe (repair_step quick: 1 failed block, levels <= 2), block size 8 in the drivers', 'the two candidate findings of the design (check.c:439-452 old length vs new length; sync.c:1015 CHG hash overwritten early) were NOT replayed in this session and are neither claimed fixed nor listed as findings',
                 'of state_check_process the per-disk data verification (failed-set construction), the outcome of repair(), the write-back step, the per-link loop and file_post ARE under obligation as extracted regions (bounded: <= 3 failed entries, one disk slot, 2 links); the opening / creating / truncating of files in fix mode (check.open.region), the re-creation of empty files, directories and links are under obligation too; what connects the regions (loop structure, filter evaluation, progress / autosave) is NOT'],
    not_covered=['state_check_process: what connects the extracted regions (loop structure, block_is_enabled filter, progress)', 'second strategy of repair() (parity not updated)', 'histories of syncs'])
PROPS['C06'].update(
    explanation='The decisions that make "recorded as synced" imply "parity valid", each on the real cmdline/sync.c: block_is_enabled processes a stripe iff it holds a file block and (a block with invalid parity or a forced full rebuild); the completion region marks blocks BLK and releases deleted blocks ONLY when the stripe had no error, no I/O error and any silent error was fixed; exactly then, if some block had invalid parity, raid_gen recomputes parity from the buffers and the write is scheduled; a silent or I/O error always leaves the stripe marked bad; the time is refreshed only when parity was really updated and no silent error occurred. After an in-memory repair every non-BLK failed block gets back exactly the bytes read (so the new parity is the parity of what is recorded) and the stripe counts as fixed iff every repaired block hashes to its record. Block map: fs_deallocate replaces the extent containing the released position by extents that map exactly the other positions of the old one, each to the same file block (removed / shrunk at either end / split in two, never empty); fs_allocate extends an extent only when the new block is contiguous in parity AND in the file, else adds one one-block extent and never alters an existing mapping. Also the hole record of the content file: the hashes of deleted blocks are turned into the INVALID marker when sync loads the state, so that a block re-added at that position can never be taken as already in the parity.',
    trusted_base=['fs_par2block_find / fs_deallocate / raid_gen / info_set by recording contracts (dfcc replace)', 'memhash by contract', 'region extraction of state_sync_process (3 regions)'],
    assumptions=['bounded: 2 disk slots in quick (3 thorough), block size 8', 'that the bytes hashed are the bytes on disk, the writer threads, parity_write I/O, autosave ordering and histories are not addressed', 'the extent operations are checked against the extent the finder returns (tree lookups, inserts and removals by recording contracts); the global invariants of the two trees (no overlap, every block mapped, monotone positions) are ASSUMED by the search units (they are what fs_check verifies at run time) and fs_check itself is NOT under an obligation', 'search side: the four comparators for all extents / arguments (proof); fs_is_empty, fs_par2extent_get_unlock / fs_par2file_find / fs_par2block_find and fs_size through the REAL tommy_tree_search_compare on search trees of at most 7 extents (bounded)'],
    not_covered=['fs_check, the AVL insert / remove / rebalance of tommy_tree, fs_file2par_find', 'parity_allocated_size / parity_used_size', 'io.c worker threads', 'state_write ordering vs parity_sync'])
PROPS['C14'].update(
    explanation='Only the DECISION of the seven interlocks (the lock: main() stops with a failing status when a configured, not skipped lock cannot be taken, before anything is read; the sync branch of main reads the content, scans - where the scan interlocks stop it - and only then calls state_sync and state_write), each on the real code (mechanically extracted regions; exit() routed to a checking stub): (1) end of the scan: sync stops with a failing status iff on some disk every previously known file is now missing or rewritten (no unchanged, moved or restored file, and at least one removed or changed) and --force-empty was not given; diff only reports; (2) head of state_sync: sync stops iff the start position is beyond the array, a parity file cannot be opened, or some parity file of ANY level holds fewer whole blocks than parity_used_size() and neither --force-full nor --force-realloc was given - this region ends before the first parity_chsize / state_write / parity write of state_sync; parity_used_size is one past the last synced (BLK) block over all disks, parity_allocated_size one past the last file block; (3) content file records: a block size or hash size different from the configuration (or invalid) is refused, without configuration it is adopted; a recorded disk not found by name nor by UUID is refused, found by UUID is a rename that is saved.',
    trusted_base=['region extraction of state_diffscan / state_sync / state_read_content (5 regions)', 'parity_create / parity_size / parity_used_size / lev_name / sgetb32 / find_disk_by_name / find_disk_by_uuid by stub', 'the meaning of the scan counters (count_equal, count_move, count_restore, count_change, count_remove) as documented in struct snapraid_scan'],
    assumptions=['"without altering any content or parity file" is a whole-program ordering / frame statement over the file system and is NOT decided (only: the parity-size region precedes every resize / write inside state_sync; parity_create may still create a missing, empty parity file)', 'zero-size interlock: decided on the whole body of scan_file (unit scan.scan_file: a recorded non-empty file found by path that is now empty stops sync unless --force-zero; diff only reports); of the lock only the decision in main() is (a lock that cannot be taken stops the command before any state is read; lock_lock itself - open + flock - is the OS)', 'the counters: scan_file increments exactly one of equal / move / restore / change / insert / copy per entry (unit scan.scan_file); count_remove = recorded files and links not met by the walk (unit scan.removed.region, bounded)', 'bounded: 1..3 disks; block size 256 in the parity-size region; parity files below 2^32 blocks; -B start + count below 2^32'],
    not_covered=['scan_dir / scan_disk', 'that a refusal leaves every file byte-identical', 'the lock for every pair of commands and start offset (only lock_lock itself and the refusal in main are under contract)'])
MANIFEST_TEXT['C14'] = dict(level_text='Narrow: the refuse / proceed decision of each interlock (empty disk, zero size, short parity, block size, hash size, missing disk, lock taken in main) is decided for all inputs on extracted regions / the extracted body of scan_file, plus the call order of the sync branch of main; that every file is byte-identical after a refusal is a file-system frame and is not decided - level other.',
                            design_ref='DESIGN.md section 4', level_note='regions by mechanical extraction; callees by stub; frame over the file system not decided', technique='CBMC drivers on mechanically extracted regions of real cmdline/scan.c, sync.c, state.c; bounded unit on real cmdline/parity.c')
PROPS['C11'].update(
    explanation='Only the per-entry and per-command DECISIONS of the statement, each on the real code: (1) scan_file (whole body extracted, callees by recording stub) classifies one directory entry against the recorded state: kept (same inode or path AND same size and time-stamp: equal / moved / restored) or a NEW file object - so every file whose size or time-stamp changed loses its block states and hashes and is read again by sync (file_copy makes inherited hashes provisional REP, also read again); exactly one change counter per entry; (2) the verdict of diff: a difference is reported iff some disk has an added / removed / updated / moved / copied / restored entry or parity_is_invalid (real: some stripe holds a file block and a block without valid parity, i.e. a previous sync was incomplete); main() turns it into exit status 2 and neither syncs nor writes; (3) the sync branch of main reads, scans, syncs and writes the content file iff something changed. Also: inserting / removing a link or an empty directory (real scan.c) marks the state for saving and updates both containers of the disk - otherwise a sync with nothing else to do would leave the content file stale.',
    trusted_base=['region extraction of state_diffscan, main and of the body of scan_file', 'the index structures and every callee of scan_file by stub'],
    assumptions=['the directory walk (scan_dir: lstat / readdir / filters, which entry reaches scan_file / scan_link / scan_emptydir) is NOT under an obligation; scan_link, scan_emptydir and the removal detection (entries not marked present are removed and counted; bounded 3 per kind) are', 'that list / check agree with the real tree afterwards is a whole-command statement over the file system and is not decided', 'scan orders and parallel scanning are not addressed (threads)'],
    not_covered=['scan_dir, scan_disk', 'state_diffscan insertion order / delayed allocation', 'list.c', 'histories of operations'])
MANIFEST_TEXT['C11'] = dict(level_text='Narrow: how one directory entry is classified against the recorded state (and therefore re-read or trusted) and when diff reports a difference are per-call statements and are decided for all inputs; the directory walk, removal detection, links and the agreement of list / check with the real tree are not - level other.',
                            design_ref='DESIGN.md section 4', level_note='callees and index structures by stub; scan_dir / scan_disk not covered', technique='CBMC drivers on the mechanically extracted body of scan_file and regions of state_diffscan / main; bounded unit on real cmdline/parity.c')
PROPS['C12'].update(
    explanation='Only the per-call parts of the statement, each on the real code: (1) the command dispatch of main() (extracted with its OPERATION_* definitions, every state_* callee a recording stub that may leave the state marked as changed): status, diff, list, dup, check, dry and the device commands start nothing that writes data, parity or content (no state_sync / state_scrub / state_touch / state_rehash / state_pool / state_write, and state_check only with fix = 0); scrub may only scrub and save the content file; sync only sync and save; fix runs state_check with fix = 1 and never saves the content file; pool only state_pool; touch only state_touch and save; an audit-only check starts no import / search. (2) state_check: without the fix flag the parity is only ever opened with parity_open - never created, resized or truncated - and not at all with -a; the fix flag reaches state_check_process unchanged. (3) the write-back region of state_check_process and file_post: without the fix flag no data block, parity block, rename or time-stamp is issued; with it only for bad blocks of selected files (see C05). (4) handle_open (how sync, scrub, check and dry open DATA files) and parity_open (how check, scrub and dry open PARITY): every open() issued has access mode O_RDONLY and neither O_CREAT, O_TRUNC nor O_APPEND, through the real open_noatime and advise_flags.',
    trusted_base=['region extraction of main() and state_check; open_noatime (unix.c) and advise_flags (support.c) extracted', 'open / fstat / close / advise_open and every state_* callee by stub'],
    assumptions=['that the processing loops (state_sync_process, state_scrub_process, state_check_process without fix, state_status, state_list, state_dup, state_diffscan) issue no other mutating system call than through the functions above is NOT under an obligation - it is a statement over every call site of those loops (a syntactic fact: scrub.c, sync.c, dry.c reference no handle_create / handle_write / handle_truncate / unlink / rename; check.c only under `if (fix)`), not a contract', 'what fix writes is decided on the extracted regions of state_check_process (data verification, write-back, links, file_post) within small bounds; touch is decided on the whole of touch.c (one file); pool, the log and lock files are NOT under an obligation'],
    not_covered=['state_check_process glue between the extracted regions', 'state_pool', 'log / lock file creation', 'the frame "nothing else changed" over the file system'])
MANIFEST_TEXT['C12'] = dict(level_text='Narrow: which top-level operations each command may start, how check / fix choose between read-only and writable parity, and the open flags of the read-only open functions are per-call statements and are decided for all inputs; that the processing loops touch the file system only through those functions, and the whole-process frame, are not - level other.',
                            design_ref='DESIGN.md section 4', level_note='callees by stub; the frame over the file system and the call sites inside the processing loops are not decided', technique='CBMC drivers on mechanically extracted regions of real cmdline/snapraid.c and check.c and on real handle.c / parity.c open functions')
PROPS['C19'] = dict(level='other', obligations=c19)
PROPS['C19'].update(
    explanation='Every place where data or a hash is taken over without having been computed from the file at hand, each on the real code. (1) scan_file (whole body, callees by recording stub): a file keeps its object - blocks, hashes, parity positions - only when found by inode or by path with the same size and time-stamp; anything else becomes a NEW file object; hashes are inherited (file_copy) only with copy detection on, only from a file the stamp index returned for name (with a usable sub-second stamp) or path + size + time-stamp, and only if file_is_full_hashed_and_stable says so (real: blocks exist, all BLK/REP, none awaiting rehash). (2) file_copy (real): every inherited block becomes REP - provisional, parity not valid - never BLK. (3) sync hash region: a REP block whose data does not match stops the stripe with an error, is neither recorded nor repaired; BLK mismatch is a silent error; together with the completion region of C06 the data is hashed before the stripe is recorded. (4) pre-hash region (sync -h): any mismatch of a provisional hash sets skip_sync before parity is touched. (5) check / fix: state_import_fetch and search_file_compare / state_search_fetch (real) return data only after reading and hashing it in that call and comparing with the recorded hash of the block being replaced, whatever its state. Also the shortcut of repair(): data is fetched from the import / search indexes only for bad BLK / REP blocks (hash of the current content), never by the past hash of a pending CHG block.',
    trusted_base=['memhash by contract (arbitrary digest per kind)', 'tommy_hashdyn_search / open / pread / close by stub', 'region extraction of state_sync_process, state_hash_process and of the body of scan_file'],
    assumptions=['scan_dir / scan_disk (which entries reach scan_file, removal of past inodes when they are not persistent) are NOT under an obligation', 'the index structures (tommy_hashdyn) are replaced by stubs that return a consistent element or nothing', 'bounded: files of <= 4 blocks in file_is_full_hashed_and_stable, <= 3 in file_copy; block size 8 in the fetch drivers'],
    not_covered=['scan_dir / scan_disk', 'state_import / import_file (building the import index)', 'state_search / search_dir', 'how repair() uses the fetched buffer afterwards (C05 units)'])
PROPS['C16'].update(
    explanation='Format stability is decided as "every constant and encoding equals a definition that is NOT in the repository": parity coefficients and every lookup table (table-free GF(2^8) spec, documented Cauchy / power matrix, all indices); CRC-32C tables == reflected 0x82F63B78 and the checksum function; the variable-length integer / little-endian / string codecs (all values); the nanosecond field encoding; the block layout rule of a file (block sizes 2^10..2^24); the split-parity address map; and main() switches the engine to the mode the configuration selects (z-parity = Vandermonde third row) after reading it. Any self-consistent change of one of them (which the suite cannot see, since it creates its arrays with the binary under test) fails a named obligation. Also the record bodies of the content file as typed round trips (header incl. the format version choice, disk maps incl. the old m record, parity records P / Q, file / link / directory / hole records) and blockcmp over every hash size 2..16.',
    trusted_base=['spec/gf_spec.h, the bitwise CRC and varint specifications in the drivers'],
    assumptions=['MurmurHash3_x86_128 is pinned to an independently organised transcription of the published algorithm for all contents and seeds at 8 lengths (0, 1, 3, 5, 12, 15, 20, 32) in the THOROUGH tier only (2 to 40 minutes per length: an equivalence of two multiplier-heavy programs; lengths 16, 17, 31, 33 did not finish reliably and were dropped); in the quick tier, and for SpookyHash V2 / MetroHash in both tiers, the block hash functions are NOT pinned', 'record letters and header bytes of the content file are not pinned'],
    not_covered=['cmdline/murmur3.c, spooky2.c, metro.c', 'content header / record tags', 'reference arrays of earlier versions (those are tests, not this technique)'])
PROPS['C04'].update(
    explanation='Detection logic only: blockcmp (check/fix) accepts iff digest and padding match; the hash region of sync and the book-keeping region of scrub classify a mismatch on a synced block as a silent error and mark exactly that stripe bad (keeping time and other marks), classify differences on unsynced blocks as plain errors that leave the books alone, and refresh / clear marks only for stripes verified correct; scrub selects bad stripes in every plan. The relation is always "whenever the digest differs" (memhash is an arbitrary function here; collision freedom is not assumed).',
    trusted_base=['memhash by contract', 'region extraction (scrub.c, sync.c)'],
    assumptions=['the data compare of scrub (classification region), the parity compare of scrub and of check / fix, the data verification of check / fix and the summary loop of status ARE under obligation as extracted regions; which file / position is named in the message texts is NOT', 'reader threads, plan -> stripe coverage beyond C15'],
    not_covered=['message texts', 'the rest of status.c', 'that every stripe is visited (loop structure of the commands)'])
PROPS['C01'].update(
    explanation='Only the per-stripe recovery engine: C03 obligations (MDS minors up to order 3, raid_rec dispatch for every nd/np/failure list, raid_delta_gen, recovery through parity 0, raid_invert) + the decisions of fix (repair_step never returns success without a validated reconstruction and tries every combination of readable parities; blockcmp; is_hash_matching; CHG classification) + the block layout rule of a file + what fix does around repair (data verification, parity offered per stripe, outcome, write-back, file_post, links / dirs, and the gate that lets a whole-array check / fix always reach the processing step - also with an empty parity: genuine defect found and fixed). The statement itself is a history (sync ... damage ... fix ... check) and is NOT decided.',
    trusted_base=['see C03 and C05'],
    assumptions=['table-driven reconstruction loops not under obligation (cbmc defect, DESIGN 2.3)', 'everything outside the listed functions (failed-set construction, file_post, links/dirs re-creation, handle I/O, composition over stripes and files) is unverified'],
    not_covered=['state_check_process glue between the extracted regions', 'raid_rec1/2/X T[] loops', 'composition over stripes, files and histories'])
MANIFEST_TEXT.update({
    'C05': dict(level_text='The functions and regions of check.c that decide whether a reconstruction is accepted and whether a rebuilt block is trusted are decided for all inputs within small bounds; the 2000-line driver loop around them is not - level other.',
                design_ref='DESIGN.md section 4', level_note='memhash / raid_* by contract; <= 3 failed blocks; state_check_process glue, write-back and file_post not covered', technique='CBMC code contracts (dfcc replace) + region extraction on real cmdline/check.c'),
    'C06': dict(level_text='The three decisions in state_sync_process that tie "BLK" to "parity recomputed from these buffers" are decided for all flag / state combinations within small bounds; block-map invariants and histories are not - level other.',
                design_ref='DESIGN.md section 4', level_note='callees by recording contracts; 2-3 disk slots; fs_* trees, threads, I/O, autosave not covered', technique='CBMC code contracts (dfcc replace) + region extraction on real cmdline/sync.c'),
    'C19': dict(level_text='Every per-call rule of the statement is decided for all inputs: identity and copy eligibility in scan_file, provisional state in file_copy, the hash / pre-hash regions of sync, and the verifying fetchers of import.c and search.c; which entries reach scan_file (directory walk, inode persistence handling in scan_disk) and the index structures are not - level other.',
                design_ref='DESIGN.md section 4', level_note='memhash and the index structures by stub; scan_dir / scan_disk and the building of the import / search indexes not covered', technique='CBMC drivers on real cmdline/import.c, search.c, elem.c, on the extracted body of scan_file and on a mechanically extracted region of real cmdline/sync.c'),
    'C16': dict(level_text='Bit-for-bit stability of tables, checksum, codecs, layout and address map is decided against definitions outside the repo; the block hash functions are NOT pinned - hence other, with that gap stated.',
                design_ref='DESIGN.md section 4', level_note='hash functions (murmur3/spooky2/metro) and record tags not pinned', technique='composition of the C02 / C09 / C10 / C17 obligations + file block layout'),
    'C04': dict(level_text='Detection and marking LOGIC is decided on the functions / regions that take those decisions; that every stripe is actually visited and the right file named is not - level other, narrow.',
                design_ref='DESIGN.md section 4', level_note='memhash arbitrary; message texts and loop structure not covered', technique='composition: blockcmp + sync hash region + scrub classification and mark regions + scrub selection'),
    'C01': dict(level_text='Composition of the recovery engine obligations (C03), the acceptance decisions of fix (C05) and what fix writes back / renames / re-times / re-links (extracted regions of check.c); the history-level statement is not decided - level other, narrow.',
                design_ref='DESIGN.md section 4', level_note='see C03 / C05; glue of state_check_process between the regions, directories and empty files not covered', technique='composition of C03 + C05 obligations'),
})
for k in ('C01', 'C04', 'C05', 'C06', 'C16', 'C19'):
    NOT_YET.pop(k, None)


PROPS['C08'].update(
    explanation='The SEQUENTIAL part of the property: (0) the reader functions themselves (sync_data_reader / scrub_data_reader, whole bodies extracted, callees by stub): a block is handed on as DONE only after a successful open and read (sync: and only if size, seconds, nanoseconds and inode are still the recorded ones); an EIO on read is IOERROR_CONTINUE, on open / close IOERROR; scrub reads a file that looks changed anyway and flags it; the task-state region of sync turns each outcome into the counters and per-stripe flags (I/O error limit included). (1) reader side - sync\'s completion region never records a block as synced when the stripe had an I/O error and always leaves that stripe marked bad; scrub\'s classification region turns a read EIO into an I/O error on this stripe and its book-keeping region marks the stripe bad (keeping time and marks); other stripes are unaffected (per-stripe flags). (2) writer side - the single-threaded I/O path reports every parity write that ended in an error state to the sync loop (genuine defect found and fixed: it reported none), and the loop counts it so that the command fails and stops at the error limit; but no stripe is marked bad for a parity WRITE error (KNOWN-FINDING, shown with the real binary by fault injection). The asynchronous writer queue (errors collected one stripe later, errors after the last collection never read) depends on thread timing and is not decided.',
    trusted_base=['region extraction of state_sync_process / state_scrub_process', 'info_set, fs_*, raid_gen by recording contracts (dfcc replace)', 'the writer function is a stub that sets the task state'],
    assumptions=['threads: cbmc contracts are sequential; io.c worker threads, the ring of task slots and the one-stripe delay of the error report are not modelled', 'the diagnostic text and exit status of the whole command are not function-level statements; only the counters that drive them are checked'],
    not_covered=['io.c threaded path as a concurrent system (io_writer_thread, io_write_next_thread, interleavings); of io_writer_step only the sequential semantics of one call is under contract', 'parity read errors during the in-memory repair of sync', 'how state_scrub_process consumes the parity reader outcome beyond the classification region'])
MANIFEST_TEXT['C08'] = dict(level_text='Narrow: the per-stripe consequences of an I/O error (no BLK, bad mark) and the single-threaded accounting of parity write errors are sequential statements and are decided (one defect fixed, one recorded); the asynchronous queue is not - level other.',
                            design_ref='DESIGN.md sections 4 and 6', level_note='threads not modelled; writer function stubbed; known finding: parity write errors never mark a stripe bad', technique='CBMC drivers / dfcc on real cmdline/io.c (mono path) + extracted regions of sync.c / scrub.c')
