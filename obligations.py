"""
Obligation tables: for each claimed property, the list of proof-obligation units (tools/run.py: Ob).
Geometry (nd, np, index tuples, table slices) is enumerated as concrete parameters; contents stay symbolic.
"""
import random
from run import Ob

RAID_SRCS = ['raid/int.c', 'raid/intz.c', 'raid/raid.c', 'raid/tables.c']


# ---------------------------------------------------------------- tables (C02, C03, C16)
def table_obs(tier):
    obs = []
    for hi in range(16):
        obs.append(Ob('tab.mul.hi%x' % hi, 'harness/h_tables.c', 'h_tab_mul', ['raid/tables.c'], defs={'HI': hi},
                      functions=['raid_gfmul[256][256] (raid/tables.c)'], timeout=600, mem=3, cost=3))
    for e, fn in (('h_tab_inv', 'raid_gfinv[256]'), ('h_tab_exp', 'raid_gfexp[256]'),
                  ('h_tab_cauchy', 'raid_gfcauchy[6][256]'), ('h_tab_power', 'raid_gfvandermonde[3][256]'),
                  ('h_tab_pshufb', 'raid_gfcauchypshufb[251][4][2][16]'), ('h_tab_mulpshufb', 'raid_gfmulpshufb[256][2][16]')):
        obs.append(Ob('tab.' + e[6:], 'harness/h_tables.c', e, ['raid/tables.c'], functions=[fn + ' (raid/tables.c)'],
                      timeout=600, mem=3, cost=2))
    return obs


# ---------------------------------------------------------------- stream primitives (C09, C10, C16)
STREAM_FUNCS = {
    'h_sgetb32': ['sgetb32', 'sgetc', 'sgetc_uncached', 'sfill', 'stell'],
    'h_sgetb64': ['sgetb64', 'sgetc', 'sgetc_uncached', 'sfill', 'stell'],
    'h_sgetble32': ['sgetble32', 'sread', 'sgetc', 'sgetc_uncached', 'sfill'],
    'h_sgetbs': ['sgetbs', 'sgetb32', 'sread', 'sgetc', 'sgetc_uncached', 'sfill'],
    'h_rt32': ['sputb32', 'swrite', 'sputc', 'sflush', 'sgetb32'],
    'h_rt64': ['sputb64', 'swrite', 'sputc', 'sflush', 'sgetb64'],
    'h_rtle32': ['sputble32', 'swrite', 'sflush', 'sgetble32', 'sread'],
    'h_rtbs': ['sputbs', 'sputb32', 'swrite', 'sflush', 'sgetbs', 'sread'],
}


def stream_obs(which):
    obs = []
    for e in which:
        obs.append(Ob('stream.' + e[2:], 'harness/h_stream.c', e, ['cmdline/util.c'], unwind=14, solver=['--sat-solver', 'cadical'],
                      functions=[f + ' (cmdline/stream.c)' for f in STREAM_FUNCS[e]], timeout=900, mem=6, cost=5,
                      kind='proof' if e not in ('h_sgetbs', 'h_rtbs') else 'bounded',
                      bound=None if e not in ('h_sgetbs', 'h_rtbs') else 'string buffer of at most 6 bytes (STRSZ), every size argument 1..6',
                      note='every byte string of length <= 12 (a 64-bit varint has at most 10 bytes), every chunking by read(), STREAM_SIZE 1..4; loops unwound to 14 with unwinding assertions (complete: bounded by operand width)'))
    return obs


def c02(tier, seed):
    return table_obs(tier)


def c09(tier, seed):
    return stream_obs(['h_sgetb32', 'h_sgetb64', 'h_sgetble32', 'h_sgetbs'])


def c10(tier, seed):
    return stream_obs(['h_rt32', 'h_rt64', 'h_rtle32', 'h_rtbs'])


PROPS = {
    'C09': dict(level='other', obligations=c09, explanation='', trusted_base=[], assumptions=[], not_covered=[]),
    'C10': dict(level='other', obligations=c10, explanation='', trusted_base=[], assumptions=[], not_covered=[]),
    'C02': dict(level='proof', obligations=c02,
                explanation='',
                trusted_base=[], assumptions=[], not_covered=[]),
}
