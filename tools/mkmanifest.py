#!/usr/bin/env python3
"""writes /verif/MANIFEST.json from obligations.PROPS + the texts below"""
import json, os, sys
sys.path.insert(0, os.path.dirname(os.path.abspath(__file__)))
sys.path.insert(0, os.path.dirname(os.path.dirname(os.path.abspath(__file__))))
import obligations

NA = {
    'C07': 'Interrupted sync/fix: quantifies over process-death points between system calls and signal arrival times; no function contract of /repo can express "the process stops here", and cbmc contracts are sequential. Only the write->verify->rename order of the content file survives as a contract (reported under C09).',
    'C08': 'I/O errors vs false protection: the outcome depends on the asynchronous reader/writer queue (io.c worker threads, errors collected one stripe later) inside the 700-line state_sync_process loop; cbmc code contracts have no thread support and the single-threaded path alone does not decide the property as stated.',
    'C11': 'Sync captures every change: a property of scan+sync over sequences of file-system operations judged against a directory walk; scan_file/scan_dir are lstat/readdir/tommy-hash glue with no per-call postcondition to take from the statement.',
    'C12': 'Commands modify only what they document: a whole-process frame condition on the file system through main()\'s dispatcher; not a postcondition of any function, and cbmc has no model of the file system to state it over.',
    'C13': 'Scheduling independence: quantifies over all interleavings of reader/writer/scanner threads; CBMC function contracts (goto-instrument --dfcc) are sequential only.',
    'C14': 'Safety interlocks: the triggers live in state_scan/state_read_content/state_sync/main and the guarantee is "content and parity byte-identical after the refusal", a process-level frame over the file system.',
}


def main():
    texts = obligations.MANIFEST_TEXT
    checks = []
    for pid in sorted(obligations.PROPS):
        t = texts[pid]
        checks.append(dict(
            property_id=pid,
            quick_cmd='./check %s quick' % pid,
            thorough_cmd='./check %s thorough' % pid,
            evidence_file='/verif/evidence/%s.json' % pid,
            replay_cmd_template='./check --replay {path}',
            engine='cbmc-contracts',
            level_claimed=dict(category=obligations.PROPS[pid]['level'], text=t['level_text'], design_ref=t['design_ref']),
            level_note=t['level_note'],
            technique=t['technique'],
        ))
    na = [dict(property_id=k, reason=v) for k, v in sorted(NA.items()) if k not in obligations.PROPS]
    for pid, reason in sorted(getattr(obligations, 'NOT_YET', {}).items()):
        if pid not in obligations.PROPS:
            na.append(dict(property_id=pid, reason=reason))
    m = dict(
        version=1,
        setup_cmd='python3 tools/setup.py',
        hooks=dict(guard='SNAPRAID_VERIF', enable='none needed: contracts are attached to forward declarations / injected into scratch copies, /repo is compiled unchanged by goto-cc -DHAVE_CONFIG_H',
                   baseline_off_cmd='cd /repo && make -j8 check', source_commits=[], add_only=True),
        engines=[dict(name='cbmc-contracts', path='/verif/tools/run.py', serves_properties=sorted(obligations.PROPS),
                      kind_free_text='CBMC 6.11 code contracts on the real translation units: goto-cc + goto-instrument --dfcc (enforce / replace / loop contracts) + cbmc with CaDiCaL or kissat; assume/call/assert drivers where dfcc does not terminate; native ASan replay of counterexamples against a library built from the current /repo tree')],
        checks=checks,
        not_applicable=na,
        notes='Exit 0: every obligation discharged; exit 1 + VIOLATION line: an obligation failed (counterexample replayed natively when cbmc gives one); exit 2: undecided (timeout, out of memory, anchors of the injector no longer match, compile error) - never reported as a violation. See DESIGN.md.',
    )
    with open(os.path.join(os.path.dirname(os.path.dirname(os.path.abspath(__file__))), 'MANIFEST.json'), 'w') as f:
        json.dump(m, f, indent=1)


if __name__ == '__main__':
    main()
