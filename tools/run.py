#!/usr/bin/env python3
"""
Obligation scheduler for the contract-based verification of /repo (SnapRAID) with CBMC.

  run.py <PROPERTY-ID> quick|thorough [--only <substr>] [--keep] [--list]
  run.py --replay <replay-dir>

Exit codes: 0 every obligation discharged (and every vacuity canary fired);
            1 + "VIOLATION property=<id> replay=<path>" an obligation failed (not listed as known finding);
            2 undecided (timeout, out of memory, compile/instrumentation error, vacuous driver).
"""
import sys, os, re, json, time, subprocess, threading, resource, shutil, hashlib, random, shlex
from concurrent.futures import ThreadPoolExecutor

VERIF = os.path.dirname(os.path.dirname(os.path.abspath(__file__)))
REPO = os.environ.get('VERIF_REPO', '/repo')
WORK = os.environ.get('VERIF_WORK') or os.path.join(VERIF, 'work')  # VERIF_WORK: a separate scratch directory for ad-hoc runs beside a full run
sys.path.insert(0, os.path.join(VERIF, 'tools'))
sys.path.insert(0, VERIF)

MEM_BUDGET_GB = int(os.environ.get('VERIF_MEM_GB', '52'))
NWORKERS = int(os.environ.get('VERIF_JOBS', '16'))

INCLUDES = ['-I' + REPO, '-I' + REPO + '/raid', '-I' + REPO + '/cmdline', '-I' + REPO + '/tommyds',
            '-I' + VERIF + '/include', '-I' + VERIF + '/spec', '-I' + VERIF + '/contracts']
CHECK_FLAGS = ['--bounds-check', '--pointer-check', '--signed-overflow-check', '--undefined-shift-check',
               '--div-by-zero-check']


class Ob:
    """One proof obligation unit = one cbmc run on one driver entry with concrete geometry parameters."""

    def __init__(self, name, harness, entry, srcs=(), defs=None, route='driver', enforce=None, replace=(),
                 loop_contracts=False, inject=None, flags=(), unwind=None, unwindset=(), timeout=600, mem=4,
                 functions=(), kind='proof', bound=None, tier='quick', replay=True, checks=None, note='',
                 solver=(), nondet_static=False, expect_fail=(), native_srcs=None, native_libs=(), cost=1,
                 no_canary=False, object_bits=None, preunwind=(), native_defs=None, incl_first=(), small_path=False):
        self.name = name
        self.harness = harness
        self.entry = entry
        self.srcs = list(srcs)
        self.defs = dict(defs or {})
        self.route = route            # 'driver' (assume/call/assert) or 'dfcc' (goto-instrument --dfcc)
        self.enforce = enforce        # function whose contract is enforced (dfcc)
        self.replace = list(replace)  # callees replaced by their contract (dfcc)
        self.loop_contracts = loop_contracts
        self.inject = inject          # list of (repo file, function, loop ordinal, clauses) -> tools/inject.py
        self.flags = list(flags)
        self.unwind = unwind
        self.unwindset = list(unwindset)
        self.preunwind = list(preunwind)  # goto-instrument --unwindset before dfcc (inner loops without contract)
        # generous floor: a timeout on the unchanged tree would read as a broken check; the values given per unit are
        # what they need on an idle 16-core box, the floor covers a loaded one
        self.timeout = max(timeout, 3600)
        self.mem = mem
        self.functions = list(functions)
        self.kind = kind              # 'proof' | 'bounded'
        self.bound = bound
        self.tier = tier
        self.replay = replay
        self.checks = CHECK_FLAGS if checks is None else list(checks)
        self.note = note
        # MiniSat's simplifier is pathological on these formulas (99 s vs 2 s); CaDiCaL is the default back end
        self.solver = list(solver) if solver else ['--sat-solver', 'cadical']
        self.expect_fail = list(expect_fail)  # substrings of obligations that MUST fail (known-finding demos)
        self.native_srcs = native_srcs
        self.native_libs = list(native_libs)
        self.native_defs = native_defs
        self.cost = cost
        self.no_canary = no_canary
        self.object_bits = object_bits
        self.small_path = small_path
        self.incl_first = ['-I' + (p if os.path.isabs(p) else os.path.join(VERIF, p)) for p in incl_first]


# --------------------------------------------------------------------------------------------------
_budget_lock = threading.Condition()
_budget_used = 0


def acquire_mem(gb):
    global _budget_used
    with _budget_lock:
        while _budget_used + gb > MEM_BUDGET_GB and _budget_used > 0:
            _budget_lock.wait()
        _budget_used += gb


def release_mem(gb):
    global _budget_used
    with _budget_lock:
        _budget_used -= gb
        _budget_lock.notify_all()


def run_cmd(cmd, cwd, timeout, mem_gb, logpath):
    """run with wall timeout and address-space limit; returns (rc, seconds, 'ok'|'timeout'|'oom')"""
    def limits():
        lim = int(mem_gb * (1 << 30))
        resource.setrlimit(resource.RLIMIT_AS, (lim, lim))
        os.setsid()
    t0 = time.time()
    with open(logpath, 'w') as lf:
        lf.write('$ ' + ' '.join(shlex.quote(c) for c in cmd) + '\n')
        lf.flush()
        p = subprocess.Popen(cmd, cwd=cwd, stdout=lf, stderr=subprocess.STDOUT, preexec_fn=limits)
        try:
            rc = p.wait(timeout=timeout)
            st = 'ok'
        except subprocess.TimeoutExpired:
            try:
                os.killpg(p.pid, 9)
            except Exception:
                p.kill()
            p.wait()
            rc, st = -9, 'timeout'
    dt = time.time() - t0
    if st == 'ok' and rc != 0:
        tail = open(logpath, errors='replace').read()[-4000:]
        if 'bad_alloc' in tail or 'Out of memory' in tail or 'out of memory' in tail or rc in (-6, -9, 134, 137) and 'VERIFICATION' not in tail:
            if 'VERIFICATION' not in tail and ('bad_alloc' in tail or 'emory' in tail or rc in (-6, -9, 134, 137)):
                st = 'oom'
    return rc, dt, st


PROP_RE = re.compile(r'^\[([^\]]+)\] (.*): (SUCCESS|FAILURE|UNKNOWN|ERROR)\s*$')


def parse_cbmc(logpath):
    res = []
    verdict = None
    ignoring = False
    solver_s = 0.0
    for line in open(logpath, errors='replace'):
        m = PROP_RE.match(line)
        if m:
            res.append((m.group(1), m.group(2), m.group(3)))
            continue
        if line.startswith('VERIFICATION SUCCESSFUL'):
            verdict = 'SUCCESSFUL'
        elif line.startswith('VERIFICATION FAILED'):
            verdict = 'FAILED'
        elif line.startswith('VERIFICATION ERROR'):
            verdict = None
        elif 'ignoring' in line and ('forall' in line or 'exists' in line or 'quantif' in line):
            ignoring = True
        m2 = re.match(r'^Runtime (?:Solver|decision procedure): ([0-9.]+)s', line)
        if m2:
            solver_s += float(m2.group(1))
    return res, verdict, ignoring, solver_s


def sha256_file(p):
    h = hashlib.sha256()
    with open(p, 'rb') as f:
        h.update(f.read())
    return h.hexdigest()


def src_path(s):
    return s if os.path.isabs(s) else os.path.join(REPO, s)


def build_and_check(ob, tierdir):
    """returns result dict"""
    d = os.path.join(tierdir, re.sub(r'[^A-Za-z0-9_.+-]', '_', ob.name))
    shutil.rmtree(d, ignore_errors=True)
    os.makedirs(d)
    r = dict(name=ob.name, status='undecided', reason='', props=[], failed=[], wall_s=0.0, solver_s=0.0,
             backend=('goto-instrument --dfcc + cbmc' if ob.route == 'dfcc' else 'cbmc (generated assume/call/assert driver)'),
             dir=d, n_props=0, n_ok=0, canary=False)
    t0 = time.time()
    defs = ['-D%s=%s' % (k, v) if v is not None else '-D%s' % k for k, v in ob.defs.items()]
    srcs = [src_path(s) for s in ob.srcs]
    incl = ob.incl_first + list(INCLUDES)
    if ob.inject:
        import inject
        inj_dir = os.path.join(d, 'inj')
        os.makedirs(inj_dir)
        try:
            mapping = inject.inject_all(ob.inject, REPO, inj_dir, os.path.join(VERIF, 'contracts'))
        except inject.InjectError as e:
            r['reason'] = 'inject: %s' % e
            r['wall_s'] = time.time() - t0
            return r
        srcs = [mapping.get(os.path.relpath(s, REPO), s) if s.startswith(REPO) else s for s in srcs]
        incl = ['-I' + inj_dir] + incl
        defs.append('-DVERIF_INJ_DIR="%s"' % inj_dir)
        r['inject'] = {k: dict(scratch=v) for k, v in mapping.items()}
    harness = os.path.join(VERIF, ob.harness)
    if ob.small_path:
        defs = defs + ['-include', os.path.join(VERIF, 'include', 'small_path.h')]
    cmd = ['goto-cc', '-DHAVE_CONFIG_H', '-DVERIF_CBMC'] + defs + incl + ['--function', ob.entry, harness] + srcs + ['-o', 'a.gb']
    rc, dt, st = run_cmd(cmd, d, 300, 8, os.path.join(d, 'goto-cc.log'))
    if rc != 0:
        r['reason'] = 'goto-cc failed (%s) see %s/goto-cc.log' % (st, d)
        r['wall_s'] = time.time() - t0
        return r
    binary = 'a.gb'
    if ob.route == 'dfcc':
        if ob.preunwind:
            cmd = ['goto-instrument', '--unwindset', ','.join(ob.preunwind), '--unwinding-assertions', 'a.gb', 'a0.gb']
            rc, dt, st = run_cmd(cmd, d, 300, 8, os.path.join(d, 'goto-instrument0.log'))
            if rc != 0:
                r['reason'] = 'goto-instrument --unwindset failed (%s)' % st
                r['wall_s'] = time.time() - t0
                return r
            binary = 'a0.gb'
        cmd = ['goto-instrument', '--dfcc', ob.entry]
        if ob.enforce:
            cmd += ['--enforce-contract', ob.enforce]
        for g in ob.replace:
            cmd += ['--replace-call-with-contract', g]
        if ob.loop_contracts:
            cmd += ['--apply-loop-contracts']
        cmd += [binary, 'b.gb']
        rc, dt, st = run_cmd(cmd, d, min(ob.timeout, 600), ob.mem, os.path.join(d, 'goto-instrument.log'))
        if rc != 0:
            r['reason'] = 'goto-instrument --dfcc failed (%s) see %s/goto-instrument.log' % (st, d)
            r['wall_s'] = time.time() - t0
            return r
        binary = 'b.gb'
    cmd = ['cbmc', binary, '--drop-unused-functions'] + ob.checks + ob.flags + ob.solver
    if ob.unwind is not None:
        cmd += ['--unwind', str(ob.unwind), '--unwinding-assertions']
    elif ob.unwindset:
        cmd += ['--unwinding-assertions']
    if ob.unwindset:
        cmd += ['--unwindset', ','.join(ob.unwindset)]
    if ob.object_bits:
        cmd += ['--object-bits', str(ob.object_bits)]
    r['cbmc_cmd'] = ' '.join(cmd)
    rc, dt, st = run_cmd(cmd, d, ob.timeout, ob.mem, os.path.join(d, 'cbmc.log'))
    props, verdict, ignoring, solver_s = parse_cbmc(os.path.join(d, 'cbmc.log')) if st == 'ok' else ([], None, False, 0)
    if st == 'ok' and (verdict is None or any(p[2] == 'ERROR' for p in props)) and '--sat-solver' in cmd:
        # the in-process CaDiCaL of cbmc 6.11 sometimes aborts on the second solver iteration ("VERIFICATION ERROR" /
        # no verdict, rc 6 or 10); the same query goes through with the external kissat - retry once
        k = cmd.index('--sat-solver')
        cmd = cmd[:k] + cmd[k + 2:] + ['--external-sat-solver', 'kissat']
        r['cbmc_cmd'] = ' '.join(cmd)
        r['solver_retry'] = 'cadical aborted, retried with kissat'
        shutil.copy(os.path.join(d, 'cbmc.log'), os.path.join(d, 'cbmc.cadical.log'))
        rc, dt, st = run_cmd(cmd, d, ob.timeout, ob.mem, os.path.join(d, 'cbmc.log'))
        if st == 'ok':
            props, verdict, ignoring, solver_s = parse_cbmc(os.path.join(d, 'cbmc.log'))
    if st == 'ok' and verdict is None and 'too many addressed objects' in open(os.path.join(d, 'cbmc.log'), errors='replace').read()[-3000:]:
        # cbmc's default of 8 object bits is a tool setting, not a property of the code: retry with more
        for bits in (12, 16):
            cmd2 = [c for c in cmd if c != '--object-bits']
            cmd2 = [c for i, c in enumerate(cmd2) if not (i > 0 and cmd[i - 1] == '--object-bits')] + ['--object-bits', str(bits)]
            r['cbmc_cmd'] = ' '.join(cmd2)
            r['object_bits'] = bits
            rc, dt, st = run_cmd(cmd2, d, ob.timeout, ob.mem, os.path.join(d, 'cbmc.log'))
            if st != 'ok':
                break
            props, verdict, ignoring, solver_s = parse_cbmc(os.path.join(d, 'cbmc.log'))
            if verdict is not None:
                break
    r['wall_s'] = time.time() - t0
    if st != 'ok':
        r['reason'] = 'cbmc %s after %.0fs (limit %ss, %sGB)' % (st, dt, ob.timeout, ob.mem)
        return r
    r['solver_s'] = solver_s
    if verdict is None:
        r['reason'] = 'cbmc ended without verdict (rc=%s) see %s/cbmc.log' % (rc, d)
        return r
    if ignoring:
        r['reason'] = 'cbmc dropped a quantifier ("ignoring") - result not trusted'
        return r
    # Forming (not dereferencing) a pointer beyond one-past-the-end, as in stream.h's `s->pos + size <= s->end`,
    # is formally undefined but not a memory access; no property of properties.jsonl forbids it, so these two
    # obligation classes are not counted (DESIGN.md section 1, "what is not an obligation").
    props = [p for p in props if not re.search(r'pointer (relation|arithmetic): ', p[1])]
    canary = [p for p in props if 'VERIF-CANARY' in p[1]]
    real = [p for p in props if 'VERIF-CANARY' not in p[1]]
    r['n_props'] = len(real)
    failed = [p for p in real if p[2] != 'SUCCESS']
    expected_failed = [p for p in failed if any(x in p[1] or x in p[0] for x in ob.expect_fail)]
    unexpected_failed = [p for p in failed if p not in expected_failed]
    missing_expected = [x for x in ob.expect_fail if not any(x in p[1] or x in p[0] for p in failed)]
    r['n_ok'] = len(real) - len(failed)
    r['props'] = [(p[0], p[1]) for p in real if p[1].startswith('VERIF ')][:40]
    r['failed'] = [(p[0], p[1]) for p in unexpected_failed]
    r['expected_failed'] = [(p[0], p[1]) for p in expected_failed]
    r['canary'] = bool(canary) and all(p[2] == 'FAILURE' for p in canary)
    if ob.loop_contracts:
        if not any('loop_invariant_step' in p[0] or 'invariant' in p[1] for p in props):
            r['reason'] = 'loop contract supplied but no loop-invariant obligation generated (contract silently dropped)'
            return r
    if unexpected_failed and all('unwind' in p[0].split('.')[-2:][0] or '.unwind.' in p[0] for p in unexpected_failed):
        # only unwinding assertions failed: the bound of the driver was exceeded, nothing is known about the property
        r['status'] = 'undecided'
        r['reason'] = 'unwinding assertion failed (%s): bound too small or a loop no longer terminates within it' % unexpected_failed[0][0]
        return r
    if unexpected_failed:
        r['status'] = 'failed'
        return r
    if missing_expected:
        r['status'] = 'undecided'
        r['reason'] = 'known-finding obligation(s) no longer fail: %s (update known_findings.txt: now fixed?)' % missing_expected
        r['fixed_candidates'] = missing_expected
        return r
    if not ob.no_canary and not r['canary']:
        r['reason'] = 'vacuity canary did not fire: driver assumptions are unsatisfiable or the call never returns'
        return r
    if len(real) == 0:
        r['reason'] = 'zero obligations generated'
        return r
    r['status'] = 'discharged'
    return r


# --------------------------------------------------------------------------------------------------
# counterexample extraction + native replay

def c_lhs(lhs):
    return re.sub(r'\[(\d+)l?\]', r'[\1]', lhs)


def pick_failed(ob, r):
    """the failed obligation to explain: a VERIF assertion first, then one inside a function under contract"""
    fl = r['failed']
    names = [fn.split(' ')[0] for fn in ob.functions]
    # a memory-safety failure inside a function under contract is the root cause of whatever follows it
    for n in names:
        for f in fl:
            if f[0].split('.')[0] == n and ('pointer_dereference' in f[0] or 'array_bounds' in f[0]):
                return f
    for f in fl:
        if 'VERIF ' in f[1]:
            return f
    for f in fl:
        if f[0].split('.')[0] in names and 'unwind' not in f[0]:
            return f
    for f in fl:
        if 'unwind' not in f[0]:
            return f
    return fl[0]


def trace_inputs(ob, r):
    """re-run cbmc for the first failed property with a JSON trace, return {lhs: c-literal} for IN.*"""
    d = r['dir']
    binary = 'b.gb' if ob.route == 'dfcc' else 'a.gb'
    prop = pick_failed(ob, r)[0]
    cmd = ['cbmc', binary, '--drop-unused-functions'] + ob.checks + ob.flags + ob.solver + ['--trace', '--json-ui', '--property', prop]
    if ob.unwind is not None:
        cmd += ['--unwind', str(ob.unwind), '--unwinding-assertions']
    elif ob.unwindset:
        cmd += ['--unwinding-assertions']
    if ob.unwindset:
        cmd += ['--unwindset', ','.join(ob.unwindset)]
    if ob.object_bits or r.get('object_bits'):
        cmd += ['--object-bits', str(r.get('object_bits') or ob.object_bits)]
    rc, dt, st = run_cmd(cmd, d, ob.timeout, ob.mem, os.path.join(d, 'trace.json'))
    if st != 'ok':
        return None, 'trace run %s' % st
    txt = open(os.path.join(d, 'trace.json'), errors='replace').read()
    txt = txt[txt.index('\n') + 1:]
    try:
        doc = json.loads(txt)
    except Exception as e:
        return None, 'trace json unparsable: %s' % e
    vals = {}
    text_trace = []
    for e in doc:
        if 'result' not in e:
            continue
        for res in e['result']:
            if res.get('status') != 'FAILURE' or 'trace' not in res:
                continue
            for s in res['trace']:
                if s.get('stepType') == 'assignment':
                    lhs = s.get('lhs', '')
                    v = s.get('value', {})
                    if lhs.startswith('IN.') and 'binary' in v and '$' not in lhs:
                        w = v.get('width', len(v['binary']))
                        vals[c_lhs(lhs)] = '0x%xULL' % int(v['binary'], 2) if v.get('name') in ('integer', 'boolean', 'unsignedbv', 'signedbv') or re.fullmatch('[01]+', v['binary']) else v.get('data')
                    if not s.get('hidden') and 'data' in v:
                        text_trace.append('%s = %s  (%s)' % (lhs, v['data'], (s.get('sourceLocation') or {}).get('line', '')))
                elif s.get('stepType') == 'failure':
                    text_trace.append('FAILURE: %s at %s' % (s.get('reason'), s.get('sourceLocation')))
            break
    with open(os.path.join(d, 'trace.txt'), 'w') as f:
        f.write('\n'.join(text_trace[-400:]))
    return vals, ''


def native_replay(ob, r, vals, rdir):
    """compile the same driver natively against the real code, with IN := counterexample"""
    valf = os.path.join(rdir, 'values.h')
    with open(valf, 'w') as f:
        f.write('/* counterexample inputs extracted from the cbmc trace of %s */\n' % ob.name)
        for k in sorted(vals):
            f.write('%s = (__typeof__(%s))%s;\n' % (k, k, vals[k]))
    defs = ['-D%s=%s' % (k, v) if v is not None else '-D%s' % k for k, v in (ob.native_defs or ob.defs).items()]
    import nativelib
    lib, err = nativelib.get(REPO, WORK)
    if lib is None:
        return 'build-failed', 'native library of the repo did not build:\n' + err
    exe = os.path.join(rdir, 'replay.bin')
    # the driver (which may #include real .c files) first; every other real function comes from the ASan build of
    # the whole repo (archive members are only pulled for symbols the driver does not define itself)
    cmd = ['gcc', '-g', '-O0', '-w', '-fsanitize=address', '-fno-omit-frame-pointer',
           '-DHAVE_CONFIG_H', '-D_FILE_OFFSET_BITS=64', '-DVERIF_NATIVE', '-DVERIF_ENTRY=' + ob.entry,
           '-DVERIF_REPLAY_VALUES="%s"' % valf] + defs + (['-I' + os.path.join(r['dir'], 'inj')] if ob.inject else []) + ob.incl_first + INCLUDES + [os.path.join(VERIF, ob.harness), lib, '-o', exe,
           '-lpthread', '-lm', '-lblkid'] + ob.native_libs
    with open(os.path.join(rdir, 'replay.sh'), 'w') as f:
        f.write('#!/bin/sh\n# native replay of the cbmc counterexample against the real code\n')
        f.write(' '.join(shlex.quote(c) for c in cmd) + ' && ' + shlex.quote(exe) + '\n')
    os.chmod(os.path.join(rdir, 'replay.sh'), 0o755)
    p = subprocess.run(cmd, capture_output=True, text=True)
    if p.returncode != 0:
        return 'build-failed', p.stderr[-3000:]
    try:
        q = subprocess.run([exe], capture_output=True, text=True, timeout=120,
                           env=dict(os.environ, ASAN_OPTIONS='detect_leaks=0:abort_on_error=0', UBSAN_OPTIONS='print_stacktrace=1'))
    except subprocess.TimeoutExpired:
        return 'timeout', ''
    out = (q.stdout + q.stderr)[-6000:]
    if q.returncode == 0:
        return 'not-reproduced', out
    if q.returncode == 77:
        return 'excluded-by-assumption', out
    return 'reproduced', out


def make_replay(pid, ob, r, tier):
    rdir = os.path.join(VERIF, 'work', 'replay', '%s-%s' % (pid, re.sub(r'[^A-Za-z0-9_.+-]', '_', ob.name)))
    shutil.rmtree(rdir, ignore_errors=True)
    os.makedirs(rdir)
    info = dict(property=pid, obligation=ob.name, failed=r['failed'], harness=ob.harness, entry=ob.entry,
                defs=ob.defs, functions=ob.functions, cbmc_cmd=r.get('cbmc_cmd'), tier=tier)
    outcome, detail = 'no-trace', ''
    vals = None
    if ob.replay:
        vals, why = trace_inputs(ob, r)
        if vals is None:
            detail = why
        else:
            if os.path.exists(os.path.join(r['dir'], 'trace.txt')):
                shutil.copy(os.path.join(r['dir'], 'trace.txt'), os.path.join(rdir, 'cbmc-trace.txt'))
            outcome, detail = native_replay(ob, r, vals, rdir)
    info['native_replay'] = outcome
    info['native_output'] = detail
    info['inputs'] = vals
    # always carry the verifier's own output
    try:
        log = open(os.path.join(r['dir'], 'cbmc.log'), errors='replace').read()
        keep = [l for l in log.splitlines() if ': FAILURE' in l or l.startswith('VERIFICATION') or l.startswith('**')]
        info['verifier_output'] = keep[:200]
        shutil.copy(os.path.join(r['dir'], 'cbmc.log'), os.path.join(rdir, 'cbmc.log'))
    except Exception:
        pass
    with open(os.path.join(rdir, 'replay.json'), 'w') as f:
        json.dump(info, f, indent=1)
    return rdir, outcome


# --------------------------------------------------------------------------------------------------
def load_known():
    known, fixed = [], []
    p = os.path.join(VERIF, 'known_findings.txt')
    if os.path.exists(p):
        for l in open(p):
            l = l.strip()
            if l.startswith('known:'):
                m = re.match(r'known:\s+property=(\S+)\s+obligation=(\S+)\s+match=("[^"]*"|\S+)\s*(.*)', l)
                if m:
                    known.append(dict(prop=m.group(1), ob=m.group(2), match=m.group(3).strip('"'), text=m.group(4)))
            elif l.startswith('fixed:'):
                fixed.append(l)
    return known, fixed


def main():
    args = sys.argv[1:]
    if not args or args[0] in ('-h', '--help'):
        print(__doc__)
        return 2
    if args[0] == '--replay':
        rd = args[1]
        sh = os.path.join(rd, 'replay.sh')
        if os.path.exists(sh):
            return subprocess.call([sh])
        print(open(os.path.join(rd, 'replay.json')).read())
        return 0
    pid = args[0]
    tier = args[1] if len(args) > 1 else os.environ.get('VERIF_TIER', 'quick')
    only = None
    if '--only' in args:
        only = args[args.index('--only') + 1]
    seed = int(os.environ.get('VERIF_SEED', '0') or 0)
    import obligations
    spec = obligations.PROPS[pid]
    obs = spec['obligations'](tier, seed)
    if tier == 'quick':
        obs = [o for o in obs if o.tier == 'quick']
    if only:
        obs = [o for o in obs if only in o.name]
    if '--list' in args:
        for o in obs:
            print(o.name, o.route, o.entry, o.defs)
        return 0
    if not os.path.exists(os.path.join(REPO, 'config.h')):
        # the repo's own generated configuration is not tracked by git; fall back to the copy taken at setup
        shutil.copy(os.path.join(VERIF, 'tools', 'config.h.fallback'), os.path.join(REPO, 'config.h'))
    tierdir = os.path.join(WORK, tier, pid)
    os.makedirs(tierdir, exist_ok=True)
    t0 = time.time()
    results = {}

    def job(o):
        acquire_mem(o.mem)
        try:
            res = build_and_check(o, tierdir)
        except Exception as e:  # never let an internal error look like a pass
            res = dict(name=o.name, status='undecided', reason='internal error: %r' % e, props=[], failed=[], wall_s=0,
                       solver_s=0, backend='', dir='', n_props=0, n_ok=0, canary=False)
        finally:
            release_mem(o.mem)
        results[o.name] = res
        tag = {'discharged': 'ok  ', 'failed': 'FAIL', 'undecided': '??  '}[res['status']]
        print('[%s] %-58s %6.1fs %4d obligations %s' % (tag, o.name, res['wall_s'], res['n_props'], res['reason']), flush=True)
        return res

    order = sorted(obs, key=lambda o: -o.cost)
    with ThreadPoolExecutor(max_workers=NWORKERS) as ex:
        list(ex.map(job, order))

    known, fixed = load_known()
    violations = []
    known_hits = []
    undecided = []
    for o in obs:
        r = results[o.name]
        if r['status'] == 'failed':
            rest = []
            for f in r['failed']:
                hit = [k for k in known if k['prop'] == pid and k['ob'] == o.name and k['match'] in f[1]]
                if hit:
                    known_hits.append((o, f, hit[0]))
                else:
                    rest.append(f)
            if rest:
                r['failed'] = rest
                violations.append(o)
        elif r['status'] == 'undecided':
            undecided.append(o)
        for f in r.get('expected_failed', []):
            hit = [k for k in known if k['prop'] == pid and k['ob'] == o.name and k['match'] in f[1]]
            if hit:
                known_hits.append((o, f, hit[0]))
            else:
                # an expect_fail without a known-findings line is a configuration error, never silently accepted
                r['failed'] = [f]
                if o not in violations:
                    violations.append(o)

    for o, f, k in known_hits:
        print('KNOWN-FINDING: property=%s %s :: %s (%s)' % (pid, o.name, f[1], k['text']))

    vio_lines = []
    for o in violations:
        r = results[o.name]
        rdir, outcome = make_replay(pid, o, r, tier)
        suffix = '' if outcome == 'reproduced' else ' no-failing-input-found'
        line = 'VIOLATION property=%s replay=%s obligation=%s failed="%s" native-replay=%s%s' % (
            pid, rdir, o.name, pick_failed(o, r)[1], outcome, suffix)
        vio_lines.append(line)
        print(line, flush=True)

    wall = time.time() - t0
    write_evidence(pid, tier, seed, spec, obs, results, wall, len(violations), known_hits, undecided, partial=bool(only))
    n_ok = sum(1 for o in obs if results[o.name]['status'] == 'discharged')
    print('%s %s: %d/%d obligation units discharged, %d cbmc obligations, %d violations, %d undecided, %.0fs' % (
        pid, tier, n_ok, len(obs), sum(results[o.name]['n_ok'] for o in obs), len(violations), len(undecided), wall))
    if violations:
        return 1
    if undecided:
        for o in undecided:
            print('UNDECIDED %s: %s' % (o.name, results[o.name]['reason']))
        return 2
    return 0


def write_evidence(pid, tier, seed, spec, obs, results, wall, nviol, known_hits, undecided, partial=False):
    units = []
    funcs = {}
    assumptions = list(spec.get('assumptions', []))
    n_props = n_ok = 0
    bounded = []
    for o in obs:
        r = results[o.name]
        n_props += r['n_props']
        n_ok += r['n_ok'] if r['status'] == 'discharged' else 0
        units.append(dict(name=o.name, status=r['status'], backend=r['backend'], kind=o.kind, bound=o.bound,
                          functions=o.functions, cbmc_obligations=r['n_props'], discharged=r['n_ok'],
                          wall_s=round(r['wall_s'], 2), solver_s=round(r['solver_s'], 2), reason=r['reason'],
                          canary_fired=r['canary'], defs=o.defs, enforce=o.enforce, replaced=o.replace,
                          loop_contracts=o.loop_contracts, note=o.note, path_max_64=o.small_path))
        if o.small_path and 'PATH_MAX' not in ' '.join(assumptions):
            assumptions.append('PATH_MAX reduced from 4096 to 64 in the cbmc build of the units marked path_max_64 (struct layout only; the functions concerned never touch the path members)')
        for f in o.functions:
            funcs.setdefault(f, []).append(o.name)
        if o.kind == 'bounded':
            bounded.append('%s: %s' % (o.name, o.bound))
    proved_units = [u for u in units if u['status'] == 'discharged' and u['kind'] == 'proof']
    bounded_units = [u for u in units if u['status'] == 'discharged' and u['kind'] == 'bounded']
    samples = []
    for o in obs[:]:
        r = results[o.name]
        if r['props']:
            samples.append(dict(unit=o.name, entry=o.entry, defs=o.defs, obligations=[p[1] for p in r['props'][:6]]))
        if len(samples) >= 8:
            break
    cov = dict(
        obligations=n_props,
        discharged=n_ok,
        obligation_units=len(obs),
        units_discharged=len(proved_units) + len(bounded_units),
        units_proof=len(proved_units),
        units_bounded=len(bounded_units),
        units_undecided=[o.name for o in undecided],
        checker_cmd='goto-cc -DHAVE_CONFIG_H <real /repo .c files> + [goto-instrument --dfcc <entry> --enforce-contract f --replace-call-with-contract g --apply-loop-contracts] + cbmc ' + ' '.join(CHECK_FLAGS),
        trusted_base=spec.get('trusted_base', []) + ['cbmc 6.11.0 with CaDiCaL 3.0.0 (default here) or kissat 4.0.1 (where named) soundness', 'goto-cc C semantics == gcc x86-64 LP64 little-endian', "/repo/config.h as generated by the repo's own configure"],
        functions_under_contract=sorted(funcs),
        bounded_stand_ins=bounded,
        solver_s=round(sum(u['solver_s'] for u in units), 2),
        evaluations=len(obs),
        distinct_nontrivial=len([u for u in units if u['status'] == 'discharged' and u['cbmc_obligations'] >= 1]),
        rule='one evaluation = one cbmc run on one driver entry with concrete geometry parameters and fully symbolic contents; distinct = distinct (entry, parameters); non-trivial = at least one non-canary obligation generated and the reachability canary fired',
        samples=samples or [dict(unit=o.name) for o in obs[:3]],
        explanation=spec.get('explanation', ''),
        not_covered=spec.get('not_covered', []),
        known_findings=['%s :: %s' % (o.name, f[1]) for o, f, k in known_hits],
        units=units,
        exhaustive=False,
    )
    ev = dict(property_id=pid, tier=tier, seed=seed, level=spec['level'], coverage=cov, assumptions=assumptions,
              wall_s=round(wall, 2), violations=nviol)
    os.makedirs(os.path.join(VERIF, 'evidence'), exist_ok=True)
    # a run restricted with --only is a debugging aid: it must not replace the evidence of the full check
    # so is a run with VERIF_WORK set (a scratch run against a copy of the repo, e.g. a seeded change): its evidence stays in that directory
    scratch = bool(os.environ.get('VERIF_WORK'))
    dest = os.path.join(WORK, pid + '.scratch.json') if scratch else os.path.join(VERIF, 'work' if partial else 'evidence', pid + ('.partial.json' if partial else '.json'))
    with open(dest, 'w') as f:
        json.dump(ev, f, indent=1)


if __name__ == '__main__':
    sys.exit(main())
