#!/usr/bin/env python3
"""
Annotate-in-scratch: copy a repo .c file to a scratch directory and insert CBMC loop-contract clauses
(__CPROVER_assigns / __CPROVER_loop_invariant / __CPROVER_decreases) after the header of the n-th loop of a named
function.  Nothing else is touched: stripping the inserted text gives back the original bytes (checked).

spec item: dict(file='cmdline/parity.c', function='parity_handle_fill', loop=0, clauses='__CPROVER_loop_invariant(...)')
Must-fire: a missing function, a missing loop ordinal or an ambiguous anchor raises InjectError (-> undecided, exit 2).
"""
import os, re, hashlib


class InjectError(Exception):
    pass


def _strip_comments_keep_len(src):
    """replace comments and string/char literals by spaces of the same length (positions stay valid)"""
    out = list(src)
    i, n = 0, len(src)
    while i < n:
        c = src[i]
        if src.startswith('/*', i):
            j = src.find('*/', i + 2)
            j = n if j < 0 else j + 2
            for k in range(i, j):
                if out[k] != '\n':
                    out[k] = ' '
            i = j
        elif src.startswith('//', i):
            j = src.find('\n', i)
            j = n if j < 0 else j
            for k in range(i, j):
                out[k] = ' '
            i = j
        elif c == '"' or c == "'":
            q = c
            j = i + 1
            while j < n and src[j] != q:
                j += 2 if src[j] == '\\' else 1
            for k in range(i + 1, min(j, n)):
                if out[k] != '\n':
                    out[k] = ' '
            i = j + 1
        else:
            i += 1
    return ''.join(out)


def _match(src, i, open_c, close_c):
    depth = 0
    n = len(src)
    while i < n:
        if src[i] == open_c:
            depth += 1
        elif src[i] == close_c:
            depth -= 1
            if depth == 0:
                return i
        i += 1
    raise InjectError('unbalanced %s' % open_c)


def find_function(clean, name):
    """returns (start of body '{', end of body '}') of the definition of `name`"""
    hits = []
    for m in re.finditer(r'(?<![A-Za-z0-9_])' + re.escape(name) + r'\s*\(', clean):
        p = _match(clean, m.end() - 1, '(', ')')
        q = p + 1
        while q < len(clean) and clean[q] in ' \t\r\n':
            q += 1
        if q < len(clean) and clean[q] == '{':
            # must be at file scope: brace depth 0 before it
            if clean.count('{', 0, m.start()) == clean.count('}', 0, m.start()):
                hits.append((q, _match(clean, q, '{', '}')))
    if len(hits) != 1:
        raise InjectError('function %s: %d definitions found' % (name, len(hits)))
    return hits[0]


def find_loops(clean, b0, b1):
    """positions just after the ')' of every for/while loop header inside [b0,b1), in source order; do-while tails skipped"""
    loops = []
    for m in re.finditer(r'(?<![A-Za-z0-9_])(for|while)\s*\(', clean[b0:b1]):
        s = b0 + m.start()
        p = _match(clean, b0 + m.end() - 1, '(', ')')
        q = p + 1
        while q < b1 and clean[q] in ' \t\r\n':
            q += 1
        if m.group(1) == 'while' and clean[q] == ';':
            # tail of a do { } while (...);
            k = s - 1
            while k > b0 and clean[k] in ' \t\r\n':
                k -= 1
            if clean[k] == '}':
                continue
        loops.append(p + 1)
    return loops


MARK_A = '/*VERIF-INJ{*/'
MARK_B = '/*}VERIF-INJ*/'


def inject_all(items, repo, outdir, contracts_dir=None):
    """returns {repo-relative file: scratch path}"""
    by_file = {}
    for it in items:
        by_file.setdefault(it['file'], []).append(it)
    mapping = {}
    for rel, its in by_file.items():
        path = os.path.join(repo, rel)
        if not os.path.exists(path):
            raise InjectError('%s does not exist' % rel)
        src = open(path, encoding='latin-1').read()
        clean = _strip_comments_keep_len(src)
        inserts = []
        for it in its:
            b0, b1 = find_function(clean, it['function'])
            loops = find_loops(clean, b0, b1)
            if 'expect_loops' in it and len(loops) != it['expect_loops']:
                raise InjectError('%s: %s has %d loops, contract written for %d' % (rel, it['function'], len(loops), it['expect_loops']))
            if it['loop'] >= len(loops):
                raise InjectError('%s: %s has only %d loops, loop %d wanted' % (rel, it['function'], len(loops), it['loop']))
            inserts.append((loops[it['loop']], it['clauses']))
        out = src
        for pos, text in sorted(inserts, reverse=True):
            out = out[:pos] + '\n' + MARK_A + '\n' + text.strip() + '\n' + MARK_B + '\n' + out[pos:]
        # the stripped scratch copy must be byte-identical to the repo file
        stripped = re.sub(r'\n' + re.escape(MARK_A) + r'.*?' + re.escape(MARK_B) + r'\n', '', out, flags=re.S)
        if stripped != src:
            raise InjectError('%s: injection is not purely additive' % rel)
        dst = os.path.join(outdir, os.path.basename(rel))
        with open(dst, 'w', encoding='latin-1') as f:
            f.write(out)
        mapping[rel] = dst
    return mapping


if __name__ == '__main__':
    import sys
    print(inject_all([dict(file=sys.argv[1], function=sys.argv[2], loop=int(sys.argv[3]), clauses='__CPROVER_loop_invariant(1)')], '/repo', '/tmp'))


# --------------------------------------------------------------------------------------------------
# region extraction: inline glue of giant functions, cut between two literal anchor lines
def extract_region(it, repo, outdir):
    """
    it: dict(region=name, file=, begin=<substring of exactly one line>, end=<substring; first line after begin containing it,
             must be unique in the file>, include_begin=False, include_end=False, proto='void region_x(...)',
             prologue='', epilogue='', loops=[(ordinal, clauses)], expect_loops=n)
    What extraction drops: everything outside the region; the identity of its free variables (they become the
    parameters / locals declared by proto+prologue).  The region text itself is copied byte for byte.
    """
    path = os.path.join(repo, it['file'])
    if not os.path.exists(path):
        raise InjectError('%s does not exist' % it['file'])
    lines = open(path, encoding='latin-1').read().split('\n')
    b = [n for n, l in enumerate(lines) if it['begin'] in l]
    if 'scope' in it:
        # a unique line that opens the enclosing construct; the begin anchor is the first match after it
        sc = [n for n, l in enumerate(lines) if it['scope'] in l]
        if len(sc) != 1:
            raise InjectError('region %s: scope anchor matches %d lines' % (it['region'], len(sc)))
        b = [n for n in b if n > sc[0]][:1]
    if len(b) != 1:
        raise InjectError('region %s: begin anchor matches %d lines' % (it['region'], len(b)))
    e_all = [n for n, l in enumerate(lines) if it['end'] in l]
    if it.get('end_first_after'):
        # the end anchor is the FIRST line after begin that contains the text (it need not be unique in the file)
        e_all = [n for n in e_all if n > b[0]][:1]
    if len(e_all) != 1 or e_all[0] <= b[0]:
        raise InjectError('region %s: end anchor matches %d lines (or precedes begin)' % (it['region'], len(e_all)))
    lo = b[0] if it.get('include_begin') else b[0] + 1
    hi = e_all[0] + 1 if it.get('include_end') else e_all[0]
    text = '\n'.join(lines[lo:hi]) + '\n'
    if 'max_lines' in it and hi - lo > it['max_lines']:
        raise InjectError('region %s grew to %d lines (contract written for <= %d)' % (it['region'], hi - lo, it['max_lines']))
    clean = _strip_comments_keep_len(text)
    if clean.count('{') - clean.count('}') != it.get('brace_balance', 0):
        raise InjectError('region %s: brace balance %d, expected %d' % (it['region'], clean.count('{') - clean.count('}'), it.get('brace_balance', 0)))
    loops = find_loops(clean, 0, len(clean))
    if 'expect_loops' in it and len(loops) != it['expect_loops']:
        raise InjectError('region %s has %d loops, contract written for %d' % (it['region'], len(loops), it['expect_loops']))
    out = text
    for ordinal, clauses in sorted(it.get('loops', []), key=lambda x: -loops[x[0]] if x[0] < len(loops) else 0):
        if ordinal >= len(loops):
            raise InjectError('region %s: loop %d wanted, %d present' % (it['region'], ordinal, len(loops)))
        pos = loops[ordinal]
        out = out[:pos] + '\n' + MARK_A + '\n' + clauses.strip() + '\n' + MARK_B + '\n' + out[pos:]
    if it.get('raw'):
        # a declaration (e.g. a struct local to the .c file) copied verbatim at file scope, no wrapper function
        body = ('/* region %s of %s lines %d..%d, extracted mechanically on this run (verbatim, file scope) */\n' % (it['region'], it['file'], lo + 1, hi)
                + '/*REGION-BEGIN*/\n' + out + '/*REGION-END*/\n')
    else:
        body = ('/* region %s of %s lines %d..%d, extracted mechanically on this run */\n' % (it['region'], it['file'], lo + 1, hi)
                + it['proto'] + '\n{\n' + it.get('prologue', '') + '\n/*REGION-BEGIN*/\n' + out + '/*REGION-END*/\n' + it.get('epilogue', '') + '\n}\n')
    dst = os.path.join(outdir, 'region_%s.c' % it['region'])
    with open(dst, 'w', encoding='latin-1') as f:
        f.write(body)
    return dst, hashlib.sha256(text.encode('latin-1')).hexdigest()[:16], (lo + 1, hi)


_inject_all_files = inject_all


def inject_all(items, repo, outdir, contracts_dir=None):
    mapping = {}
    plain = [it for it in items if 'region' not in it]
    if plain:
        mapping.update(_inject_all_files(plain, repo, outdir, contracts_dir))
    for it in items:
        if 'region' in it:
            dst, sha, span = extract_region(it, repo, outdir)
            mapping['region:' + it['region']] = dst
    return mapping
