#!/usr/bin/env python3
"""
Build (and cache by source hash) a native ASan static library of the REAL snapraid sources from /repo's current
working tree, used to link counterexample replays against the real code.  nativelib.get(repo, workdir) -> path.
"""
import os, hashlib, subprocess, glob
from concurrent.futures import ThreadPoolExecutor

SRCS = ['raid/raid.c', 'raid/check.c', 'raid/module.c', 'raid/tables.c', 'raid/int.c', 'raid/x86.c', 'raid/intz.c',
        'raid/x86z.c', 'raid/helper.c', 'raid/memory.c', 'raid/test.c', 'raid/tag.c', 'tommyds/tommy.c',
        'cmdline/snapraid.c', 'cmdline/io.c', 'cmdline/bw.c', 'cmdline/util.c', 'cmdline/stream.c', 'cmdline/support.c',
        'cmdline/elem.c', 'cmdline/state.c', 'cmdline/scan.c', 'cmdline/sync.c', 'cmdline/check.c', 'cmdline/dry.c',
        'cmdline/rehash.c', 'cmdline/scrub.c', 'cmdline/status.c', 'cmdline/dup.c', 'cmdline/list.c', 'cmdline/pool.c',
        'cmdline/parity.c', 'cmdline/handle.c', 'cmdline/touch.c', 'cmdline/device.c', 'cmdline/fnmatch.c',
        'cmdline/selftest.c', 'cmdline/speed.c', 'cmdline/import.c', 'cmdline/search.c', 'cmdline/unix.c']
CFLAGS = ['-g', '-O1', '-w', '-fsanitize=address', '-fno-omit-frame-pointer', '-DHAVE_CONFIG_H', '-D_FILE_OFFSET_BITS=64']


def tree_hash(repo):
    h = hashlib.sha256()
    files = []
    for pat in ('raid/*.[ch]', 'cmdline/*.[ch]', 'tommyds/*.[ch]', 'config.h'):
        files += glob.glob(os.path.join(repo, pat))
    for f in sorted(files):
        h.update(f.encode())
        h.update(open(f, 'rb').read())
    return h.hexdigest()[:16]


def get(repo, work):
    hh = tree_hash(repo)
    d = os.path.join(work, 'native', hh)
    lib = os.path.join(d, 'librepo.a')
    if os.path.exists(lib):
        return lib, ''
    os.makedirs(d, exist_ok=True)
    errs = []

    def cc(src):
        o = os.path.join(d, src.replace('/', '_')[:-2] + '.o')
        cmd = ['gcc'] + CFLAGS + ['-I' + repo, '-I' + repo + '/raid', '-I' + repo + '/cmdline', '-I' + repo + '/tommyds']
        if src == 'cmdline/snapraid.c':
            cmd.append('-Dmain=snapraid_main')
        cmd += ['-c', os.path.join(repo, src), '-o', o]
        p = subprocess.run(cmd, capture_output=True, text=True)
        if p.returncode != 0:
            errs.append(src + ': ' + p.stderr[-800:])
            return None
        return o
    with ThreadPoolExecutor(max_workers=16) as ex:
        objs = [o for o in ex.map(cc, SRCS) if o]
    if errs:
        return None, '\n'.join(errs)
    p = subprocess.run(['ar', 'rcs', lib] + objs, capture_output=True, text=True)
    if p.returncode != 0:
        return None, p.stderr
    return lib, ''


if __name__ == '__main__':
    import sys
    print(get(sys.argv[1] if len(sys.argv) > 1 else '/repo', '/verif/work'))
