#!/bin/sh
# tools/seedcheck.sh <seeded-id> [PROPERTY...]
# Run the quick checks against a scratch copy of /repo with one seeded change applied (nothing in /repo or /verif is
# touched; the scratch copy and its work directory live under a mktemp directory and are removed at the end).
# Without PROPERTY the property recorded in seeded/<id>/meta.json is used.  Exit status: that of the last check.
set -u
V=$(cd "$(dirname "$0")/.." && pwd)
R=${VERIF_REPO_SRC:-/repo}
id=$1; shift
[ -f "$V/seeded/$id/patch.diff" ] || { echo "no such seed: $id" >&2; exit 2; }
[ $# -gt 0 ] || set -- "$(python3 -c "import json,sys; print(json.load(open(sys.argv[1]))['property'])" "$V/seeded/$id/meta.json")"
T=$(mktemp -d /tmp/seedcheck.XXXXXX) || exit 2
trap 'rm -rf "$T"' EXIT
mkdir "$T/repo" "$T/work"
cp -a "$R/raid" "$R/cmdline" "$R/tommyds" "$R/config.h" "$T/repo/" || exit 2
(cd "$T/repo" && patch -p1 -s < "$V/seeded/$id/patch.diff") || { echo "patch does not apply" >&2; exit 2; }
rc=0
for p in "$@"; do
	VERIF_REPO="$T/repo" VERIF_WORK="$T/work" "$V/check" "$p" quick > "$T/out.log" 2>&1; rc=$?
	grep -E "VIOLATION|UNDECIDED|KNOWN-FINDING|units discharged" "$T/out.log"
done
exit $rc
