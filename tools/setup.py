#!/usr/bin/env python3
"""setup after a fresh restore: check the tools are there, keep a fallback of the repo's generated config.h"""
import shutil, subprocess, sys, os
ok = True
for t in ('cbmc', 'goto-cc', 'goto-instrument', 'kissat', 'gcc'):
    if not shutil.which(t):
        print('missing tool:', t)
        ok = False
print(subprocess.run(['cbmc', '--version'], capture_output=True, text=True).stdout.strip())
os.makedirs('/verif/work', exist_ok=True)
os.makedirs('/verif/evidence', exist_ok=True)
if not os.path.exists('/repo/config.h'):
    shutil.copy('/verif/tools/config.h.fallback', '/repo/config.h')
    print('restored /repo/config.h from the fallback copy')
sys.exit(0 if ok else 1)
