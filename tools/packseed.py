#!/usr/bin/env python3
"""package a confirmed seeded change: packseed.py <id> <property> <worktree> '<what it breaks>' '<needs>' '<caught by>' """
import sys, os, shutil, json, subprocess
sid, prop, wt, breaks, needs, caught = sys.argv[1:7]
dst = os.path.join('/verif/seeded', sid)
shutil.rmtree(dst, ignore_errors=True)
os.makedirs(dst)
demo = os.path.join(wt, 'demo')
for f in os.listdir(demo):
    p = os.path.join(demo, f)
    if os.path.isfile(p) and os.path.getsize(p) < 400000 and not f.endswith(('.o', '.bin')):
        shutil.copy(p, dst)
confirm = open(os.path.join(demo, 'CONFIRM.txt')).read() if os.path.exists(os.path.join(demo, 'CONFIRM.txt')) else ''
meta = dict(id=sid, property=prop, breaks=breaks, needs_to_manifest=needs, patch='patch.diff', demonstration='run.sh (see NOTES.md)',
            confirmed_in_scratch_worktree=confirm.strip().splitlines(),
            what_was_run=['cd <worktree with patch>; make -j4; make check  (exit 0, 18 split: lines)', 'sh demo/run.sh with the patch (non-zero) and with the patch stashed (0)',
                          'git -C /repo apply patch.diff; /verif/check %s quick; git -C /repo checkout -- .' % prop],
            caught_by=caught, source='independent sub-agent given only the property text and a scratch worktree')
json.dump(meta, open(os.path.join(dst, 'meta.json'), 'w'), indent=1)
print('packed', dst, os.listdir(dst))
