/*
 * Table-free specification of GF(2^8) with the primitive polynomial x^8+x^4+x^3+x^2+1 (0x11d).
 * No lookup table, no call into /repo. Loop-free (fully unrolled) so that cbmc needs no unwinding.
 */
#ifndef GF_SPEC_H
#define GF_SPEC_H
#include <stdint.h>

static inline uint8_t S_x2(uint8_t a)
{
	return (uint8_t)((uint8_t)(a << 1) ^ ((a & 0x80) ? 0x1d : 0));
}

/* carry-less multiply reduced modulo 0x11d (Russian-peasant, 8 fixed steps) */
static inline uint8_t S_mul(uint8_t a, uint8_t b)
{
	uint8_t r = 0;
	if (b & 1) r ^= a;
	a = S_x2(a);
	if (b & 2) r ^= a;
	a = S_x2(a);
	if (b & 4) r ^= a;
	a = S_x2(a);
	if (b & 8) r ^= a;
	a = S_x2(a);
	if (b & 16) r ^= a;
	a = S_x2(a);
	if (b & 32) r ^= a;
	a = S_x2(a);
	if (b & 64) r ^= a;
	a = S_x2(a);
	if (b & 128) r ^= a;
	return r;
}

/* 2^e for 0 <= e <= 254, loop with a concrete bound (callers pass concrete or small e) */
static inline uint8_t S_pow2(int e)
{
	uint8_t r = 1;
	int k;
	for (k = 0; k < e; ++k)
		r = S_x2(r);
	return r;
}

/* a^254 == 1/a (a != 0), square-and-multiply, loop-free */
static inline uint8_t S_inv(uint8_t a)
{
	uint8_t a2 = S_mul(a, a);
	uint8_t a4 = S_mul(a2, a2);
	uint8_t a8 = S_mul(a4, a4);
	uint8_t a16 = S_mul(a8, a8);
	uint8_t a32 = S_mul(a16, a16);
	uint8_t a64 = S_mul(a32, a32);
	uint8_t a128 = S_mul(a64, a64);
	/* 254 = 128+64+32+16+8+4+2 */
	return S_mul(a128, S_mul(a64, S_mul(a32, S_mul(a16, S_mul(a8, S_mul(a4, a2))))));
}

/*
 * Documented generator matrix (raid.c header comment, mktables.c set_cauchy):
 *  row 0: 1;  row 1: 2^i;  row j>=2: c_j / (x_i + y_j) with x_i = 2^-i, y_j = 2^(j-1),
 *  c_j chosen so that column 0 is 1, i.e. c_j = (1 + y_j).
 */
static inline uint8_t S_cauchy(int j, int i)
{
	uint8_t e = S_pow2(i);
	if (j == 0)
		return 1;
	if (j == 1)
		return e;
	{
		uint8_t y = (uint8_t)(1u << (j - 1));
		uint8_t x = S_inv(e);
		return S_mul(S_inv((uint8_t)(y ^ x)), (uint8_t)(y ^ 1));
	}
}

/* alternate triple parity: rows 1, 2^i, (2^-1)^i ; 2^-1 == 0x8e */
static inline uint8_t S_power(int j, int i)
{
	uint8_t e = S_pow2(i);
	if (j == 0)
		return 1;
	if (j == 1)
		return e;
	return S_inv(e);
}

#endif
