#!/usr/bin/env python3
"""crafted content file: an 'i' (info) record whose second run has count 0xFFFFFFFF at position 1.
The decoder tests `v_pos + v_count > blockmax` in 32 bits: 1 + 0xFFFFFFFF wraps to 0 and the run is accepted; the loop
`while (v_count) { info_set(&state->infoarr, v_pos, info); ++v_pos; --v_count; }` then runs four billion times growing the
info array (16 GiB) - the file is never reported as damaged.  usage: make_content.py > content"""
import struct, sys
def crc32c(data):
    crc = 0xffffffff
    for b in data:
        crc ^= b
        for _ in range(8):
            crc = (crc >> 1) ^ (0x82F63B78 & -(crc & 1) & 0xffffffff)
    return crc ^ 0xffffffff
def vb(v):
    out = bytearray()
    while True:
        b = v & 0x7f; v >>= 7
        if v: out.append(b)
        else:
            out.append(b | 0x80); break
    return bytes(out)
body = b"SNAPCNT3\n\x03\x00\x00"
body += b"z" + vb(1024)          # block size 1 KiB
body += b"x" + vb(4)             # 4 stripes
body += b"i" + vb(0)             # info record, oldest time 0
body += vb(1) + vb(0)            # run of 1 stripe without info
body += vb(0xFFFFFFFF) + vb(0)   # run of 2^32-1 stripes at position 1: 1 + 0xFFFFFFFF wraps to 0
body += b"N"
sys.stdout.buffer.write(body + struct.pack('<I', crc32c(body)))
