#!/bin/sh
# usage: run.sh [path to snapraid binary]    exit 1 = the damaged file is not rejected promptly, 0 = rejected at once
SNAPRAID=${1:-/repo/snapraid}
W=$(mktemp -d /tmp/c09run.XXXXXX)
mkdir -p $W/d1 $W/p
python3 $(dirname $0)/make_content.py > $W/content
{ echo "parity $W/p/parity"; echo "content $W/content"; echo "data d1 $W/d1/"; echo "blocksize 1"; } > $W/s.conf
( ulimit -v 3000000; timeout 20 $SNAPRAID -c $W/s.conf --test-skip-device status > $W/out.log 2>&1; echo "exit=$?" >> $W/out.log )
tail -4 $W/out.log
if grep -q "Info size" $W/out.log; then r=0; else r=1; fi
rm -rf $W
exit $r
