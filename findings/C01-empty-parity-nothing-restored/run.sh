#!/bin/sh
# usage: sh run.sh <path to snapraid binary>
# An array whose recorded entries are only zero-size files, symlinks and empty directories has an empty parity
# (blockmax == 0).  After losing them, `fix` must recreate them (C01).  exit 1 = not restored, 0 = restored.
S=${1:-/repo/snapraid}
D=$(mktemp -d /tmp/c01z.XXXXXX) || exit 2
trap 'rm -rf "$D"' EXIT
cd "$D" || exit 2
mkdir d1 d2 p
cat > conf <<EOT
parity $D/p/parity
content $D/d1/content
content $D/d2/content
data d1 $D/d1
data d2 $D/d2
blocksize 1
EOT
: > d1/empty; ln -s target d1/link; mkdir d1/emptydir; : > d2/e2
"$S" -c conf --test-skip-device sync > sync.log 2>&1 || { echo "sync failed"; cat sync.log; exit 2; }
rm d1/empty d1/link; rmdir d1/emptydir
"$S" -c conf --test-skip-device fix > fix.log 2>&1; echo "fix rc=$?"
bad=0
[ -f d1/empty ] || { echo "NOT RESTORED: d1/empty"; bad=1; }
[ -L d1/link ] && [ "$(readlink d1/link)" = target ] || { echo "NOT RESTORED: d1/link"; bad=1; }
[ -d d1/emptydir ] || { echo "NOT RESTORED: d1/emptydir"; bad=1; }
"$S" -c conf --test-skip-device check > check.log 2>&1; echo "check rc=$?"
exit $bad
