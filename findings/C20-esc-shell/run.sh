#!/bin/bash
# `snapraid list` prints a file whose name contains a newline on two lines (esc_shell leaves TAB / NEWLINE unquoted)
SNAP=${1:-/repo/snapraid}
D=$(mktemp -d /tmp/c20demo.XXXXXX); cd "$D" || exit 2
mkdir -p d1 p
printf 'x' > "d1/a
b"; printf 'y' > "d1/c	d"
printf 'parity %s/p/parity\ncontent %s/content\ncontent %s/d1/content\ndisk d1 %s/d1\n' "$D" "$D" "$D" "$D" > s.conf
$SNAP --test-skip-device -c s.conf sync >/dev/null 2>&1
$SNAP --test-skip-device -c s.conf list 2>/dev/null | cat -A | sed -n '/Listing/,$p'
rm -rf "$D"
