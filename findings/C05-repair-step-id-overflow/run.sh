#!/bin/sh
# Demonstration against the REAL code: `snapraid check` on an array of 8 data disks + 1 parity where 7 disks lost their
# file in the same stripes.  repair() hands repair_step() 7 failed blocks; repair_step() copies their indexes into
# `int id[LEV_MAX]` (6 entries) BEFORE looking at the number of parities: a stack buffer overflow (AddressSanitizer:
# stack-buffer-overflow WRITE of size 4 in repair_step, cmdline/check.c "id[i] = failed[failed_map[i]].index").
# usage: run.sh [repo]   exit 1 = overflow reported by ASan, 0 = clean
REPO=${1:-/repo}
W=$(mktemp -d /tmp/c05ovf.XXXXXX)
LIB=$(python3 /verif/tools/nativelib.py "$REPO" | sed "s/^('//; s/',.*//")
echo 'int snapraid_main(int, char**); int main(int c, char** v) { return snapraid_main(c, v); }' > $W/m.c
gcc -fsanitize=address -g $W/m.c "$LIB" -lpthread -lm -lblkid -o $W/snapraid_asan || exit 2
for i in 1 2 3 4 5 6 7 8; do mkdir -p $W/d$i; head -c 3000 /dev/urandom > $W/d$i/f$i; done
mkdir $W/p $W/c
{ echo "parity $W/p/parity"; echo "content $W/c/content"; echo "content $W/d1/content";
  for i in 1 2 3 4 5 6 7 8; do echo "data d$i $W/d$i/"; done; echo "blocksize 1"; } > $W/s.conf
$W/snapraid_asan -c $W/s.conf --test-skip-device -q sync > $W/sync.log 2>&1 || { echo "sync failed"; exit 2; }
for i in 2 3 4 5 6 7 8; do rm $W/d$i/f$i; done
$W/snapraid_asan -c $W/s.conf --test-skip-device check > $W/check.log 2>&1
echo "check exit status: $?"
if grep -q "AddressSanitizer: stack-buffer-overflow" $W/check.log; then
	grep -A4 "ERROR: AddressSanitizer" $W/check.log
	rm -rf $W
	exit 1
fi
tail -4 $W/check.log
rm -rf $W
exit 0
