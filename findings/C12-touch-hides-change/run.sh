#!/bin/sh
# `snapraid touch` on a file whose RECORDED nanoseconds are zero but that was rewritten since the last sync (same size, same
# second, non-zero nanoseconds on disk): touch gives the file and its record the same fresh nanoseconds, so the change that
# `diff` reported before ("update f") is hidden: diff says "No differences", sync "Nothing to do", check finds a data error.
# usage: run.sh [snapraid binary]    exit 1 = the change is hidden by touch, 0 = it is still reported
SNAPRAID=${1:-/repo/snapraid}
W=$(mktemp -d /tmp/c12touch.XXXXXX)
mkdir -p $W/d1 $W/p $W/c
printf 'AAAAAAAAAA' > $W/d1/f; touch -d "2020-01-02 03:04:05.000000000" $W/d1/f
head -c 3000 /dev/urandom > $W/d1/g
{ echo "parity $W/p/parity"; echo "content $W/c/content"; echo "content $W/d1/content"; echo "data d1 $W/d1/"; echo "blocksize 1"; } > $W/s.conf
S="$SNAPRAID -c $W/s.conf --test-skip-device"
$S -q sync > /dev/null 2>&1 || { echo "sync failed"; rm -rf $W; exit 2; }
printf 'BBBBBBBBBB' > $W/d1/f; touch -d "2020-01-02 03:04:05.500000000" $W/d1/f
$S diff > $W/diff1.log 2>&1; echo "diff before touch: exit $? ($(grep -c '^update f' $W/diff1.log) update line)"
before=$(stat -c %y $W/d1/f)
$S touch > $W/touch.log 2>&1
after=$(stat -c %y $W/d1/f)
echo "file time before touch: $before"; echo "file time after  touch: $after"
$S diff > $W/diff2.log 2>&1; rc=$?
echo "diff after touch: exit $rc ($(tail -1 $W/diff2.log))"
rm -rf $W
[ $rc -eq 2 ] && [ "$before" = "$after" ] && exit 0
exit 1
