#define _GNU_SOURCE
#include <dlfcn.h>
#include <errno.h>
#include <stdio.h>
#include <stdlib.h>
#include <string.h>
#include <unistd.h>
/* fail the K-th pwrite on the parity file with EIO (K from env FAIL_AT; parity fd recognised through /proc/self/fd) */
static int count;
ssize_t pwrite(int fd, const void *buf, size_t n, off_t off)
{
	static ssize_t (*real)(int, const void *, size_t, off_t);
	char link[64], path[512];
	ssize_t l;
	if (!real)
		real = dlsym(RTLD_NEXT, "pwrite");
	snprintf(link, sizeof(link), "/proc/self/fd/%d", fd);
	l = readlink(link, path, sizeof(path) - 1);
	if (l > 0) {
		path[l] = 0;
		if (strstr(path, "/p/parity")) {
			const char *k = getenv("FAIL_AT");
			if (k && ++count == atoi(k)) {
				fprintf(stderr, "[shim] pwrite(parity, off=%ld) -> EIO\n", (long)off);
				errno = EIO;
				return -1;
			}
		}
	}
	return real(fd, buf, n, off);
}
ssize_t pwrite64(int fd, const void *buf, size_t n, off_t off) { return pwrite(fd, buf, n, off); }
