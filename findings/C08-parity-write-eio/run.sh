#!/bin/bash
# Fault-injection demonstration for the C08 findings (known_findings.txt): pwrite() on the parity file fails with EIO.
#   usage: run.sh [/path/to/snapraid] [io-cache option, e.g. --test-io-cache=1 or empty for the threaded default]
HERE=$(cd "$(dirname "$0")" && pwd); SNAP=${1:-/repo/snapraid}; MODE=${2:-}
D=$(mktemp -d /tmp/c08demo.XXXXXX); cd "$D" || exit 2
mkdir -p d1 d2 p c
sed "s#/tmp/c08#$D#g" "$HERE/s.conf" > s.conf
sed "s#/p/parity#/p/parity#" "$HERE/shim.c" > shim.c; gcc -shared -fPIC -o shim.so shim.c -ldl || exit 2
head -c 8192 /dev/urandom > d1/a.bin; head -c 8192 /dev/urandom > d2/b.bin
FAIL_AT=3 LD_PRELOAD=$D/shim.so $SNAP --test-skip-device $MODE -c s.conf sync > sync.out 2>&1; echo "sync exit status: $?"
grep -iE "shim|io errors|danger|Everything OK" sync.out
echo "--- status:"; $SNAP --test-skip-device -c s.conf status 2>&1 | grep -iE "bad|danger|No error"
echo "--- check:"; $SNAP --test-skip-device -c s.conf check > check.out 2>&1; echo "check exit status: $?"; grep -iE " errors|Everything" check.out
rm -rf "$D"
