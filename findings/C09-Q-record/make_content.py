#!/usr/bin/env python3
"""crafted content file for the (fixed) 'Q' record defect: `snapraid -C <file>` with more than SPLIT_MAX splits and a valid CRC.
Before commit dd4fbbc: out-of-bounds writes into state->parity[].split_map[] (ASan: SEGV in pathcpy, state.c:2792 with 400 splits)."""
import struct, sys
def crc32c(data):
    crc = 0xffffffff
    for b in data:
        crc ^= b
        for _ in range(8):
            crc = (crc >> 1) ^ (0x82F63B78 & -(crc & 1) & 0xffffffff)
    return crc ^ 0xffffffff
def vb(v):
    out = bytearray()
    while True:
        b = v & 0x7f; v >>= 7
        if v: out.append(b)
        else:
            out.append(b | 0x80); break
    return bytes(out)
def bs(s): return vb(len(s)) + s
n = int(sys.argv[1]) if len(sys.argv) > 1 else 400
body = b"SNAPCNT3\n\x03\x00\x00" + b"Q" + vb(0) + vb(0) + vb(0) + vb(n)
for i in range(n):
    body += bs(b"/tmp/qdemo/A%d" % i) + bs(b"uuid-B") + vb(0)
body += b"N"
sys.stdout.buffer.write(body + struct.pack('<I', crc32c(body)))
