int snapraid_main(int argc, char **argv);
int main(int argc, char **argv) { return snapraid_main(argc, argv); }
