/*
 * status (cmdline/status.c): the per-stripe summary loop of state_status, extracted mechanically - what `status` reports
 * about bad / unsynced / not yet scrubbed / to-be-rehashed stripes (C20; C04: "so that status lists them").
 *   bad = number of stripes whose info word carries the bad mark, bad_first / bad_last = lowest / highest such position;
 *   unsynced = stripes holding a file block AND a block without valid parity; rehash / unscrubbed = marked stripes;
 *   count = stripes with an info word, whose scrub times fill the time map in order.
 * Bounded: NP stripes, ND disks.
 */
#include "portable.h"
#include "support.h"
#include "elem.h"
#include "state.h"
#include "verif.h"

#define NP 4
#define ND 2
#ifndef TIME_NEW
#define TIME_NEW 1
#endif

struct verif_in {
	block_off_t blockmax;
	snapraid_info info[NP];
	unsigned st0[NP], st1[NP];
	int gui;
};
VERIF_DECLARE_IN

#ifdef VERIF_CBMC
void log_tag(const char *format, ...) { (void)format; }
void log_fatal(const char *format, ...) { (void)format; }
void log_flush(void) { }
void *malloc_nofail(size_t size) { void *q = malloc(size); __CPROVER_assume(q != 0); return q; }
#endif

static struct snapraid_disk D0, D1;
static unsigned char B0[NP * 64], B1[NP * 64];

static snapraid_info s_info_get(tommy_arrayblkof *a, block_off_t pos) { (void)a; VERIF_ASSERT(pos < NP, "info looked up inside the array"); return IN.info[pos]; }
static struct snapraid_block *s_find(struct snapraid_disk *disk, block_off_t pos)
{
	unsigned s;
	VERIF_ASSERT(pos < NP, "block looked up inside the array");
	s = disk == &D0 ? IN.st0[pos] : IN.st1[pos];
	return s ? (struct snapraid_block *)((disk == &D0 ? B0 : B1) + pos * 64) : BLOCK_NULL;
}

#define info_get s_info_get
#define fs_par2block_find s_find
#include "region_status_loop.c"
#undef info_get
#undef fs_par2block_find

void h_status_loop(void)
{
	static struct snapraid_state ST;
	unsigned bad = 99, rehash = 99, unsynced = 99, unscrubbed = 99, count = 99, p;
	block_off_t bad_first = 99, bad_last = 99;
	unsigned e_bad = 0, e_rehash = 0, e_unsynced = 0, e_unscrubbed = 0, e_count = 0;
	block_off_t e_first = 0, e_last = 0;
	time_t *timemap = 0;
	VERIF_INPUTS();
	VERIF_ASSUME(IN.blockmax >= 1 && IN.blockmax <= NP);
	ST.opt.gui = IN.gui != 0;
	tommy_list_init(&ST.disklist);
	tommy_list_insert_tail(&ST.disklist, &D0.node, &D0);
	tommy_list_insert_tail(&ST.disklist, &D1.node, &D1);
	for (p = 0; p < NP; ++p) {
		VERIF_ASSUME(IN.st0[p] == 0 || IN.st0[p] == BLOCK_STATE_BLK || IN.st0[p] == BLOCK_STATE_CHG || IN.st0[p] == BLOCK_STATE_REP || IN.st0[p] == BLOCK_STATE_DELETED);
		VERIF_ASSUME(IN.st1[p] == 0 || IN.st1[p] == BLOCK_STATE_BLK || IN.st1[p] == BLOCK_STATE_CHG || IN.st1[p] == BLOCK_STATE_REP || IN.st1[p] == BLOCK_STATE_DELETED);
		if (IN.st0[p])
			block_state_set((struct snapraid_block *)(B0 + p * 64), IN.st0[p]);
		if (IN.st1[p])
			block_state_set((struct snapraid_block *)(B1 + p * 64), IN.st1[p]);
		if (p < IN.blockmax) {
			int has_file = IN.st0[p] == BLOCK_STATE_BLK || IN.st0[p] == BLOCK_STATE_CHG || IN.st0[p] == BLOCK_STATE_REP || IN.st1[p] == BLOCK_STATE_BLK || IN.st1[p] == BLOCK_STATE_CHG || IN.st1[p] == BLOCK_STATE_REP;
			int has_inv = IN.st0[p] == BLOCK_STATE_DELETED || IN.st0[p] == BLOCK_STATE_CHG || IN.st0[p] == BLOCK_STATE_REP || IN.st1[p] == BLOCK_STATE_DELETED || IN.st1[p] == BLOCK_STATE_CHG || IN.st1[p] == BLOCK_STATE_REP;
			if (has_file && has_inv)
				++e_unsynced;
			if (IN.info[p] != 0) {
				++e_count;
				if (info_get_bad(IN.info[p])) {
					if (e_bad == 0)
						e_first = p;
					e_last = p;
					++e_bad;
				}
				if (info_get_rehash(IN.info[p]))
					++e_rehash;
				if (info_get_justsynced(IN.info[p]))
					++e_unscrubbed;
			}
		}
	}

	region_status_loop(&ST, IN.blockmax, &timemap, &bad, &bad_first, &bad_last, &count, &rehash, &unsynced, &unscrubbed);

	VERIF_ASSERT(bad == e_bad, "status counts exactly the stripes marked bad");
	if (e_bad)
		VERIF_ASSERT(bad_first == e_first && bad_last == e_last, "and reports the lowest and the highest bad position");
	VERIF_ASSERT(unsynced == e_unsynced, "status counts as unsynced exactly the stripes holding a file block and a block without valid parity");
	VERIF_ASSERT(rehash == e_rehash && unscrubbed == e_unscrubbed && count == e_count, "rehash / not-yet-scrubbed / used stripe counts are exact");
	VERIF_CANARY();
}

#include "verif_tail.h"
