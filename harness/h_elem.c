/*
 * Block layout of a file (cmdline/elem.c file_block_size / file_block_is_last, blockmax rule of file_alloc), REAL code.
 *   for every size and position pos < blockmax = ceil(size / block_size):
 *     block pos covers bytes [pos*bs, pos*bs + file_block_size) of the file, the sizes add up to the file size,
 *     only the last block may be short and it is never empty (for size > 0)
 */
#include "portable.h"
#include "support.h"
#include "elem.h"
#include "state.h"
#include "verif.h"

#ifndef BLOCK_SHIFT
#define BLOCK_SHIFT 10
#endif

struct verif_in {
	data_off_t size;
	block_off_t pos;
	/* file_copy */
	block_off_t blockmax;
	int hash_size;
	unsigned char srchash[3 * 16], dsthash[3 * 16];
	unsigned srcstate[3], dststate[3];
	unsigned dstflag;
};
VERIF_DECLARE_IN

#ifdef VERIF_CBMC
void log_fatal(const char *format, ...) { (void)format; }
static int g_abort_expected;
void os_abort(void) { VERIF_ASSERT(g_abort_expected, "os_abort() unreachable"); __CPROVER_assume(0); }
#endif

#include "elem.c"

void h_file_block_size(void)
{
	static struct snapraid_file F;
	const unsigned bs = 1u << BLOCK_SHIFT;
	unsigned r;
	data_off_t begin, end;
	VERIF_INPUTS();
	/* positions are 32-bit block numbers (block_off_t): a file cannot have more than 2^32-2 blocks */
	VERIF_ASSUME(IN.size >= 0 && IN.size <= ((data_off_t)0xfffffffeu << BLOCK_SHIFT));
	F.size = IN.size;
	F.blockmax = (IN.size + bs - 1) / bs; /* file_alloc's rule, restated */
	VERIF_ASSUME(IN.pos < F.blockmax);
	r = file_block_size(&F, IN.pos, bs);
	begin = (data_off_t)IN.pos * bs;
	end = begin + bs < IN.size ? begin + bs : IN.size;
	VERIF_ASSERT(begin + (data_off_t)r == end, "file_block_size: block pos covers bytes [pos*bs, min(size, (pos+1)*bs))");
	VERIF_ASSERT(r >= 1 && r <= bs, "file_block_size: no empty and no oversized block");
	VERIF_ASSERT(file_block_is_last(&F, IN.pos) == (end == IN.size), "file_block_is_last iff the block ends the file");
	VERIF_CANARY();
}

/*
 * fs_file2block_get is the guard every record decoder of the content file goes through before touching the block
 * vector of a file (e.g. the block runs of an 'f' record whose index arithmetic wraps at 2^32): it returns only for
 * positions inside the vector, otherwise the process stops.
 */
void h_file2block_guard(void)
{
	static struct snapraid_file F;
	static unsigned char vec[4 * (sizeof(struct snapraid_block) + HASH_MAX)];
	struct snapraid_block *b;
	VERIF_INPUTS();
	BLOCK_HASH_SIZE = 16;
	F.blockmax = (block_off_t)(IN.size & 0xffffffffu);
	F.blockvec = (struct snapraid_block *)vec;
	F.sub = "f";
	g_abort_expected = 1;
#ifdef VERIF_NATIVE
	exit(77);
#endif
	b = fs_file2block_get(&F, IN.pos);
	VERIF_ASSERT(IN.pos < F.blockmax, "fs_file2block_get returns only for a position inside the file's block vector");
	VERIF_ASSERT((unsigned char *)b == vec + (size_t)IN.pos * block_sizeof(), "fs_file2block_get returns the block at that position");
	VERIF_CANARY();
}


/*
 * file_copy (copy detection, C19): the destination inherits the hashes of the source ONLY provisionally - every block of
 * the destination becomes REP (hash known, parity NOT valid: sync will read and hash the data before recording the stripe),
 * never BLK, with the hash of the same-numbered source block; the file is flagged as a copy.  Bounded: <= 3 blocks.
 */
void h_file_copy(void)
{
	static struct snapraid_file S, D;
	static unsigned char SV[3 * 64], DV[3 * 64];
	block_off_t i;
	int k;
	VERIF_INPUTS();
	VERIF_ASSUME(IN.blockmax <= 3);
#ifndef HASH_SZ
#define HASH_SZ 16
#endif
	VERIF_ASSUME(IN.hash_size == HASH_SZ); /* concrete per obligation: a memcpy of symbolic length is out of reach */
	BLOCK_HASH_SIZE = HASH_SZ;
	VERIF_ASSUME(sizeof(struct snapraid_block) + 16 <= 64);
	S.size = D.size = IN.size;
	S.mtime_sec = D.mtime_sec = 5;
	S.mtime_nsec = D.mtime_nsec = 7;
	S.blockmax = D.blockmax = IN.blockmax;
	S.blockvec = (struct snapraid_block *)SV;
	D.blockvec = (struct snapraid_block *)DV;
	D.flag = IN.dstflag & ~FILE_IS_COPY;
	for (i = 0; i < 3; ++i) {
		VERIF_ASSUME(IN.srcstate[i] == BLOCK_STATE_BLK || IN.srcstate[i] == BLOCK_STATE_REP);
		block_state_set(file_block(&S, i), IN.srcstate[i]);
		block_state_set(file_block(&D, i), IN.dststate[i] & 7);
		for (k = 0; k < 16; ++k) {
			file_block(&S, i)->hash[k] = IN.srchash[i * 16 + k];
			file_block(&D, i)->hash[k] = IN.dsthash[i * 16 + k];
		}
	}
	file_copy(&S, &D);
	for (i = 0; i < 3; ++i)
		if (i < IN.blockmax) {
			VERIF_ASSERT(block_state_get(file_block(&D, i)) == BLOCK_STATE_REP, "an inherited hash is provisional: the block is REP (parity not valid), never BLK");
			for (k = 0; k < 16; ++k)
				if (k < IN.hash_size)
					VERIF_ASSERT(file_block(&D, i)->hash[k] == IN.srchash[i * 16 + k], "block i inherits the hash of block i of the source");
			VERIF_ASSERT(block_state_get(file_block(&S, i)) == IN.srcstate[i], "the source is left alone");
		}
	VERIF_ASSERT(D.flag == ((IN.dstflag & ~FILE_IS_COPY) | FILE_IS_COPY), "the destination is flagged as a copy");
	VERIF_CANARY();
}

#include "verif_tail.h"
