/*
 * Block layout of a file (cmdline/elem.c file_block_size / file_block_is_last, blockmax rule of file_alloc), REAL code.
 *   for every size and position pos < blockmax = ceil(size / block_size):
 *     block pos covers bytes [pos*bs, pos*bs + file_block_size) of the file, the sizes add up to the file size,
 *     only the last block may be short and it is never empty (for size > 0)
 */
#include "portable.h"
#include "support.h"
#include "elem.h"
#include "state.h"
#include "verif.h"

#ifndef BLOCK_SHIFT
#define BLOCK_SHIFT 10
#endif

struct verif_in {
	data_off_t size;
	block_off_t pos;
};
VERIF_DECLARE_IN

#ifdef VERIF_CBMC
void log_fatal(const char *format, ...) { (void)format; }
void os_abort(void) { VERIF_ASSERT(0, "os_abort() unreachable"); __CPROVER_assume(0); }
#endif

#include "elem.c"

void h_file_block_size(void)
{
	static struct snapraid_file F;
	const unsigned bs = 1u << BLOCK_SHIFT;
	unsigned r;
	data_off_t begin, end;
	VERIF_INPUTS();
	/* positions are 32-bit block numbers (block_off_t): a file cannot have more than 2^32-2 blocks */
	VERIF_ASSUME(IN.size >= 0 && IN.size <= ((data_off_t)0xfffffffeu << BLOCK_SHIFT));
	F.size = IN.size;
	F.blockmax = (IN.size + bs - 1) / bs; /* file_alloc's rule, restated */
	VERIF_ASSUME(IN.pos < F.blockmax);
	r = file_block_size(&F, IN.pos, bs);
	begin = (data_off_t)IN.pos * bs;
	end = begin + bs < IN.size ? begin + bs : IN.size;
	VERIF_ASSERT(begin + (data_off_t)r == end, "file_block_size: block pos covers bytes [pos*bs, min(size, (pos+1)*bs))");
	VERIF_ASSERT(r >= 1 && r <= bs, "file_block_size: no empty and no oversized block");
	VERIF_ASSERT(file_block_is_last(&F, IN.pos) == (end == IN.size), "file_block_is_last iff the block ends the file");
	VERIF_CANARY();
}

#include "verif_tail.h"
