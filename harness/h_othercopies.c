/*
 * state_read (cmdline/state.c): after the first usable content copy was opened, the REMAINING copies are examined; a copy that
 * is missing or has another size than the one being loaded must make the command rewrite every copy (state->need_write), so
 * that "after a successful command all content copies are identical" (C09) also holds after the loss or truncation of a
 * secondary copy.  Region "go further to check other content files", extracted mechanically; stat by recording stub.
 *   - every remaining copy is examined, each by ITS OWN path
 *   - need_write is raised iff one of them is missing or differs in size from the loaded one (and is never lowered)
 *   - any other stat error stops the command
 * Bounded: 2 remaining copies.
 */
#include "portable.h"
#include "support.h"
#include "elem.h"
#include "state.h"
#include "verif.h"

#define NC 2
struct verif_in {
	unsigned n;
	int stat_ret[NC], stat_enoent[NC];
	int64_t size[NC], loaded_size;
	int need_write_before;
};
VERIF_DECLARE_IN

#ifdef VERIF_CBMC
int exit_success = 0, exit_failure = 1, exit_sync_needed = 2;
void log_fatal(const char *format, ...) { (void)format; }
#endif

static unsigned g_stat[NC], g_other;
static int v_stat(const char *path, struct stat *st)
{
	unsigned k;
	/* the copies are named "1" and "2"; the loaded one "0" */
	if (path[0] == '1' || path[0] == '2') {
		k = (unsigned)(path[0] - '1');
		++g_stat[k];
		if (IN.stat_ret[k]) { errno = IN.stat_enoent[k] ? ENOENT : EACCES; return -1; }
		st->st_size = IN.size[k];
		return 0;
	}
	++g_other;
	st->st_size = IN.loaded_size;
	return 0;
}
static void v_pathcpy(char *dst, size_t size, const char *src) { VERIF_ASSERT(size >= 2, "path buffer"); dst[0] = src[0]; dst[1] = 0; }
static int g_fatal_due;
static void v_exit(int code)
{
	(void)code;
	VERIF_ASSERT(g_fatal_due, "the command stops only for a stat error other than a missing file");
#ifdef VERIF_NATIVE
	printf("VERIF-REACHED-END\n");
	exit(0);
#else
	__CPROVER_assume(0);
#endif
}

#define stat(p, s) v_stat(p, s)
#define pathcpy v_pathcpy
#define exit v_exit
#include "region_other_copies.c"
#undef stat
#undef pathcpy
#undef exit

void h_other_copies(void)
{
	static struct snapraid_state ST;
	static struct snapraid_content C1, C2;
	static tommy_list L;
	struct stat st;
	unsigned k;
	int want = 0;
	VERIF_INPUTS();
	VERIF_ASSUME(IN.n <= NC);
	C1.content[0] = '1'; C1.content[1] = 0;
	C2.content[0] = '2'; C2.content[1] = 0;
	tommy_list_init(&L);
	if (IN.n >= 1) tommy_list_insert_tail(&L, &C1.node, &C1);
	if (IN.n >= 2) tommy_list_insert_tail(&L, &C2.node, &C2);
	st.st_size = IN.loaded_size;
	ST.need_write = IN.need_write_before != 0;
	g_fatal_due = 0;
	for (k = 0; k < NC; ++k) {
		g_stat[k] = 0;
		if (k < IN.n) {
			if (IN.stat_ret[k] && !IN.stat_enoent[k])
				g_fatal_due = 1;
			if (IN.stat_ret[k] || IN.size[k] != IN.loaded_size)
				want = 1;
		}
	}
	g_other = 0;
	region_other_copies(&ST, tommy_list_head(&L), "0", &st);
	VERIF_ASSERT(!g_fatal_due, "a stat error other than a missing file stops the command");
	for (k = 0; k < NC; ++k)
		VERIF_ASSERT(g_stat[k] == (k < IN.n ? 1u : 0u), "every remaining content copy is examined once, by its own path");
	VERIF_ASSERT(g_other == 0, "no other file is examined in their place");
	VERIF_ASSERT(!(IN.need_write_before != 0 || want) || ST.need_write, "all the copies are rewritten when a remaining copy is missing or has another size than the loaded one (and a rewrite already asked for is not cancelled)");
	VERIF_CANARY();
}

#include "verif_tail.h"
