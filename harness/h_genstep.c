/*
 * Inner loop body of the table driven generators raid_gen3..6_int8 (raid/int.c), mechanically extracted regions:
 * for EVERY disk index d in 1..250, data byte and accumulator state, one step adds A[j][d] (x) D to accumulator j -
 * stated with the multiplication and coefficient written as raid_gfmul[D][raid_gfcauchy[j][d]] (== A[j][d] (x) D by
 * lemmas TAB-MUL and TAB-CAUCHY, discharged in the same check). Together with the whole-function obligations at
 * nd <= 5 (loop structure, first disk, stores, frame) this extends the coefficient/index part of the contract to every
 * nd <= 251; the induction over the loop itself is argued, not machine checked.
 */
#include "internal.h"
#include "gf.h"
#include "verif.h"

#ifndef STEP_NP
#define STEP_NP 6
#endif

struct verif_in {
	int d;
	uint8_t x, acc[6];
};
VERIF_DECLARE_IN

#include "region_genstep.c"

void h_genstep(void)
{
	static uint8_t cell[1];
	uint8_t *v[RAID_DATA_MAX];
	uint8_t a[6];
	int k;
	VERIF_INPUTS();
	VERIF_ASSUME(IN.d >= 1 && IN.d <= 250);
	cell[0] = IN.x;
	for (k = 0; k < RAID_DATA_MAX; ++k)
		v[k] = cell;
	for (k = 0; k < 6; ++k)
		a[k] = IN.acc[k];
	raid_mode(RAID_MODE_CAUCHY);
	region_genstep(v, IN.d, 0, &a[0], &a[1], &a[2], &a[3], &a[4], &a[5]);
	VERIF_ASSERT(a[0] == (uint8_t)(IN.acc[0] ^ IN.x), "GEN-STEP P += D");
	for (k = 1; k < 6; ++k)
		if (k < STEP_NP)
			VERIF_ASSERT(a[k] == (uint8_t)(IN.acc[k] ^ raid_gfmul[IN.x][raid_gfcauchy[k][IN.d]]), "GEN-STEP parity j += A[j][d]*D for every disk index d");
		else
			VERIF_ASSERT(a[k] == IN.acc[k], "GEN-STEP other accumulators untouched");
	VERIF_CANARY();
}

#include "verif_tail.h"
