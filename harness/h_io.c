/*
 * Accounting of parity WRITE errors in the single-threaded I/O path (cmdline/io.c io_parity_write_mono /
 * io_write_next_mono, REAL code included below) - the sequential half of C08:
 *   when the writer function of a parity level ends in an error state (I/O error with continuation, plain error, fatal
 *   I/O error, fatal error), the next io_write_next() must report it (writer_error[state - IO_WRITER_ERROR_BASE] >= 1),
 *   because that report is the ONLY way the sync loop learns that a parity block was not written.
 * The threaded path (worker threads, errors collected one stripe later) is outside contract-based verification.
 */
#include "portable.h"
#include "support.h"
#include "elem.h"
#include "state.h"
#include "parity.h"
#include "handle.h"
#include "io.h"
#include "verif.h"

struct verif_in {
	int wstate[2];     /* what the writer function of level 0 / 1 reports */
	int ready[2];      /* whether a write was scheduled for that level */
	/* io_writer_step */
	int ws_state, ws_done;
	unsigned ws_index, ws_writer_index;
	int ws_before[4];
};
VERIF_DECLARE_IN

#include "cmdline/io.c"

static void writer_stub(struct snapraid_worker *worker, struct snapraid_task *task)
{
	task->state = IN.wstate[worker == &worker->io->writer_map[0] ? 0 : 1];
}

void h_io_mono_writer(void)
{
	static struct snapraid_io io;
	static struct snapraid_worker W[2];
	int writer_error[IO_WRITER_ERROR_MAX];
	unsigned pos, waiting_map[4], waiting_mac, l, k;
	VERIF_INPUTS();
	for (l = 0; l < 2; ++l) {
		VERIF_ASSUME(IN.wstate[l] == TASK_STATE_DONE || IN.wstate[l] == TASK_STATE_IOERROR_CONTINUE || IN.wstate[l] == TASK_STATE_ERROR_CONTINUE
			|| IN.wstate[l] == TASK_STATE_IOERROR || IN.wstate[l] == TASK_STATE_ERROR);
		W[l].io = &io;
		W[l].func = writer_stub;
		W[l].task_map[0].state = IN.ready[l] ? TASK_STATE_READY : TASK_STATE_EMPTY;
	}
	io.writer_map = W;
	io.writer_max = 2;
	io.writer_index = 0;
	for (k = 0; k < IO_WRITER_ERROR_MAX; ++k)
		io.writer_error[k] = 0;
	/* one stripe: the parity of both levels is written, then the loop asks for the errors (as state_sync_process does) */
	io_parity_write_mono(&io, &pos, waiting_map, &waiting_mac);
	io_parity_write_mono(&io, &pos, waiting_map, &waiting_mac);
	io_write_next_mono(&io, 0, 0, writer_error);
	for (l = 0; l < 2; ++l)
		if (IN.ready[l] && IN.wstate[l] != TASK_STATE_DONE)
			VERIF_ASSERT(writer_error[IN.wstate[l] - IO_WRITER_ERROR_BASE] >= 1, "a parity write that ended in an error state is reported by the next io_write_next (single-threaded path)");
	if ((!IN.ready[0] || IN.wstate[0] == TASK_STATE_DONE) && (!IN.ready[1] || IN.wstate[1] == TASK_STATE_DONE))
		for (k = 0; k < IO_WRITER_ERROR_MAX; ++k)
			VERIF_ASSERT(writer_error[k] == 0, "no error is reported when every parity write succeeded");
	VERIF_CANARY();
}

/*
 * The threaded path, one call at a time (io_writer_step, REAL code above): the state a parity writer thread ended its task with
 * is counted under the io mutex - every one of the four error states in its own counter, nothing for a completed task - before
 * the thread takes the next scheduled task (or stops when told so).  These counters are the ONLY way state_sync_process learns
 * that a parity block was not written.  Sequential semantics only: the mutex / condition functions are stubs, a wait ends with
 * the "done" event; the interleaving of the threads is outside contract-based verification.
 */
#ifdef VERIF_CBMC
static struct snapraid_io *g_wait_io;
static int g_locked;
void thread_mutex_lock(thread_mutex_t *mutex) { (void)mutex; ++g_locked; }
void thread_mutex_unlock(thread_mutex_t *mutex) { (void)mutex; --g_locked; }
void thread_cond_signal_and_unlock(thread_cond_t *cond, thread_mutex_t *mutex) { (void)cond; (void)mutex; --g_locked; }
void thread_cond_wait(thread_cond_t *cond, thread_mutex_t *mutex) { (void)cond; (void)mutex; g_wait_io->done = 1; }
#endif

void h_io_writer_step(void)
{
	static struct snapraid_io io;
	static struct snapraid_worker W;
	struct snapraid_task *t;
	unsigned k, next;
	VERIF_INPUTS();
#ifdef VERIF_NATIVE
	exit(77);
#else
	VERIF_ASSUME(IN.ws_state >= TASK_STATE_IOERROR_CONTINUE && IN.ws_state <= TASK_STATE_DONE);
	VERIF_ASSUME(IN.ws_index < 4 && IN.ws_writer_index < 4);
	io.io_max = 4;
	io.writer_index = IN.ws_writer_index;
	io.done = IN.ws_done != 0;
	for (k = 0; k < IO_WRITER_ERROR_MAX; ++k) {
		VERIF_ASSUME(IN.ws_before[k] >= 0 && IN.ws_before[k] < 1000);
		io.writer_error[k] = IN.ws_before[k];
	}
	W.io = &io;
	W.index = IN.ws_index;
	g_wait_io = &io;
	g_locked = 0;
	next = (IN.ws_index + 1) % 4;
	t = io_writer_step(&W, IN.ws_state);
	for (k = 0; k < IO_WRITER_ERROR_MAX; ++k)
		VERIF_ASSERT(io.writer_error[k] == IN.ws_before[k] + ((IN.ws_state < 0 && (int)k == IN.ws_state - IO_WRITER_ERROR_BASE) ? 1 : 0),
			"a parity write that ended in an error state - I/O error included - is counted once in the counter of that state, a completed write in none (threaded path)");
	if (next != IN.ws_writer_index)
		VERIF_ASSERT(t == &W.task_map[next] && W.index == next, "the thread takes the next scheduled task");
	else
		VERIF_ASSERT(t == 0 && W.index == IN.ws_index, "without scheduled work the thread stops when told so");
	VERIF_ASSERT(g_locked == 0, "the io mutex is released");
#endif
	VERIF_CANARY();
}


#include "verif_tail.h"
