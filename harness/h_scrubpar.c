/*
 * Parity side of scrub (cmdline/scrub.c, state_scrub_process), two mechanically extracted regions (C04, C08):
 *   scrub_parity_read     "read the parity": what each parity reader outcome does - an EIO flags the stripe (it will be marked
 *                         bad) and removes that level from the comparison; a plain error flags it as error; fatal states and
 *                         the I/O error limit stop the scrub
 *   scrub_parity_compare  "proceed with the parity check": only for a stripe whose data was all read and correct, parity is
 *                         recomputed from the data just read and EVERY level that could be read is compared over the whole
 *                         block; a difference is a silent error (stripe marked bad) unless the stripe is unsynced
 */
#include "portable.h"
#include "support.h"
#include "elem.h"
#include "state.h"
#include "parity.h"
#include "handle.h"
#include "io.h"
#include "raid/raid.h"
#include "verif.h"

#define BS 4
#define ND 2

struct verif_in {
	unsigned level;
	int tstate[LEV_MAX];
	unsigned order[LEV_MAX];        /* the level the l-th completed read belongs to */
	unsigned io_error, error, silent_error, io_error_limit;
	int e_on, s_on, i_on, unsynced;
	int recov_ok[LEV_MAX];
	unsigned char computed[LEV_MAX * BS], ondisk[LEV_MAX * BS];
};
VERIF_DECLARE_IN

#ifdef VERIF_CBMC
void log_tag(const char *format, ...) { (void)format; }
void log_fatal(const char *format, ...) { (void)format; }
void log_error(const char *format, ...) { (void)format; }
void os_abort(void) { VERIF_ASSERT(0, "os_abort() unreachable: every reader outcome is handled"); __CPROVER_assume(0); }
#endif

static struct snapraid_task TASKS[LEV_MAX];
static unsigned g_pr;
static struct snapraid_task *p_io_parity_read(struct snapraid_io *io, unsigned *levcur, unsigned *waiting_map, unsigned *waiting_mac)
{
	unsigned k = g_pr < LEV_MAX ? g_pr : LEV_MAX - 1;
	(void)io; (void)waiting_map; (void)waiting_mac;
	++g_pr;
	*levcur = IN.order[k];
	TASKS[k].state = IN.tstate[k];
	return &TASKS[k];
}
static void p_usage_parity(struct snapraid_state *state, unsigned *m, unsigned n) { (void)state; (void)m; (void)n; }
static void p_usage(struct snapraid_state *state) { (void)state; }
static const char *p_lev(unsigned l) { (void)l; return "p"; }
static unsigned g_gen_calls;
static unsigned char C0[BS], C1[BS], C2[BS], C3[BS], C4[BS], C5[BS], D0[BS], D1[BS];
static unsigned char R0[BS], R1[BS], R2[BS], R3[BS], R4[BS], R5[BS];
static unsigned char *const COMP[LEV_MAX] = { C0, C1, C2, C3, C4, C5 };
static unsigned char *const RECV[LEV_MAX] = { R0, R1, R2, R3, R4, R5 };
static void p_raid_gen(int nd, int np, size_t size, void **v)
{
	int l, k;
	++g_gen_calls;
	VERIF_ASSERT(nd == ND && size == BS, "parity is recomputed over all data disks and the whole block");
	for (l = 0; l < LEV_MAX; ++l)
		if (l < np)
			for (k = 0; k < BS; ++k)
				((unsigned char *)v[ND + l])[k] = IN.computed[l * BS + k];
}
static unsigned p_memdiff(const unsigned char *a, const unsigned char *b, size_t n) { (void)a; (void)b; (void)n; return 1; }

#define io_parity_read p_io_parity_read
#define state_usage_parity p_usage_parity
#define state_usage_raid p_usage
#define lev_name p_lev
#define lev_config_name p_lev
#define raid_gen p_raid_gen
#define memdiff p_memdiff
#include "region_scrub_parity_read.c"
#include "region_scrub_parity_compare.c"
#undef io_parity_read
#undef state_usage_parity
#undef state_usage_raid
#undef lev_name
#undef lev_config_name
#undef raid_gen
#undef memdiff

void h_scrub_parity_read(void)
{
	static struct snapraid_state ST;
	void *buffer_recov[LEV_MAX];
	unsigned io_error, error, l, e_io, e_err;
	int e_on = 0, i_on = 0, bailed = 0, x_bail = 0, x_eon = 0, x_ion = 0;
	unsigned seen = 0;
	VERIF_INPUTS();
	VERIF_ASSUME(IN.level >= 1 && IN.level <= LEV_MAX);
	VERIF_ASSUME(IN.io_error < 100000 && IN.error < 100000);
	ST.level = IN.level;
	ST.opt.io_error_limit = IN.io_error_limit;
	for (l = 0; l < LEV_MAX; ++l) {
		VERIF_ASSUME(IN.tstate[l] == TASK_STATE_DONE || IN.tstate[l] == TASK_STATE_IOERROR_CONTINUE || IN.tstate[l] == TASK_STATE_ERROR_CONTINUE || IN.tstate[l] == TASK_STATE_IOERROR || IN.tstate[l] == TASK_STATE_ERROR);
		/* the completed reads are a permutation of the levels */
		VERIF_ASSUME(IN.order[l] < LEV_MAX);
		if (l < IN.level) {
			VERIF_ASSUME(IN.order[l] < IN.level && !((seen >> IN.order[l]) & 1));
			seen |= 1u << IN.order[l];
		}
		buffer_recov[l] = l < IN.level ? (void *)RECV[l] : (void *)0;
	}
	io_error = IN.io_error; error = IN.error;
	g_pr = 0;
	region_scrub_parity_read(&ST, 0, 9, buffer_recov, &io_error, &error, &e_on, &i_on, &bailed);

	/* specification: walk the outcomes in completion order */
	e_io = IN.io_error; e_err = IN.error;
	for (l = 0; l < LEV_MAX; ++l)
		if (l < IN.level && !x_bail) {
			int t = IN.tstate[l];
			if (t == TASK_STATE_IOERROR) { ++e_io; x_bail = 1; }
			else if (t == TASK_STATE_ERROR) { ++e_err; x_bail = 1; }
			else if (t == TASK_STATE_ERROR_CONTINUE) { ++e_err; x_eon = 1; }
			else if (t == TASK_STATE_IOERROR_CONTINUE) { ++e_io; if (e_io >= IN.io_error_limit) x_bail = 1; else x_ion = 1; }
		}
	VERIF_ASSERT(bailed == x_bail && io_error == e_io && error == e_err, "every parity read outcome is counted; fatal states and the I/O error limit stop the scrub");
	if (!bailed) {
		VERIF_ASSERT(e_on == x_eon && i_on == x_ion, "a parity read error flags the stripe: EIO as I/O error (marked bad later), anything else as plain error");
		for (l = 0; l < LEV_MAX; ++l)
			if (l < IN.level) {
				/* position of level l in completion order */
				unsigned k, st = TASK_STATE_DONE;
				for (k = 0; k < LEV_MAX; ++k)
					if (k < IN.level && IN.order[k] == l)
						st = IN.tstate[k];
				VERIF_ASSERT((buffer_recov[l] != 0) == (st == TASK_STATE_DONE), "exactly the levels that were read take part in the comparison");
			}
	}
	VERIF_CANARY();
}

void h_scrub_parity_compare(void)
{
	static struct snapraid_state ST;
	void *buffer[ND + LEV_MAX];
	void *buffer_recov[LEV_MAX];
	unsigned error, silent, l, k, mism = 0;
	int e_on, s_on;
	VERIF_INPUTS();
	VERIF_ASSUME(IN.level >= 1 && IN.level <= LEV_MAX);
	VERIF_ASSUME(IN.error < 100000 && IN.silent_error < 100000);
	ST.level = IN.level;
	ST.block_size = BS;
	buffer[0] = D0; buffer[1] = D1;
	for (l = 0; l < LEV_MAX; ++l) {
		int differs = 0;
		buffer[ND + l] = COMP[l];
		buffer_recov[l] = (l < IN.level && IN.recov_ok[l]) ? (void *)RECV[l] : (void *)0;
		for (k = 0; k < BS; ++k) {
			RECV[l][k] = IN.ondisk[l * BS + k];
			if (IN.ondisk[l * BS + k] != IN.computed[l * BS + k])
				differs = 1;
		}
		if (l < IN.level && IN.recov_ok[l] && differs)
			++mism;
	}
	error = IN.error; silent = IN.silent_error;
	e_on = IN.e_on != 0; s_on = IN.s_on != 0;
	g_gen_calls = 0;
	region_scrub_parity_compare(&ST, ND, 9, buffer, buffer_recov, IN.unsynced != 0, e_on, s_on, IN.i_on != 0, &error, &silent, &e_on, &s_on);

	if (IN.e_on || IN.s_on || IN.i_on) {
		VERIF_ASSERT(g_gen_calls == 0 && error == IN.error && silent == IN.silent_error && e_on == (IN.e_on != 0) && s_on == (IN.s_on != 0), "a stripe whose data could not all be read and verified is not compared against parity");
	} else {
		VERIF_ASSERT(g_gen_calls == 1, "parity is recomputed once from the data just read");
		if (IN.unsynced)
			VERIF_ASSERT(error == IN.error + mism && silent == IN.silent_error && e_on == (mism != 0) && !s_on, "on an unsynced stripe a parity difference is an expected plain error");
		else
			VERIF_ASSERT(silent == IN.silent_error + mism && error == IN.error && s_on == (mism != 0) && !e_on, "every readable parity level that differs from the recomputed one, in any byte, is a silent error of this stripe");
	}
	VERIF_CANARY();
}

#include "verif_tail.h"
