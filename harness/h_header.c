/*
 * Header records of the content file (cmdline/state.c): version choice, 'z' block size, 'x' number of stripes, 'y' hash size,
 * 'c' hash kind + seed, 'C' previous hash kind + seed.  The writer region of state_write_thread and the five reader
 * branches of state_read_content are extracted mechanically and connected through a TYPED event stream.
 *   h_header_roundtrip: what the writer emits is accepted by the reader and every value comes back; format version 2 (the
 *        one the reference version reads) is kept exactly while no newer feature (hash size != 16, split parity) is in use
 *   h_header_damaged:   ONE record with arbitrary content: the reader goes on only with a usable value (block size non zero
 *        and the configured one, hash size 2..HASH_MAX and the configured one, a known hash kind, a complete seed) and a
 *        well-formed record that agrees with the configuration is never refused
 * The dispatch on the record letter is harness glue (the real dispatcher is the else-if chain the branches are cut from).
 */
#include "portable.h"
#include "support.h"
#include "elem.h"
#include "state.h"
#include "stream.h"
#include "verif.h"

struct verif_in {
	uint32_t block_size, blockmax;
	int hash_size, no_conf;
	unsigned hash, prevhash;
	int info_has_rehash;
	unsigned level, split_mac[2];
	unsigned char seed[HASH_MAX], prevseed[HASH_MAX];
	/* damaged record */
	unsigned char letter, sub;
	uint32_t v32, cfg_block_size;
	int cfg_hash_size, short_read;
};
VERIF_DECLARE_IN

#ifdef VERIF_CBMC
int BLOCK_HASH_SIZE = 16;
int exit_success = 0, exit_failure = 1, exit_sync_needed = 2;
void log_fatal(const char *format, ...) { (void)format; }
void log_tag(const char *format, ...) { (void)format; }
#endif

static int g_wellformed;
static void v_refuse(void)
{
	VERIF_ASSERT(!g_wellformed, "the reader accepts a well-formed header record that agrees with the configuration");
#ifdef VERIF_NATIVE
	printf("VERIF-REACHED-END\n");
	exit(0);
#else
	__CPROVER_assume(0);
#endif
}
static void v_abort(void) { v_refuse(); }
static void v_exit(int code) { (void)code; v_refuse(); }

#define NEV 14
static unsigned g_n, g_r;
static unsigned char g_kind[NEV];      /* 1 byte, 2 32-bit, 5 raw bytes */
static uint64_t g_val[NEV];
static unsigned char g_raw[3][HASH_MAX];   /* payload of the raw writes, in order */
static unsigned g_nraw, g_rraw;

static int w_putc(int c, STREAM *s) { (void)s; VERIF_ASSERT(g_n < NEV, "event log"); g_kind[g_n] = 1; g_val[g_n] = (unsigned char)c; ++g_n; return 0; }
static int w_putb32(uint32_t v, STREAM *s) { (void)s; VERIF_ASSERT(g_n < NEV, "event log"); g_kind[g_n] = 2; g_val[g_n] = v; ++g_n; return 0; }
static int w_write(const void *data, unsigned size, STREAM *s)
{
	unsigned k;
	(void)s;
	VERIF_ASSERT(g_n < NEV && g_nraw < 3 && size <= HASH_MAX, "event log");
	g_kind[g_n] = 5; g_val[g_n] = size; ++g_n;
	for (k = 0; k < HASH_MAX; ++k)
		g_raw[g_nraw][k] = k < size ? ((const unsigned char *)data)[k] : 0;
	++g_nraw;
	return 0;
}
static int w_error(STREAM *s) { (void)s; return 0; }
static const char *w_errorfile(STREAM *s) { (void)s; return "content"; }
static int r_getc(STREAM *s) { (void)s; VERIF_ASSERT(g_r < g_n && g_kind[g_r] == 1, "the reader takes a byte where the writer put a byte"); return (int)g_val[g_r++]; }
static int r_getb32(STREAM *s, uint32_t *v)
{
	(void)s;
	VERIF_ASSERT(g_r < g_n && g_kind[g_r] == 2, "the reader takes a 32-bit field where the writer put a 32-bit field");
	if (IN.short_read)
		return -1;
	*v = (uint32_t)g_val[g_r++];
	return 0;
}
static int r_read(STREAM *s, void *dst, unsigned size)
{
	unsigned k;
	(void)s;
	VERIF_ASSERT(g_r < g_n && g_kind[g_r] == 5 && g_val[g_r] == size && size == HASH_MAX, "the reader takes as many raw bytes as the writer put");
	if (IN.short_read)
		return -1;
	for (k = 0; k < HASH_MAX; ++k)
		((unsigned char *)dst)[k] = g_raw[g_rraw][k];
	++g_r; ++g_rraw;
	return 0;
}
static void decoding_error(const char *path, STREAM *f) { (void)path; (void)f; }

#define sputc w_putc
#define sputb32 w_putb32
#define swrite w_write
#define serror w_error
#define serrorfile w_errorfile
#define sgetc r_getc
#define sgetb32 r_getb32
#define sread r_read
#define exit v_exit
#define os_abort v_abort
#include "region_hdr_write.c"
#include "region_hdr_c.c"
#include "region_hdr_cc.c"
#include "region_hdr_z.c"
#include "region_hdr_y.c"
#include "region_hdr_x.c"
#undef sputc
#undef sputb32
#undef swrite
#undef serror
#undef serrorfile
#undef sgetc
#undef sgetb32
#undef sread
#undef exit
#undef os_abort

static struct snapraid_state ST1, ST2;

static int known_hash(unsigned h) { return h == HASH_MURMUR3 || h == HASH_SPOOKY2 || h == HASH_METRO; }

/* the else-if chain of state_read_content, for the five letters under contract */
static void dispatch(int c, block_off_t *blockmax)
{
	if (c == 'c')
		region_hdr_c(&ST2, 0, "content");
	else if (c == 'C')
		region_hdr_cc(&ST2, 0, "content");
	else if (c == 'z')
		region_hdr_z(&ST2, 0, "content");
	else if (c == 'y')
		region_hdr_y(&ST2, 0, "content");
	else if (c == 'x')
		region_hdr_x(0, "content", blockmax);
	else
		VERIF_ASSERT(0, "the header writer emits only z x y c C records");
}

void h_header_roundtrip(void)
{
	block_off_t blockmax = 0;
	unsigned k, l, newer = 0, rounds = 0;
	int wrote_prev;
	VERIF_INPUTS();
	VERIF_ASSUME(IN.block_size != 0 && IN.hash_size >= 2 && IN.hash_size <= HASH_MAX);
	VERIF_ASSUME(known_hash(IN.hash) && (IN.prevhash == HASH_UNDEFINED || known_hash(IN.prevhash)));
	VERIF_ASSUME(IN.level >= 1 && IN.level <= 2 && IN.short_read == 0);
	ST1.block_size = IN.block_size; ST1.hash = IN.hash; ST1.prevhash = IN.prevhash; ST1.level = IN.level;
	for (l = 0; l < 2; ++l) {
		VERIF_ASSUME(IN.split_mac[l] >= 1 && IN.split_mac[l] <= SPLIT_MAX);
		ST1.parity[l].split_mac = IN.split_mac[l];
		if (l < IN.level && IN.split_mac[l] > 1)
			newer = 1;
	}
	if (IN.hash_size != 16)
		newer = 1;
	for (k = 0; k < HASH_MAX; ++k) { ST1.hashseed[k] = IN.seed[k]; ST1.prevhashseed[k] = IN.prevseed[k]; }
	BLOCK_HASH_SIZE = IN.hash_size;
	g_n = g_r = g_nraw = g_rraw = 0; g_wellformed = 1;
	VERIF_ASSERT(region_hdr_write(&ST1, 0, IN.blockmax, IN.info_has_rehash, (void *)1) == 0, "the header writer completes");
	VERIF_ASSERT(g_n >= 1 && g_kind[0] == 5 && g_val[0] == 12, "the file starts with the 12-byte signature");
	VERIF_ASSERT(g_raw[0][0] == 'S' && g_raw[0][6] == 'T' && g_raw[0][8] == '\n' && g_raw[0][9] == 3 && g_raw[0][10] == 0 && g_raw[0][11] == 0, "signature bytes");
	VERIF_ASSERT(!newer || g_raw[0][7] == '3', "format 3 is written whenever a feature that format 2 cannot record (hash size, split parity) is in use");
#ifdef VERIF_PIN_FORMAT
	/* C16 only ("the content encoding is bit-for-bit stable"): the reference version writes format 2 in every other case */
	VERIF_ASSERT(newer || g_raw[0][7] == '2', "format 2, which the reference version writes and older versions read, is kept while no newer feature is in use");
#else
	VERIF_ASSERT(g_raw[0][7] == '2' || g_raw[0][7] == '3', "a known format");
#endif
	/* the reader: either the configured values or none (-C) */
	ST2.no_conf = IN.no_conf != 0;
	ST2.block_size = IN.no_conf ? 0 : IN.block_size;
	ST2.hash = HASH_UNDEFINED; ST2.prevhash = HASH_UNDEFINED;
	BLOCK_HASH_SIZE = IN.no_conf ? 16 : IN.hash_size;
	g_r = 1; g_rraw = 1;
	while (g_r < g_n && rounds < 6) {
		dispatch(r_getc(0), &blockmax);
		++rounds;
	}
	VERIF_ASSERT(g_r == g_n, "the reader consumes exactly what the writer produced");
	wrote_prev = IN.prevhash != HASH_UNDEFINED && IN.info_has_rehash;
	VERIF_ASSERT(ST2.block_size == IN.block_size, "the block size survives a save and reload");
	VERIF_ASSERT(blockmax == IN.blockmax, "the number of stripes survives");
	VERIF_ASSERT(BLOCK_HASH_SIZE == IN.hash_size, "the hash size survives (format 2 means 16)");
	VERIF_ASSERT(ST2.hash == IN.hash, "the hash kind survives");
	VERIF_ASSERT(ST2.prevhash == (wrote_prev ? IN.prevhash : HASH_UNDEFINED), "the previous hash kind survives while a stripe still waits for its rehash");
	for (k = 0; k < HASH_MAX; ++k) {
		VERIF_ASSERT(ST2.hashseed[k] == IN.seed[k], "the hash seed survives");
		VERIF_ASSERT(!wrote_prev || ST2.prevhashseed[k] == IN.prevseed[k], "the previous hash seed survives");
	}
	VERIF_CANARY();
}

void h_header_damaged(void)
{
	block_off_t blockmax = 0;
	unsigned k;
	int c;
	VERIF_INPUTS();
	c = IN.letter;
	VERIF_ASSUME(c == 'c' || c == 'C' || c == 'z' || c == 'y' || c == 'x');
	VERIF_ASSUME(IN.cfg_block_size != 0 && IN.cfg_hash_size >= 2 && IN.cfg_hash_size <= HASH_MAX);
	ST2.no_conf = IN.no_conf != 0;
	ST2.block_size = IN.no_conf ? 0 : IN.cfg_block_size;
	ST2.hash = HASH_UNDEFINED; ST2.prevhash = HASH_UNDEFINED;
	BLOCK_HASH_SIZE = IN.no_conf ? 16 : IN.cfg_hash_size;
	g_n = g_r = g_nraw = g_rraw = 0;
	if (c == 'c' || c == 'C') {
		w_putc(IN.sub, 0);
		w_write(IN.seed, HASH_MAX, 0);
		g_wellformed = !IN.short_read && (IN.sub == 'u' || IN.sub == 'k' || IN.sub == 'm');
	} else {
		w_putb32(IN.v32, 0);
		g_wellformed = !IN.short_read;
		if (c == 'z')
			g_wellformed = g_wellformed && IN.v32 != 0 && (IN.no_conf || IN.v32 == IN.cfg_block_size);
		if (c == 'y')
			g_wellformed = g_wellformed && IN.v32 >= 2 && IN.v32 <= HASH_MAX && (IN.no_conf || (int)IN.v32 == IN.cfg_hash_size);
	}
	dispatch(c, &blockmax);
	/* the reader went on */
	VERIF_ASSERT(g_wellformed, "a damaged or mismatching header record is refused");
	if (c == 'c') {
		VERIF_ASSERT(ST2.hash == (IN.sub == 'u' ? HASH_MURMUR3 : IN.sub == 'k' ? HASH_SPOOKY2 : HASH_METRO), "the hash kind is the one the letter names");
		for (k = 0; k < HASH_MAX; ++k)
			VERIF_ASSERT(ST2.hashseed[k] == IN.seed[k], "the seed is taken from the record");
	}
	if (c == 'C') {
		VERIF_ASSERT(ST2.prevhash == (IN.sub == 'u' ? HASH_MURMUR3 : IN.sub == 'k' ? HASH_SPOOKY2 : HASH_METRO), "the previous hash kind is the one the letter names");
		for (k = 0; k < HASH_MAX; ++k)
			VERIF_ASSERT(ST2.prevhashseed[k] == IN.seed[k], "the previous seed is taken from the record");
	}
	if (c == 'z')
		VERIF_ASSERT(ST2.block_size == IN.v32 && IN.v32 != 0, "the block size in use is the recorded one");
	if (c == 'y')
		VERIF_ASSERT(BLOCK_HASH_SIZE == (int)IN.v32, "the hash size in use is the recorded one");
	if (c == 'x')
		VERIF_ASSERT(blockmax == IN.v32, "the number of stripes is the recorded one");
	VERIF_CANARY();
}

#include "verif_tail.h"
