/*
 * How state_scrub (cmdline/scrub.c) turns its arguments into a plan, and which stripes enter the time map (C15), as two
 * mechanically extracted regions:
 *   scrub_plan     the plan and its limits: full / new / bad as asked; a percentage P asks for md(blockmax, P, 100) stripes,
 *                  the default for 1/12 of the array; the age limit is now - days * 24 h, by default 10 days; the two test
 *                  options override as documented
 *   scrub_timemap  the time map holds the scrub time of exactly the stripes that have an info word, in position order
 */
#include "portable.h"
#include "support.h"
#include "elem.h"
#include "state.h"
#include "parity.h"
#include "verif.h"

#define NP 4

/* struct snapraid_plan is local to scrub.c: the region is compiled against the REAL definition, extracted below */
#include "region_scrub_plan_struct.c"

struct verif_in {
	int plan, olderthan, force_even;
	block_off_t force_at, blockmax, md_result;
	time_t now;
	snapraid_info info[NP];
};
VERIF_DECLARE_IN

#ifdef VERIF_CBMC
void log_tag(const char *format, ...) { (void)format; }
void log_fatal(const char *format, ...) { (void)format; }
void *malloc_nofail(size_t size) { void *q = malloc(size); __CPROVER_assume(q != 0); return q; }
#endif

static unsigned g_md_calls;
static unsigned g_md_a, g_md_b, g_md_c;
static unsigned p_md(unsigned a, unsigned b, unsigned c) { ++g_md_calls; g_md_a = a; g_md_b = b; g_md_c = c; return IN.md_result; }
static block_off_t p_allocated(struct snapraid_state *state) { (void)state; return IN.blockmax; }
static snapraid_info p_info_get(tommy_arrayblkof *a, block_off_t pos) { (void)a; VERIF_ASSERT(pos < NP, "info inside the array"); return IN.info[pos]; }

#define md p_md
#define parity_allocated_size p_allocated
#define info_get p_info_get
#include "region_scrub_plan.c"
#include "region_scrub_timemap.c"
#undef md
#undef parity_allocated_size
#undef info_get

void h_scrub_plan(void)
{
	static struct snapraid_state ST;
	struct snapraid_plan ps;
	block_off_t countlimit = 99, blockmax = 99;
	time_t recentlimit = 99;
	VERIF_INPUTS();
	VERIF_ASSUME(IN.plan >= SCRUB_EVEN && IN.plan <= 100 && IN.plan != SCRUB_EVEN);
	VERIF_ASSUME(IN.olderthan >= -1 && IN.olderthan <= 10000);
	VERIF_ASSUME(IN.now >= 0 && IN.now < ((time_t)1 << 40));
	ST.opt.force_scrub_even = IN.force_even != 0;
	ST.opt.force_scrub_at = IN.force_at;
	ps.plan = 12345;
	g_md_calls = 0;
	region_scrub_plan(&ST, IN.plan, IN.olderthan, IN.now, &ps, &countlimit, &recentlimit, &blockmax);
	VERIF_ASSERT(blockmax == IN.blockmax && ps.state == &ST, "the plan works on the allocated array");
	if (IN.force_even)
		VERIF_ASSERT(ps.plan == SCRUB_EVEN, "test option: even stripes");
	else if (IN.plan == SCRUB_FULL || IN.plan == SCRUB_NEW || IN.plan == SCRUB_BAD)
		VERIF_ASSERT(ps.plan == IN.plan && g_md_calls == 0, "the plans full / new / bad are taken as asked");
	else {
		VERIF_ASSERT(ps.plan == SCRUB_AUTO, "a percentage (or nothing) selects the oldest-first plan");
		if (IN.force_at) {
			VERIF_ASSERT(countlimit == IN.force_at && recentlimit == IN.now && g_md_calls == 0, "test option: a fixed number of stripes, no age limit");
		} else {
			VERIF_ASSERT(g_md_calls == 1 && countlimit == IN.md_result && g_md_a == IN.blockmax, "the share is taken of the whole array");
			if (IN.plan >= 0)
				VERIF_ASSERT(g_md_b == (unsigned)IN.plan && g_md_c == 100, "a percentage P asks for P / 100 of the stripes");
			else
				VERIF_ASSERT(g_md_b == 1 && g_md_c == 12, "the default asks for 1/12 of the stripes");
			VERIF_ASSERT(recentlimit == IN.now - (time_t)(IN.olderthan >= 0 ? IN.olderthan : 10) * 24 * 3600, "stripes scrubbed less than -o days ago (default 10) are left alone");
		}
	}
	VERIF_CANARY();
}

void h_scrub_timemap(void)
{
	static struct snapraid_state ST;
	time_t timemap[NP];
	block_off_t count = 99, k, e = 0;
	VERIF_INPUTS();
	VERIF_ASSUME(IN.blockmax >= 1 && IN.blockmax <= NP);
	region_scrub_timemap(&ST, IN.blockmax, timemap, &count);
	for (k = 0; k < NP; ++k)
		if (k < IN.blockmax && IN.info[k] != 0) {
			VERIF_ASSERT(e < count && timemap[e] == info_get_time(IN.info[k]), "the time map holds the scrub time of every stripe with an info word, in position order");
			++e;
		}
	VERIF_ASSERT(count == e, "and of no other stripe");
	VERIF_CANARY();
}

#include "verif_tail.h"
