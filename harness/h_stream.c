/*
 * Content-file stream primitives (cmdline/stream.c), REAL code, included below unmodified.
 *
 *  decoders  sgetb32 sgetb64 sgetble32 sgetbs sread sgetc/sgetc_uncached/sfill
 *            for EVERY byte string (length <= NB) delivered by read() in EVERY chunking (buffer size 1..SB):
 *              - no out-of-bounds access / shift / overflow (cbmc's own obligations on the real code)
 *              - result == arithmetic varint specification, bytes consumed == specification
 *              - sgetbs: str[] is NUL terminated inside `size`, nothing outside str[0..size) written
 *  codecs    decode(encode(v)) == v for ALL v (sputb32/sgetb32, sputb64/sgetb64, sputble32/sgetble32, sputbs/sgetbs),
 *            the bytes travelling through write() -> read() stubs in every chunking (C10)
 *
 * External functions by assumed contract: read() / write() (stubs below: read returns -1, 0 only at end of data, or
 * 1..min(n, remaining) bytes of IN.bytes; write accepts exactly n bytes or fails).
 */
#include "portable.h"
#include "support.h"
#include "util.h"
#include "stream.h"
#include "verif.h"

#ifndef NB
#define NB 12 /* bytes of input visible to the decoder (a 64-bit varint has at most 10) */
#endif
#ifndef SB
#define SB 4 /* largest stream buffer used (STREAM_SIZE is a run-time variable of the real code) */
#endif
#ifndef STRSZ
#define STRSZ 6
#endif

struct verif_in {
	unsigned char bytes[NB];
	unsigned nbytes;      /* length of the file */
	unsigned stream_size; /* STREAM_SIZE */
	unsigned chunk[NB + 2]; /* size returned by the k-th read() */
	int fail_at;          /* index of the read()/write() that fails with -1, or -1 */
	uint32_t v32;
	uint64_t v64;
	int size;             /* sgetbs size argument */
	char str[STRSZ + 1];  /* sputbs argument */
};
VERIF_DECLARE_IN

/* ---- ghost file ---- */
static unsigned g_off;   /* read offset in IN.bytes */
static unsigned g_reads;
static unsigned char g_sink[NB + 4]; /* bytes written by write() */
static unsigned g_sink_len;
static int g_from_sink;  /* read() serves g_sink instead of IN.bytes */

#ifdef VERIF_CBMC
ssize_t read(int fd, void *buf, size_t n)
{
	const unsigned char *src = g_from_sink ? g_sink : IN.bytes;
	unsigned total = g_from_sink ? g_sink_len : IN.nbytes;
	unsigned remaining = total - g_off;
	unsigned k, r;
	(void)fd;
	VERIF_ASSERT(n == STREAM_SIZE, "read() called with the stream buffer size");
	if (g_reads == (unsigned)IN.fail_at) {
		++g_reads;
		return -1;
	}
	if (remaining == 0) {
		++g_reads;
		return 0;
	}
	r = IN.chunk[g_reads < NB + 2 ? g_reads : NB + 1];
	++g_reads;
	__CPROVER_assume(r >= 1 && r <= remaining && r <= n);
	for (k = 0; k < r; ++k)
		((unsigned char *)buf)[k] = src[g_off + k];
	g_off += r;
	return r;
}

ssize_t write(int fd, const void *buf, size_t n)
{
	unsigned k;
	(void)fd;
	if (g_reads == (unsigned)IN.fail_at) {
		++g_reads;
		return -1;
	}
	++g_reads;
	__CPROVER_assume(g_sink_len + n <= sizeof(g_sink));
	for (k = 0; k < n; ++k)
		g_sink[g_sink_len + k] = ((const unsigned char *)buf)[k];
	g_sink_len += n;
	return n;
}
#endif

#ifdef VERIF_CBMC
/* crc32c is reached through a function pointer; the codec obligations do not depend on its value, so it is
 * replaced by its (assumed) contract "pure, any result"; crc32c_gen itself is verified in h_crc.c */
uint32_t nondet_u32(void);
static uint32_t crc_by_contract(uint32_t crc, const unsigned char *ptr, unsigned size)
{
	(void)crc;
	(void)ptr;
	(void)size;
	return nondet_u32();
}
#endif

/* the REAL translation unit */
#include "stream.c"

/* ---- arithmetic specification of the variable length integer (base 128, little endian, LAST byte has bit 7 set) ---- */
struct dec { int status; uint64_t value; unsigned used; };

static struct dec spec_dec(const unsigned char *b, unsigned n, unsigned width)
{
	struct dec r;
	unsigned k;
	uint64_t v = 0;
	r.status = -1;
	r.value = 0;
	r.used = 0;
	for (k = 0; k < 10; ++k) {
		if (k >= n) {
			r.used = n; /* EOF */
			return r;
		}
		if (b[k] & 0x80) {
			v |= (uint64_t)(b[k] & 0x7f) << (7 * k);
			r.status = 0;
			r.value = width == 32 ? (uint32_t)v : v;
			r.used = k + 1;
			return r;
		}
		v |= (uint64_t)b[k] << (7 * k);
		if (7 * (k + 1) >= width) {
			r.used = k + 1; /* too many continuation bytes */
			return r;
		}
	}
	return r;
}

static struct stream S;
static struct stream_handle H;
static unsigned char SBUF[SB];

static STREAM *open_ghost_read(void)
{
#ifdef VERIF_NATIVE
	/* native replay: the same bytes through a real file and the real sopen_read() */
	char path[] = "/tmp/verif-stream-XXXXXX";
	int fd = mkstemp(path);
	STREAM *s;
	/* a failing read() (IN.fail_at) cannot be injected natively: the replay runs without it, and simply does
	 * not reproduce if the counterexample depended on it */
	if (write(fd, g_from_sink ? g_sink : IN.bytes, g_from_sink ? g_sink_len : IN.nbytes) < 0)
		exit(2);
	close(fd);
	STREAM_SIZE = IN.stream_size;
	crc32c_init();
	s = sopen_read(path);
	unlink(path);
	return s;
#else
	STREAM_SIZE = IN.stream_size;
	crc32c = crc_by_contract;
	crc_x86 = 0;
	S.handle_size = 1;
	S.handle = &H;
	H.f = 3;
	S.buffer = SBUF;
	S.pos = S.buffer;
	S.end = S.buffer;
	S.state = STREAM_STATE_READ;
	S.state_index = 0;
	S.offset = 0;
	S.offset_uncached = 0;
	S.crc = 0;
	S.crc_uncached = 0;
	S.crc_stream = CRC_IV;
	g_off = 0;
	g_reads = 0;
	return &S;
#endif
}

static void assume_env(void)
{
	VERIF_ASSUME(IN.nbytes <= NB);
	VERIF_ASSUME(IN.stream_size >= 1 && IN.stream_size <= SB);
	VERIF_ASSUME(IN.fail_at >= -1 && IN.fail_at < NB + 2);
}

static void check_stream(STREAM *s)
{
	VERIF_ASSERT(s->buffer <= s->pos && s->pos <= s->end && s->end <= s->buffer + STREAM_SIZE,
		"STREAM invariant buffer <= pos <= end <= buffer+STREAM_SIZE");
}

void h_sgetb32(void)
{
	STREAM *s;
	uint32_t v = 0xdeadbeef;
	struct dec e;
	int r;
	VERIF_INPUTS();
	assume_env();
	s = open_ghost_read();
	r = sgetb32(s, &v);
	check_stream(s);
	if (IN.fail_at < 0) {
		e = spec_dec(IN.bytes, IN.nbytes, 32);
		VERIF_ASSERT(r == e.status, "sgetb32 accepts exactly the well-formed encodings");
		if (r == 0) {
			VERIF_ASSERT(v == (uint32_t)e.value, "sgetb32 value == sum b_k*128^k");
			VERIF_ASSERT(stell(s) == (int64_t)e.used, "sgetb32 consumes exactly the encoding");
		}
	} else {
		VERIF_ASSERT(r == 0 || r == -1, "sgetb32 returns 0 or -1");
	}
	if (r != 0)
		VERIF_ASSERT(v == 0xdeadbeef, "sgetb32 leaves *value alone on failure");
	VERIF_CANARY();
}

void h_sgetb64(void)
{
	STREAM *s;
	uint64_t v = 0xdeadbeefcafef00dULL;
	struct dec e;
	int r;
	VERIF_INPUTS();
	assume_env();
	s = open_ghost_read();
	r = sgetb64(s, &v);
	check_stream(s);
	if (IN.fail_at < 0) {
		e = spec_dec(IN.bytes, IN.nbytes, 64);
		VERIF_ASSERT(r == e.status, "sgetb64 accepts exactly the well-formed encodings");
		if (r == 0) {
			VERIF_ASSERT(v == e.value, "sgetb64 value == sum b_k*128^k");
			VERIF_ASSERT(stell(s) == (int64_t)e.used, "sgetb64 consumes exactly the encoding");
		}
	}
	if (r != 0)
		VERIF_ASSERT(v == 0xdeadbeefcafef00dULL, "sgetb64 leaves *value alone on failure");
	VERIF_CANARY();
}

void h_sgetble32(void)
{
	STREAM *s;
	uint32_t v = 0;
	int r;
	VERIF_INPUTS();
	assume_env();
	s = open_ghost_read();
	r = sgetble32(s, &v);
	check_stream(s);
	if (IN.fail_at < 0) {
		VERIF_ASSERT((r == 0) == (IN.nbytes >= 4), "sgetble32 succeeds iff 4 bytes are available");
		if (r == 0)
			VERIF_ASSERT(v == (IN.bytes[0] | (uint32_t)IN.bytes[1] << 8 | (uint32_t)IN.bytes[2] << 16 | (uint32_t)IN.bytes[3] << 24),
				"sgetble32 value is little endian");
	}
	VERIF_CANARY();
}

/* sgetbs: for EVERY byte string: memory safe, NUL terminated inside size, never writes outside str[0..size) */
void h_sgetbs(void)
{
	STREAM *s;
	struct { char pre[4]; char str[STRSZ]; char post[4]; } m;
	struct dec e;
	int r, k;
	VERIF_INPUTS();
	assume_env();
	VERIF_ASSUME(IN.size >= 1 && IN.size <= STRSZ);
	for (k = 0; k < 4; ++k)
		m.pre[k] = m.post[k] = 0x55;
	for (k = 0; k < STRSZ; ++k)
		m.str[k] = 0x55;
	s = open_ghost_read();
	r = sgetbs(s, m.str, IN.size);
	check_stream(s);
	for (k = 0; k < 4; ++k)
		VERIF_ASSERT(m.pre[k] == 0x55 && m.post[k] == 0x55, "sgetbs writes nothing outside str");
	for (k = 0; k < STRSZ; ++k)
		if (k >= IN.size)
			VERIF_ASSERT(m.str[k] == 0x55, "sgetbs writes nothing beyond size");
	if (IN.fail_at < 0) {
		e = spec_dec(IN.bytes, IN.nbytes, 32);
		if (r == 0) {
			VERIF_ASSERT(e.status == 0 && e.value < (uint64_t)IN.size, "sgetbs accepts only len < size");
			VERIF_ASSERT(m.str[e.value] == 0, "sgetbs NUL terminates");
			for (k = 0; k < STRSZ; ++k)
				if ((uint64_t)k < e.value)
					VERIF_ASSERT((unsigned char)m.str[k] == IN.bytes[e.used + k], "sgetbs copies the payload");
		} else {
			VERIF_ASSERT(e.status != 0 || e.value >= (uint64_t)IN.size || e.used + e.value > IN.nbytes,
				"sgetbs rejects only malformed / too long / truncated strings");
		}
	}
	VERIF_CANARY();
}

/* ---- round trips through write() -> read() ---- */
static STREAM *open_ghost_write(void)
{
#ifdef VERIF_NATIVE
	exit(77); /* round trips are replayed by rt_native below */
#else
	STREAM_SIZE = IN.stream_size;
	crc32c = crc_by_contract;
	crc_x86 = 0;
	S.handle_size = 1;
	S.handle = &H;
	H.f = 3;
	S.buffer = SBUF;
	S.pos = S.buffer;
	S.end = S.buffer + STREAM_SIZE;
	S.state = STREAM_STATE_WRITE;
	S.state_index = 0;
	S.offset = 0;
	S.offset_uncached = 0;
	S.crc = 0;
	S.crc_uncached = 0;
	S.crc_stream = CRC_IV;
	g_sink_len = 0;
	g_reads = 0;
	return &S;
#endif
}

#ifdef VERIF_NATIVE
/* native: real file, real sopen_write/sopen_read */
static char rt_path[] = "/tmp/verif-rt-XXXXXX";
static STREAM *rt_open_w(void)
{
	int fd = mkstemp(rt_path);
	close(fd);
	unlink(rt_path);
	STREAM_SIZE = IN.stream_size;
	crc32c_init();
	return sopen_write(rt_path);
}
static STREAM *rt_reopen_r(STREAM *w)
{
	STREAM *s;
	if (sclose(w) != 0)
		exit(2);
	s = sopen_read(rt_path);
	unlink(rt_path);
	return s;
}
#else
static STREAM *rt_open_w(void) { return open_ghost_write(); }
static STREAM *rt_reopen_r(STREAM *w)
{
	VERIF_ASSERT(sflush(w) == 0, "sflush succeeds when write() succeeds");
	g_from_sink = 1;
	return open_ghost_read();
}
#endif

void h_rt32(void)
{
	STREAM *s;
	uint32_t v = 0;
	VERIF_INPUTS();
	assume_env();
	VERIF_ASSUME(IN.fail_at == -1);
	s = rt_open_w();
	VERIF_ASSERT(sputb32(IN.v32, s) == 0, "sputb32 succeeds");
	s = rt_reopen_r(s);
#ifdef VERIF_CBMC
	VERIF_ASSERT(g_sink_len >= 1 && g_sink_len <= 5, "sputb32 emits 1..5 bytes");
	VERIF_ASSERT((g_sink[g_sink_len - 1] & 0x80) != 0, "sputb32 terminator bit on the last byte");
	VERIF_ASSERT(g_sink_len == 1 || g_sink[g_sink_len - 1] != 0x80, "sputb32 encoding is minimal (canonical)");
#endif
	VERIF_ASSERT(sgetb32(s, &v) == 0, "sgetb32 accepts what sputb32 wrote");
	VERIF_ASSERT(v == IN.v32, "sgetb32(sputb32(v)) == v");
	VERIF_ASSERT(sgetc(s) == EOF, "nothing left after the value");
	VERIF_CANARY();
}

void h_rt64(void)
{
	STREAM *s;
	uint64_t v = 0;
	VERIF_INPUTS();
	assume_env();
	VERIF_ASSUME(IN.fail_at == -1);
	s = rt_open_w();
	VERIF_ASSERT(sputb64(IN.v64, s) == 0, "sputb64 succeeds");
	s = rt_reopen_r(s);
#ifdef VERIF_CBMC
	VERIF_ASSERT(g_sink_len >= 1 && g_sink_len <= 10, "sputb64 emits 1..10 bytes");
	VERIF_ASSERT(g_sink_len == 1 || g_sink[g_sink_len - 1] != 0x80, "sputb64 encoding is minimal (canonical)");
#endif
	VERIF_ASSERT(sgetb64(s, &v) == 0, "sgetb64 accepts what sputb64 wrote");
	VERIF_ASSERT(v == IN.v64, "sgetb64(sputb64(v)) == v");
	VERIF_ASSERT(sgetc(s) == EOF, "nothing left after the value");
	VERIF_CANARY();
}

void h_rtle32(void)
{
	STREAM *s;
	uint32_t v = 0;
	VERIF_INPUTS();
	assume_env();
	VERIF_ASSUME(IN.fail_at == -1);
	s = rt_open_w();
	VERIF_ASSERT(sputble32(IN.v32, s) == 0, "sputble32 succeeds");
	s = rt_reopen_r(s);
	VERIF_ASSERT(sgetble32(s, &v) == 0, "sgetble32 accepts what sputble32 wrote");
	VERIF_ASSERT(v == IN.v32, "sgetble32(sputble32(v)) == v");
	VERIF_ASSERT(sgetc(s) == EOF, "nothing left after the value");
	VERIF_CANARY();
}

void h_rtbs(void)
{
	STREAM *s;
	char out[STRSZ + 1];
	int k, n;
	VERIF_INPUTS();
	assume_env();
	VERIF_ASSUME(IN.fail_at == -1);
	IN.str[STRSZ] = 0;
	for (n = 0; IN.str[n]; ++n)
		;
	s = rt_open_w();
	VERIF_ASSERT(sputbs(IN.str, s) == 0, "sputbs succeeds");
	s = rt_reopen_r(s);
	VERIF_ASSERT(sgetbs(s, out, sizeof(out)) == 0, "sgetbs accepts what sputbs wrote");
	for (k = 0; k <= STRSZ; ++k)
		if (k <= n)
			VERIF_ASSERT(out[k] == IN.str[k], "sgetbs(sputbs(s)) == s");
	VERIF_ASSERT(sgetc(s) == EOF, "nothing left after the string");
	VERIF_CANARY();
}

#include "verif_tail.h"
