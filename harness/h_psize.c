/*
 * "What the recorded state requires of a parity file" (cmdline/parity.c, REAL code included below):
 *   parity_used_size       one past the highest position holding a synced block (file and valid parity: BLK), over all disks
 *   parity_allocated_size  one past the highest position holding a block that has a file (deleted blocks at the end are
 *                          dropped), over all disks
 * fs_size / fs_par2block_find are replaced by stubs over a symbolic block table (their own units are fs.tree.*).
 * Bounded: ND disks of at most NP positions, every block state at every position.
 */
#include "portable.h"
#include "support.h"
#include "elem.h"
#include "state.h"
#include "parity.h"
#include "handle.h"
#include "verif.h"

#define ND 3
#define NP 5

struct verif_in {
	int ndisk;
	block_off_t size[ND];          /* fs_size of each disk */
	unsigned st[ND][NP];           /* block state at each position: 0 = no block, else BLOCK_STATE_* */
};
VERIF_DECLARE_IN

/* separate 1-D objects (DESIGN 2.3) */
static struct snapraid_disk D0, D1, D2;
static struct snapraid_disk *const D[ND] = { &D0, &D1, &D2 };
static unsigned char BLK0[NP * 64], BLK1[NP * 64], BLK2[NP * 64];
static unsigned char *const BLKMEM[ND] = { BLK0, BLK1, BLK2 };
#define BLOCK_AT(d, p) ((struct snapraid_block *)(BLKMEM[d] + (p) * 64))

static int disk_index(struct snapraid_disk *disk)
{
	int d;
	for (d = 0; d < ND; ++d)
		if (disk == D[d])
			return d;
	VERIF_ASSERT(0, "a disk of the array");
	return 0;
}

static block_off_t v_fs_size(struct snapraid_disk *disk) { return IN.size[disk_index(disk)]; }

static struct snapraid_block *v_fs_par2block_find(struct snapraid_disk *disk, block_off_t pos)
{
	int d = disk_index(disk);
#ifndef VERIF_ALLOW_BEYOND
	VERIF_ASSERT(pos < IN.size[d], "only positions below fs_size are looked up");
#endif
	if (pos >= NP || IN.st[d][pos] == 0)
		return BLOCK_NULL;
	return BLOCK_AT(d, pos);
}

#ifdef VERIF_CBMC
void log_fatal(const char *format, ...) { (void)format; }
void log_tag(const char *format, ...) { (void)format; }
void os_abort(void) { __CPROVER_assume(0); }
void *malloc_nofail(size_t size) { void *q = malloc(size); __CPROVER_assume(q != 0); return q; }
#endif

/* inside the included text the two block-map queries are routed to the stubs above (same in cbmc and native mode) */
#define fs_size v_fs_size
#define fs_par2block_find v_fs_par2block_find
#include "cmdline/parity.c"
#undef fs_size
#undef fs_par2block_find

static struct snapraid_state ST;

static void setup(void)
{
	int d, p;
	VERIF_ASSUME(IN.ndisk >= 1 && IN.ndisk <= ND);
	tommy_list_init(&ST.disklist);
	for (d = 0; d < ND; ++d)
		if (d < IN.ndisk) {
			VERIF_ASSUME(IN.size[d] <= NP);
			for (p = 0; p < NP; ++p) {
				VERIF_ASSUME(IN.st[d][p] == 0 || IN.st[d][p] == BLOCK_STATE_BLK || IN.st[d][p] == BLOCK_STATE_CHG
					|| IN.st[d][p] == BLOCK_STATE_REP || IN.st[d][p] == BLOCK_STATE_DELETED);
				/* fs_size is one past the highest position of any extent */
				if ((block_off_t)p >= IN.size[d])
					VERIF_ASSUME(IN.st[d][p] == 0);
				if (IN.st[d][p])
					block_state_set(BLOCK_AT(d, p), IN.st[d][p]);
			}
			if (IN.size[d] > 0)
				VERIF_ASSUME(IN.st[d][IN.size[d] - 1] != 0);
			tommy_list_insert_tail(&ST.disklist, &D[d]->node, D[d]);
		}
}

void h_used_size(void)
{
	int d, p;
	block_off_t r, want = 0;
	VERIF_INPUTS();
	setup();
	r = parity_used_size(&ST);
	for (d = 0; d < ND; ++d)
		for (p = 0; p < NP; ++p)
			if (d < IN.ndisk && IN.st[d][p] == BLOCK_STATE_BLK && (block_off_t)p + 1 > want)
				want = p + 1;
	VERIF_ASSERT(r == want, "the parity size the recorded state requires is one past the last synced block (a file block with valid parity) on any disk");
	VERIF_CANARY();
}

void h_allocated_size(void)
{
	int d, p;
	block_off_t r, want = 0;
	VERIF_INPUTS();
	setup();
	r = parity_allocated_size(&ST);
	for (d = 0; d < ND; ++d)
		for (p = 0; p < NP; ++p)
			if (d < IN.ndisk && (IN.st[d][p] == BLOCK_STATE_BLK || IN.st[d][p] == BLOCK_STATE_REP || IN.st[d][p] == BLOCK_STATE_CHG) && (block_off_t)p + 1 > want)
				want = p + 1;
	VERIF_ASSERT(r == want, "the allocated parity size is one past the last block that belongs to a file (BLK / REP / CHG) on any disk");
	VERIF_CANARY();
}


/* parity_is_invalid (REAL): "a previous sync was incomplete" - some stripe below the allocated size holds a file block and a
 * block whose parity is not valid (CHG / REP / DELETED), on the same or on different disks */
void h_is_invalid(void)
{
	int d, p, r, want = 0;
	VERIF_INPUTS();
	setup();
	r = parity_is_invalid(&ST);
	for (p = 0; p < NP; ++p) {
		int has_file = 0, has_invalid = 0;
		for (d = 0; d < ND; ++d)
			if (d < IN.ndisk) {
				unsigned s = IN.st[d][p];
				if (s == BLOCK_STATE_BLK || s == BLOCK_STATE_CHG || s == BLOCK_STATE_REP)
					has_file = 1;
				if (s == BLOCK_STATE_CHG || s == BLOCK_STATE_REP || s == BLOCK_STATE_DELETED)
					has_invalid = 1;
			}
		if (has_file && has_invalid)
			want = 1;
	}
	VERIF_ASSERT(r == want, "the array needs a sync iff some stripe holds a file block and a block without valid parity");
	VERIF_CANARY();
}

#include "verif_tail.h"
