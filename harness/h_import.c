/*
 * Data taken from imported files during check/fix (cmdline/import.c state_import_fetch, REAL code included below).
 *   returns 0  ==> the bytes now in `buffer` were read and hashed IN THIS CALL, their digest equals the recorded hash of
 *                  the block being replaced over BLOCK_HASH_SIZE bytes, and the rest of the block is zero
 *   returns -1 ==> no candidate; the caller's buffer is untouched
 *   a candidate whose data does not (or no longer) hash to the record never yields 0 (the process stops)
 * tommy_hashdyn_search, open, pread, close, memhash by assumed contract (stubs below).
 */
#include "portable.h"
#include "support.h"
#include "elem.h"
#include "state.h"
#include "import.h"
#include "verif.h"

#define BS 8

struct verif_in {
	int found, rehash, hash_size;
	unsigned size;
	unsigned char filedata[BS], digest[HASH_MAX], recorded[HASH_MAX], before[BS];
	int pread_ret_delta;
};
VERIF_DECLARE_IN

static struct snapraid_import_block IB;
static struct snapraid_import_file IF;
static unsigned g_pread_calls, g_hash_calls, g_order, g_pread_when, g_hash_when;
static const void *g_hash_src;
static size_t g_hash_size;
static unsigned g_hash_kind;

#ifdef VERIF_CBMC
void *tommy_hashdyn_search(tommy_hashdyn *hashdyn, tommy_search_func *cmp, const void *cmp_arg, tommy_hash_t hash)
{
	(void)hashdyn; (void)cmp; (void)cmp_arg; (void)hash;
	return IN.found ? &IB : 0;
}
int open(const char *path, int flags, ...) { (void)path; (void)flags; return 5; }
int close(int fd) { (void)fd; return 0; }
ssize_t pread(int fd, void *buf, size_t n, off_t off)
{
	unsigned k;
	(void)fd; (void)off;
	++g_pread_calls;
	g_pread_when = ++g_order;
	for (k = 0; k < BS; ++k)
		if (k < n)
			((unsigned char *)buf)[k] = IN.filedata[k];
	return (ssize_t)n + IN.pread_ret_delta;
}
void memhash(unsigned kind, const unsigned char *seed, void *digest, const void *src, size_t size)
{
	int k;
	(void)seed;
	++g_hash_calls;
	g_hash_when = ++g_order;
	g_hash_src = src;
	g_hash_size = size;
	g_hash_kind = kind;
	for (k = 0; k < HASH_MAX; ++k)
		((unsigned char *)digest)[k] = IN.digest[k];
}
void log_fatal(const char *format, ...) { (void)format; }
void exit(int code) { (void)code; __CPROVER_assume(0); }
#endif

#include "cmdline/import.c"

void h_import_fetch(void)
{
	static struct snapraid_state st;
	static unsigned char blkmem[sizeof(struct snapraid_block) + HASH_MAX];
	struct snapraid_block *b = (struct snapraid_block *)blkmem;
	unsigned char buffer[BS];
	int r, k, eq = 1;
	VERIF_INPUTS();
	VERIF_ASSUME(IN.hash_size >= 2 && IN.hash_size <= HASH_MAX);
	VERIF_ASSUME(IN.size <= BS);
	VERIF_ASSUME(IN.pread_ret_delta >= -2 && IN.pread_ret_delta <= 0);
	BLOCK_HASH_SIZE = IN.hash_size;
	st.block_size = BS;
	st.hash = HASH_MURMUR3;
	st.prevhash = HASH_SPOOKY2;
	IB.file = &IF;
	IB.size = IN.size;
	IB.offset = 0;
	for (k = 0; k < HASH_MAX; ++k) {
		b->hash[k] = IN.recorded[k];
		if (k < IN.hash_size)
			eq &= IN.recorded[k] == IN.digest[k];
	}
	for (k = 0; k < BS; ++k)
		buffer[k] = IN.before[k];
#ifdef VERIF_NATIVE
	exit(77);
#endif
	r = state_import_fetch(&st, IN.rehash, b, buffer);

	VERIF_ASSERT(r == 0 || r == -1, "state_import_fetch returns 0 or -1");
	if (r == -1) {
		VERIF_ASSERT(!IN.found, "-1 only without a candidate");
		for (k = 0; k < BS; ++k)
			VERIF_ASSERT(buffer[k] == IN.before[k], "without a candidate the caller's buffer is untouched");
	} else {
		VERIF_ASSERT(IN.found && eq, "imported data is accepted only when its digest equals the recorded hash of the block it replaces");
		VERIF_ASSERT(g_pread_calls == 1 && g_hash_calls == 1 && g_pread_when < g_hash_when, "the data is hashed after it was read, in this call");
		VERIF_ASSERT(g_hash_src == buffer && g_hash_size == IN.size, "exactly the bytes placed in the buffer are hashed");
		VERIF_ASSERT(g_hash_kind == (IN.rehash ? HASH_SPOOKY2 : HASH_MURMUR3), "the previous hash kind is used exactly during a migration");
		for (k = 0; k < BS; ++k)
			VERIF_ASSERT(buffer[k] == ((unsigned)k < IN.size ? IN.filedata[k] : 0), "the buffer holds the imported bytes, zero padded to the block size");
	}
	VERIF_CANARY();
}

#include "verif_tail.h"
