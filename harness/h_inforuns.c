/*
 * 'i' (info) record of the content file (cmdline/state.c): the per-stripe book-keeping of scrub (time of the last check, bad,
 * rehash and just-synced marks) is saved as runs of equal words.  The writer loop of state_write_thread and the reader loop of
 * state_read_content are extracted mechanically and connected through the recorded stream of 32-bit integers.
 *   decode(encode(array)): EVERY stripe gets back its own word - marks unchanged, time unchanged except for the two documented
 *   normalisations (a time in the future becomes now; a time before the oldest recorded one becomes the oldest) - and a stripe
 *   without info stays without; the runs partition 0..blockmax in order.
 * Bounded: NP (3) stripes.  info_get / info_set / fs_info_is_required by stub over a small array.
 */
#include "portable.h"
#include "support.h"
#include "elem.h"
#include "state.h"
#include "stream.h"
#include "verif.h"

#define NP 3
#define NEV 12
struct verif_in {
	block_off_t blockmax;
	snapraid_info info[NP];
	uint32_t oldest, now;
};
VERIF_DECLARE_IN

#ifdef VERIF_CBMC
void log_fatal(const char *format, ...) { (void)format; }
void log_tag(const char *format, ...) { (void)format; }
#endif
static void v_abort(void)
{
	VERIF_ASSERT(0, "the reader accepts what the writer wrote");
#ifdef VERIF_NATIVE
	exit(1);
#else
	__CPROVER_assume(0);
#endif
}

static unsigned g_n, g_r;
static unsigned char g_kind[NEV];
static uint32_t g_val[NEV];
static int w_putc(int c, STREAM *s) { (void)s; VERIF_ASSERT(g_n < NEV, "event log"); g_kind[g_n] = 1; g_val[g_n] = (unsigned char)c; ++g_n; return 0; }
static int w_putb32(uint32_t v, STREAM *s) { (void)s; VERIF_ASSERT(g_n < NEV, "event log"); g_kind[g_n] = 2; g_val[g_n] = v; ++g_n; return 0; }
static int w_error(STREAM *s) { (void)s; return 0; }
static const char *w_errorfile(STREAM *s) { (void)s; return "content"; }
static int r_getb32(STREAM *s, uint32_t *v) { (void)s; VERIF_ASSERT(g_r < g_n && g_kind[g_r] == 2, "the reader asks for an integer where the writer put one"); *v = g_val[g_r++]; return 0; }
static void decoding_error(const char *path, STREAM *f) { (void)path; (void)f; }

static snapraid_info g_out[NP];
static unsigned g_set[NP];
static snapraid_info v_info_get(tommy_arrayblkof *a, block_off_t pos) { (void)a; VERIF_ASSERT(pos < IN.blockmax && pos < NP, "a stripe of the array"); return IN.info[pos]; }
static void v_info_set(tommy_arrayblkof *a, block_off_t pos, snapraid_info info) { (void)a; VERIF_ASSERT(pos < IN.blockmax && pos < NP, "a stripe of the array"); g_out[pos] = info; ++g_set[pos]; }
static int v_required(struct snapraid_state *state, block_off_t pos) { (void)state; VERIF_ASSERT(pos < NP, "a stripe of the array"); return IN.info[pos] != 0; }

#define sputc w_putc
#define sputb32 w_putb32
#define serror w_error
#define serrorfile w_errorfile
#define sgetb32 r_getb32
#define os_abort v_abort
#define info_get v_info_get
#define info_set v_info_set
#define fs_info_is_required v_required
#include "region_info_write.c"
#include "region_info_read.c"
#undef sputc
#undef sputb32
#undef serror
#undef serrorfile
#undef sgetb32
#undef os_abort
#undef info_get
#undef info_set
#undef fs_info_is_required

void h_inforuns(void)
{
	static struct snapraid_state ST;
	block_off_t p;
	unsigned e, covered = 0, k;
	VERIF_INPUTS();
	VERIF_ASSUME(IN.blockmax <= NP);
	/* times are 32-bit seconds; the oldest time is the minimum over the stripes with info, computed by the caller */
	VERIF_ASSUME(IN.oldest <= IN.now && IN.now < 0x7fffffff);
	/* time-stamps are real clock values: not within the first seconds of 1970, where a time would be indistinguishable from "no info" */
	VERIF_ASSUME(IN.oldest > INFO_MASK);
	ST.prevhash = HASH_MURMUR3; /* a migration may be in progress */
	for (p = 0; p < NP; ++p) { g_out[p] = 0xdeadbeef; g_set[p] = 0; }
	g_n = g_r = 0;
	VERIF_ASSERT(region_info_write(&ST, 0, IN.blockmax, (time_t)IN.oldest, (time_t)IN.now, (void *)1) == 0, "the writer completes");
	VERIF_ASSERT(g_n >= 2 && g_kind[0] == 1 && g_val[0] == 'i' && g_kind[1] == 2 && g_val[1] == IN.oldest, "the record starts with its letter and the oldest time");
	e = 2;
	for (k = 0; k < NP; ++k)
		if (e < g_n) {
			unsigned cnt = g_val[e];
			VERIF_ASSERT(g_kind[e] == 2 && g_kind[e + 1] == 2, "a run is a count and a flag word");
			VERIF_ASSERT(cnt >= 1 && covered + cnt <= IN.blockmax, "runs are not empty and stay inside the array");
			e += (g_val[e + 1] & 1) ? 3 : 2;
			covered += cnt;
		}
	VERIF_ASSERT(e == g_n && covered == IN.blockmax, "the runs cover every stripe exactly once, in order");
	g_r = 1; /* the letter is consumed by the dispatcher */
	region_info_read(&ST, 0, "content", IN.blockmax);
	VERIF_ASSERT(g_r == g_n, "the reader consumes exactly what the writer produced");
	for (p = 0; p < NP; ++p)
		if (p < IN.blockmax) {
			snapraid_info in = IN.info[p], want = 0;
			if (in) {
				time_t t = info_get_time(in);
				if (t > (time_t)IN.now)
					t = IN.now;
				if (t < (time_t)IN.oldest)
					t = IN.oldest;
				want = info_make(t, info_get_bad(in), info_get_rehash(in), info_get_justsynced(in));
			}
			VERIF_ASSERT(g_set[p] == 1, "every stripe gets its info once");
			VERIF_ASSERT(g_out[p] == want, "the info of every stripe survives a save and reload: marks unchanged, time unchanged (a time in the future becomes now, one before the oldest recorded becomes the oldest); no info stays no info");
		}
	VERIF_CANARY();
}

#include "verif_tail.h"
