/*
 * Reading one data block for sync (cmdline/sync.c), property C08 (and the "files must not change during a sync" part of C11):
 *   sync_data_reader   whole function body, extracted mechanically, callees routed to stubs:
 *        the task is DONE with data only if the file could be opened, still has the recorded size, time-stamp
 *        (seconds AND nanoseconds) and inode, and the read succeeded; an EIO while reading the block is
 *        IOERROR_CONTINUE (counted, stripe marked bad later, sync goes on); an EIO while opening / closing stops the sync
 *        (IOERROR); a missing / unreadable / changed file is ERROR_CONTINUE (stripe skipped, not recorded); anything
 *        else stops (ERROR).  An unused slot or a block without a file yields a zero block.
 *   task-state region  of state_sync_process ("handle error conditions"): what each reader outcome does to the counters and
 *        to the per-stripe flags the completion step (unit sync.complete.region) works on
 */
#include "portable.h"
#include "support.h"
#include "elem.h"
#include "state.h"
#include "parity.h"
#include "handle.h"
#include "io.h"
#include "verif.h"

#define BS 8

struct verif_in {
	int has_disk, bstate;
	int handle_holds;            /* 0 nothing, 1 the file of the block, 2 another file */
	int close_ret, close_errno, open_ret, open_errno, read_ret, read_errno;
	int64_t st_size_, st_mtime_, f_size, f_mtime;
	int st_nsec_, f_nsec;
	uint64_t st_ino_, f_ino;
	unsigned char before[BS];
	/* parity reader / writer */
	int p_ret, p_errno;
	unsigned p_level;
	/* task-state region */
	int tstate;
	unsigned io_error, error, io_error_limit;
};
VERIF_DECLARE_IN

#ifdef VERIF_CBMC
void log_tag(const char *format, ...) { (void)format; }
void log_fatal(const char *format, ...) { (void)format; }
void log_error(const char *format, ...) { (void)format; }
void os_abort(void) { VERIF_ASSERT(0, "os_abort() unreachable: every reader outcome is handled"); __CPROVER_assume(0); }
void pathcpy(char *dst, size_t size, const char *src) { (void)src; if (size) dst[0] = 0; }
#endif

static struct snapraid_disk DK;
static struct snapraid_file FL, OTHER;
static unsigned char BLKMEM[64];
static unsigned g_close, g_open, g_read;
static unsigned char *g_read_buf;
static block_off_t g_read_pos;

static struct snapraid_block *r_find(struct snapraid_disk *disk, block_off_t pos) { (void)disk; VERIF_ASSERT(pos == 9, "the block of the stripe being read"); return IN.bstate ? (struct snapraid_block *)BLKMEM : BLOCK_NULL; }
static struct snapraid_file *r_fileget(struct snapraid_disk *disk, block_off_t pos, block_off_t *file_pos) { (void)disk; (void)pos; *file_pos = 3; return &FL; }
static int r_close(struct snapraid_handle *h) { ++g_close; h->file = 0; h->f = -1; if (IN.close_ret) { errno = IN.close_errno; return -1; } return 0; }
static int r_open(struct snapraid_handle *h, struct snapraid_file *file, int mode, fptr *out, fptr *out_missing)
{
	(void)mode; (void)out; (void)out_missing;
	++g_open;
	VERIF_ASSERT(file == &FL, "the file owning the block is opened");
	if (IN.open_ret) { errno = IN.open_errno; return -1; }
	h->file = file; h->f = 5;
	h->st.st_size = IN.st_size_; h->st.st_mtime = IN.st_mtime_; h->st.st_mtim.tv_nsec = IN.st_nsec_; h->st.st_ino = IN.st_ino_;
	return 0;
}
static int r_read(struct snapraid_handle *h, block_off_t file_pos, unsigned char *buf, unsigned block_size, fptr *out, fptr *out_missing)
{
	(void)h; (void)out; (void)out_missing;
	++g_read; g_read_buf = buf; g_read_pos = file_pos;
	if (IN.read_ret < 0) { errno = IN.read_errno; return -1; }
	return (int)block_size;
}
static const char *r_esc(const char *str, char *buffer) { (void)buffer; return str; }
static const char *r_fmt(const struct snapraid_disk *disk, const char *str, char *buffer) { (void)disk; (void)buffer; return str; }

#define fs_par2block_find r_find
#define fs_par2file_get r_fileget
#define handle_close r_close
#define handle_open r_open
#define handle_read r_read
#define esc_tag r_esc
#define fmt_poll r_fmt
#include "region_sync_data_reader.c"
#include "region_sync_task_state.c"
#ifdef VERIF_SCRUB_READER
#include "region_scrub_data_reader.c"
#endif
#undef fs_par2block_find
#undef fs_par2file_get
#undef handle_close
#undef handle_open
#undef handle_read
#undef esc_tag
#undef fmt_poll

void h_sync_data_reader(void)
{
	static struct snapraid_state ST;
	static struct snapraid_io IO;
	static struct snapraid_worker W;
	static struct snapraid_handle H;
	static struct snapraid_task T;
	static unsigned char BUF[BS];
	int k, has_file, unchanged;
	VERIF_INPUTS();
	VERIF_ASSUME(IN.bstate == 0 || IN.bstate == BLOCK_STATE_BLK || IN.bstate == BLOCK_STATE_CHG || IN.bstate == BLOCK_STATE_REP || IN.bstate == BLOCK_STATE_DELETED);
	VERIF_ASSUME(IN.handle_holds >= 0 && IN.handle_holds <= 2);
	VERIF_ASSUME(IN.st_nsec_ >= 0 && IN.st_nsec_ < 1000000000);
	if (IN.bstate)
		block_state_set((struct snapraid_block *)BLKMEM, IN.bstate);
	ST.block_size = BS;
	IO.state = &ST;
	W.io = &IO;
	W.handle = &H;
	H.disk = IN.has_disk ? &DK : 0;
	H.file = IN.handle_holds == 1 ? &FL : IN.handle_holds == 2 ? &OTHER : 0;
	H.f = IN.handle_holds ? 5 : -1;
	FL.sub = "f"; OTHER.sub = "g";
	FL.size = IN.f_size; FL.mtime_sec = IN.f_mtime; FL.mtime_nsec = IN.f_nsec; FL.inode = IN.f_ino;
	T.position = 9;
	T.buffer = BUF;
	T.state = -1;
	for (k = 0; k < BS; ++k)
		BUF[k] = IN.before[k];
	g_close = g_open = g_read = 0;

	region_sync_data_reader(&W, &T);

	has_file = IN.has_disk && (IN.bstate == BLOCK_STATE_BLK || IN.bstate == BLOCK_STATE_CHG || IN.bstate == BLOCK_STATE_REP);
	unchanged = IN.st_size_ == IN.f_size && IN.st_mtime_ == IN.f_mtime && IN.st_nsec_ == IN.f_nsec && IN.st_ino_ == IN.f_ino;
	if (!has_file) {
		VERIF_ASSERT(T.state == TASK_STATE_DONE && g_open == 0 && g_read == 0, "an unused slot or a block without a file reads nothing");
		for (k = 0; k < BS; ++k)
			VERIF_ASSERT(BUF[k] == 0, "and contributes a zero block to the parity");
	} else {
		int closed_failed = IN.handle_holds == 2 && IN.close_ret;
		if (T.state == TASK_STATE_DONE) {
			VERIF_ASSERT(!closed_failed && !IN.open_ret && unchanged && IN.read_ret >= 0,
				"a data block is handed to the parity computation only if its file opened, still has the recorded size, time-stamp and inode, and the read succeeded");
			VERIF_ASSERT(g_read == 1 && g_read_buf == BUF && g_read_pos == 3 && T.read_size == BS && T.file == &FL && T.file_pos == 3, "the block read is the one of this stripe, into the buffer of this task");
		}
		if (!closed_failed && !IN.open_ret && unchanged && IN.read_ret >= 0)
			VERIF_ASSERT(T.state == TASK_STATE_DONE, "a healthy read is not reported as an error");
		if (!closed_failed && !IN.open_ret && unchanged && IN.read_ret < 0)
			VERIF_ASSERT(T.state == (IN.read_errno == EIO ? TASK_STATE_IOERROR_CONTINUE : TASK_STATE_ERROR), "a read failing with EIO is an I/O error of this stripe (sync continues); any other read error stops the sync");
		if (!closed_failed && !IN.open_ret && !unchanged)
			VERIF_ASSERT(T.state == TASK_STATE_ERROR_CONTINUE && g_read == 0, "a file changed since the scan is not read: the stripe is skipped with an error");
		if (!closed_failed && IN.open_ret)
			VERIF_ASSERT(T.state == (IN.open_errno == EIO ? TASK_STATE_IOERROR : (IN.open_errno == ENOENT || IN.open_errno == EACCES) ? TASK_STATE_ERROR_CONTINUE : TASK_STATE_ERROR),
				"open: EIO stops the sync as an I/O error, a missing or inaccessible file skips the stripe, anything else stops the sync");
		if (closed_failed)
			VERIF_ASSERT(T.state == (IN.close_errno == EIO ? TASK_STATE_IOERROR : TASK_STATE_ERROR) && g_open == 0, "a failing close stops the sync");
		VERIF_ASSERT(T.state == TASK_STATE_DONE || T.state == TASK_STATE_IOERROR_CONTINUE || T.state == TASK_STATE_ERROR_CONTINUE || T.state == TASK_STATE_IOERROR || T.state == TASK_STATE_ERROR, "the task always ends in a defined state");
	}
	VERIF_CANARY();
}

void h_sync_task_state(void)
{
	static struct snapraid_state ST;
	static struct snapraid_task T;
	unsigned io_error = IN.io_error, error = IN.error;
	int error_on = 0, io_error_on = 0, bailed = 0, fell = 0;
	VERIF_INPUTS();
	io_error = IN.io_error; error = IN.error;
	VERIF_ASSUME(IN.io_error < 1000000 && IN.error < 1000000);
	VERIF_ASSUME(IN.tstate == TASK_STATE_DONE || IN.tstate == TASK_STATE_IOERROR_CONTINUE || IN.tstate == TASK_STATE_ERROR_CONTINUE || IN.tstate == TASK_STATE_IOERROR || IN.tstate == TASK_STATE_ERROR);
	ST.opt.io_error_limit = IN.io_error_limit;
	T.state = IN.tstate;
	DK.dir[0] = 0;
	region_sync_task_state(&ST, &T, &DK, 9, &io_error, &error, &error_on, &io_error_on, &bailed, &fell);
	if (IN.tstate == TASK_STATE_DONE)
		VERIF_ASSERT(fell && !bailed && io_error == IN.io_error && error == IN.error && !error_on && !io_error_on, "a block read correctly goes on to the hash check and raises nothing");
	if (IN.tstate == TASK_STATE_IOERROR)
		VERIF_ASSERT(bailed && io_error == IN.io_error + 1, "a fatal I/O error is counted and stops the sync");
	if (IN.tstate == TASK_STATE_ERROR)
		VERIF_ASSERT(bailed && error == IN.error + 1, "a fatal error is counted and stops the sync");
	if (IN.tstate == TASK_STATE_ERROR_CONTINUE)
		VERIF_ASSERT(!bailed && !fell && error == IN.error + 1 && error_on && !io_error_on, "a skippable error is counted and flags the stripe: it will not be recorded as synced");
	if (IN.tstate == TASK_STATE_IOERROR_CONTINUE) {
		VERIF_ASSERT(io_error == IN.io_error + 1 && !fell, "an I/O error of one block is counted and its data is not used");
		if (IN.io_error + 1 >= IN.io_error_limit)
			VERIF_ASSERT(bailed, "reaching the I/O error limit stops the sync");
		else
			VERIF_ASSERT(!bailed && io_error_on && !error_on, "below the limit the stripe is flagged (it will be marked bad) and sync goes on");
	}
	VERIF_CANARY();
}


/*
 * scrub_data_reader (cmdline/scrub.c, whole body extracted): like the sync reader, but a scrub of an array that is not in
 * sync must go on: a file whose size or time-stamp differs is READ anyway and only flagged (is_timestamp_different: the
 * stripe is then classified as unsynced, unit scrub.classify.region); an EIO while reading is IOERROR_CONTINUE (stripe
 * marked bad), any other open / read failure is ERROR_CONTINUE; EIO on open / a failing close stop the scrub.
 */
#ifdef VERIF_SCRUB_READER
void h_scrub_data_reader(void)
{
	static struct snapraid_state ST;
	static struct snapraid_io IO;
	static struct snapraid_worker W;
	static struct snapraid_handle H;
	static struct snapraid_task T;
	static unsigned char BUF[BS];
	int k, has_file, same_stamp;
	VERIF_INPUTS();
	VERIF_ASSUME(IN.bstate == 0 || IN.bstate == BLOCK_STATE_BLK || IN.bstate == BLOCK_STATE_CHG || IN.bstate == BLOCK_STATE_REP || IN.bstate == BLOCK_STATE_DELETED);
	VERIF_ASSUME(IN.handle_holds >= 0 && IN.handle_holds <= 2);
	VERIF_ASSUME(IN.st_nsec_ >= 0 && IN.st_nsec_ < 1000000000);
	if (IN.bstate)
		block_state_set((struct snapraid_block *)BLKMEM, IN.bstate);
	ST.block_size = BS;
	IO.state = &ST;
	W.io = &IO;
	W.handle = &H;
	H.disk = IN.has_disk ? &DK : 0;
	H.file = IN.handle_holds == 1 ? &FL : IN.handle_holds == 2 ? &OTHER : 0;
	H.f = IN.handle_holds ? 5 : -1;
	FL.sub = "f"; OTHER.sub = "g";
	FL.size = IN.f_size; FL.mtime_sec = IN.f_mtime; FL.mtime_nsec = IN.f_nsec; FL.inode = IN.f_ino;
	T.position = 9;
	T.buffer = BUF;
	T.state = -1;
	T.is_timestamp_different = 0; /* reset by io.c for every task */
	for (k = 0; k < BS; ++k)
		BUF[k] = IN.before[k];
	g_close = g_open = g_read = 0;

	region_scrub_data_reader(&W, &T);

	has_file = IN.has_disk && (IN.bstate == BLOCK_STATE_BLK || IN.bstate == BLOCK_STATE_CHG || IN.bstate == BLOCK_STATE_REP);
	same_stamp = IN.st_size_ == IN.f_size && IN.st_mtime_ == IN.f_mtime && IN.st_nsec_ == IN.f_nsec;
	if (!has_file) {
		VERIF_ASSERT(T.state == TASK_STATE_DONE && g_open == 0 && g_read == 0, "an unused slot or a block without a file reads nothing");
		for (k = 0; k < BS; ++k)
			VERIF_ASSERT(BUF[k] == 0, "and contributes a zero block");
	} else {
		int closed_failed = IN.handle_holds == 2 && IN.close_ret;
		if (closed_failed)
			VERIF_ASSERT(T.state == (IN.close_errno == EIO ? TASK_STATE_IOERROR : TASK_STATE_ERROR) && g_open == 0, "a failing close stops the scrub");
		else if (IN.open_ret)
			VERIF_ASSERT(T.state == (IN.open_errno == EIO ? TASK_STATE_IOERROR : TASK_STATE_ERROR_CONTINUE) && g_read == 0, "open: EIO stops the scrub as an I/O error, any other failure is an error of this stripe");
		else {
			VERIF_ASSERT(g_read == 1 && g_read_buf == BUF && g_read_pos == 3, "the block of this stripe is read even when the file looks changed");
			VERIF_ASSERT(T.is_timestamp_different == !same_stamp, "a file whose size or time-stamp (seconds or nanoseconds) differs from the record is flagged as not synced, and only such a file");
			if (IN.read_ret < 0)
				VERIF_ASSERT(T.state == (IN.read_errno == EIO ? TASK_STATE_IOERROR_CONTINUE : TASK_STATE_ERROR_CONTINUE), "a read failing with EIO is an I/O error of this stripe; another read error is a plain error of this stripe");
			else
				VERIF_ASSERT(T.state == TASK_STATE_DONE && T.read_size == BS && T.file == &FL && T.file_pos == 3, "a successful read hands the block to the verification");
		}
	}
	VERIF_CANARY();
}
#endif


/* ---------------------------------------------------------------- scrub_parity_reader / sync_parity_writer (whole bodies extracted) */
#ifdef VERIF_PARITY_RW
static unsigned g_pr_calls, g_pw_calls2;
static struct snapraid_parity_handle *g_p_handle;
static block_off_t g_p_pos;
static unsigned char *g_p_buf;
static int q_parity_read(struct snapraid_parity_handle *h, block_off_t pos, unsigned char *buf, unsigned bs, fptr *out)
{ (void)bs; (void)out; ++g_pr_calls; g_p_handle = h; g_p_pos = pos; g_p_buf = buf; if (IN.p_ret) { errno = IN.p_errno; return -1; } return 0; }
static int q_parity_write(struct snapraid_parity_handle *h, block_off_t pos, unsigned char *buf, unsigned bs)
{ (void)bs; ++g_pw_calls2; g_p_handle = h; g_p_pos = pos; g_p_buf = buf; if (IN.p_ret) { errno = IN.p_errno; return -1; } return 0; }
static const char *q_lev(unsigned l) { (void)l; return "p"; }
#define parity_read q_parity_read
#define parity_write q_parity_write
#define lev_config_name q_lev
#define lev_name q_lev
#include "region_scrub_parity_reader.c"
#include "region_sync_parity_writer.c"
#undef parity_read
#undef parity_write
#undef lev_config_name
#undef lev_name

void h_parity_rw(void)
{
	static struct snapraid_state ST;
	static struct snapraid_io IO;
	static struct snapraid_worker W;
	static struct snapraid_parity_handle PH;
	static struct snapraid_task T;
	static unsigned char BUF[BS];
	VERIF_INPUTS();
	VERIF_ASSUME(IN.p_level < LEV_MAX);
	ST.block_size = BS;
	IO.state = &ST;
	W.io = &IO;
	W.parity_handle = &PH;
	PH.level = IN.p_level;
	T.position = 9;
	T.buffer = BUF;
	T.state = -1;
	g_pr_calls = g_pw_calls2 = 0;
	region_scrub_parity_reader(&W, &T);
	VERIF_ASSERT(g_pr_calls == 1 && g_p_handle == &PH && g_p_pos == 9 && g_p_buf == BUF, "the parity block of this stripe is read into the buffer of this task");
	VERIF_ASSERT(T.state == (!IN.p_ret ? TASK_STATE_DONE : IN.p_errno == EIO ? TASK_STATE_IOERROR_CONTINUE : TASK_STATE_ERROR_CONTINUE),
		"parity read: DONE only when the read succeeded; EIO is an I/O error of this stripe, anything else a plain error of this stripe");
	T.state = -1;
	region_sync_parity_writer(&W, &T);
	VERIF_ASSERT(g_pw_calls2 == 1 && g_p_handle == &PH && g_p_pos == 9 && g_p_buf == BUF, "the parity block of this stripe is written from the buffer of this task");
	VERIF_ASSERT(T.state == (!IN.p_ret ? TASK_STATE_DONE : IN.p_errno == EIO ? TASK_STATE_IOERROR_CONTINUE : TASK_STATE_ERROR),
		"parity write: DONE only when the write succeeded; EIO is counted and sync goes on, any other failure stops the sync");
	VERIF_CANARY();
}
#endif

#include "verif_tail.h"
