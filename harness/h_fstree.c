/*
 * Block map of a disk, the search side (cmdline/elem.c and tommyds/tommytree.c, REAL code):
 *
 *   comparator lemmas (for EVERY extent and argument, no bound):
 *     extent_disk_empty_compare_unlock   0 iff the extent has a position below blockmax, otherwise "search a smaller one"
 *     extent_parity_inside_compare_unlock 0 iff the position lies inside the extent, otherwise the side the position is on
 *     extent_file_inside_compare_unlock  same per (file, file position)
 *     extent_parity_compare              the order of the parity tree is the order of parity_pos
 *   search units over a REAL tommy_tree of at most 7 extents (every shape of a depth-3 search tree whose in-order
 *   sequence is strictly increasing and non overlapping, as fs_check() demands) - bounded:
 *     fs_is_empty      1 iff the disk has no file, link or dir and no extent (live or deleted) starts below blockmax
 *     fs_par2extent_get_unlock / fs_par2file_find / fs_par2block_find
 *                      return the extent holding the position (with every value of the last-extent cache), 0 otherwise
 *     fs_size          one past the highest position of any extent
 */
#include "portable.h"
#include "support.h"
#include "elem.h"
#include "state.h"
#include "verif.h"

#define NN 7

struct verif_in {
	block_off_t pos[NN], cnt[NN], fpos[NN];
	int present[NN];
	int has_file, has_link, has_dir;
	block_off_t blockmax;      /* fs_is_empty */
	block_off_t p;             /* position searched */
	int last;                  /* last-extent cache: -1 none, else index */
	/* comparator lemmas */
	block_off_t e_pos, e_cnt, e_fpos, a_pos;
	int file_rel;              /* -1, 0, +1: argument file before / same / after the extent's file */
};
VERIF_DECLARE_IN

#ifdef VERIF_CBMC
void *malloc_nofail(size_t size) { void *q = malloc(size); __CPROVER_assume(q != 0); return q; }
void log_fatal(const char *format, ...) { (void)format; }
void os_abort(void) { __CPROVER_assume(0); }
/* the REAL tree (natively it comes from the library built from the current tree) */
#include "tommyds/tommytree.c"
#endif

#include "cmdline/elem.c"

/* separate objects, not an array of structs (DESIGN 2.3) */
static struct snapraid_extent N0, N1, N2, N3, N4, N5, N6;
static struct snapraid_extent *const N[NN] = { &N0, &N1, &N2, &N3, &N4, &N5, &N6 };
static struct snapraid_file FILES[3];
static struct snapraid_disk disk;
static unsigned char BLOCKS[4 * 64]; /* block vector of the file (elements of block_sizeof() bytes) */

/* in-order index -> children in a complete tree of 7 */
static const int left_of[NN] = { -1, 0, -1, 1, -1, 4, -1 };
static const int right_of[NN] = { -1, 2, -1, 5, -1, 6, -1 };
static const int parent_of[NN] = { 1, 3, 1, -1, 5, 3, 5 };

static void build_tree(void)
{
	int k;
	uint64_t end = 0;
	int any = 0;
	for (k = 0; k < NN; ++k) {
		VERIF_ASSUME(IN.present[k] == 0 || IN.present[k] == 1);
		if (parent_of[k] >= 0 && IN.present[k])
			VERIF_ASSUME(IN.present[parent_of[k]]);
		if (IN.present[k]) {
			VERIF_ASSUME(IN.cnt[k] >= 1);
			VERIF_ASSUME((uint64_t)IN.pos[k] + IN.cnt[k] <= 0xffffffffull);
			VERIF_ASSUME((uint64_t)IN.fpos[k] + IN.cnt[k] <= 0xffffffffull);
			/* strictly increasing and not overlapping (what fs_check verifies after every command) */
			if (any)
				VERIF_ASSUME(IN.pos[k] >= end);
			end = (uint64_t)IN.pos[k] + IN.cnt[k];
			any = 1;
		}
		N[k]->file = &FILES[0];
		N[k]->parity_pos = IN.pos[k];
		N[k]->file_pos = IN.fpos[k];
		N[k]->count = IN.cnt[k];
		N[k]->parity_node.data = N[k];
		N[k]->parity_node.prev = (left_of[k] >= 0 && IN.present[left_of[k]]) ? &N[left_of[k]]->parity_node : 0;
		N[k]->parity_node.next = (right_of[k] >= 0 && IN.present[right_of[k]]) ? &N[right_of[k]]->parity_node : 0;
	}
	FILES[0].blockmax = 0xffffffffu;
	FILES[0].blockvec = (struct snapraid_block *)BLOCKS;
	FILES[0].sub = "f";
	disk.fs_parity.root = IN.present[3] ? &N[3]->parity_node : 0;
	disk.fs_parity.cmp = extent_parity_compare;
	disk.fs_mutex_enabled = 0;
	disk.fs_last = 0;
}

/* ---------------------------------------------------------------- comparator lemmas */
void h_cmp_disk_empty(void)
{
	struct extent_disk_empty arg;
	struct snapraid_extent e;
	int r, has_pos_below;
	VERIF_INPUTS();
	VERIF_ASSUME(IN.e_cnt >= 1 && (uint64_t)IN.e_pos + IN.e_cnt <= 0xffffffffull);
	e.file = &FILES[0];
	e.parity_pos = IN.e_pos;
	e.file_pos = IN.e_fpos;
	e.count = IN.e_cnt;
	arg.blockmax = IN.blockmax;
	r = extent_disk_empty_compare_unlock(&arg, &e);
	/* some position q of the extent has q < blockmax  <=>  its first one has */
	has_pos_below = IN.e_pos < IN.blockmax;
	VERIF_ASSERT((r == 0) == has_pos_below, "an extent counts as used space iff ANY of its positions lies below blockmax");
	VERIF_ASSERT(r <= 0, "otherwise the search goes on among the extents at lower positions only");
	VERIF_CANARY();
}

void h_cmp_parity_inside(void)
{
	struct extent_parity_inside arg;
	struct snapraid_extent e, probe;
	int r, o;
	VERIF_INPUTS();
	VERIF_ASSUME(IN.e_cnt >= 1 && (uint64_t)IN.e_pos + IN.e_cnt <= 0xffffffffull);
	e.file = &FILES[0];
	e.parity_pos = IN.e_pos;
	e.file_pos = IN.e_fpos;
	e.count = IN.e_cnt;
	arg.parity_pos = IN.a_pos;
	r = extent_parity_inside_compare_unlock(&arg, &e);
	VERIF_ASSERT((r == 0) == (IN.a_pos >= IN.e_pos && IN.a_pos - IN.e_pos < IN.e_cnt), "a position is found in an extent iff it lies inside it");
	VERIF_ASSERT((r < 0) == (IN.a_pos < IN.e_pos), "a position before the extent is searched among the lower extents");
	/* the tree order is the order of the first position */
	probe = e;
	probe.parity_pos = IN.a_pos;
	o = extent_parity_compare(&probe, &e);
	VERIF_ASSERT((o < 0) == (IN.a_pos < IN.e_pos) && (o == 0) == (IN.a_pos == IN.e_pos), "the parity tree is ordered by first parity position");
	VERIF_CANARY();
}

void h_cmp_file_inside(void)
{
	struct extent_file_inside arg;
	struct snapraid_extent e, probe;
	int r, o;
	VERIF_INPUTS();
	VERIF_ASSUME(IN.e_cnt >= 1 && (uint64_t)IN.e_fpos + IN.e_cnt <= 0xffffffffull);
	VERIF_ASSUME(IN.file_rel >= -1 && IN.file_rel <= 1);
	e.file = &FILES[1];
	e.parity_pos = IN.e_pos;
	e.file_pos = IN.e_fpos;
	e.count = IN.e_cnt;
	arg.file = &FILES[1 + IN.file_rel];
	arg.file_pos = IN.a_pos;
	r = extent_file_inside_compare_unlock(&arg, &e);
	VERIF_ASSERT((r == 0) == (IN.file_rel == 0 && IN.a_pos >= IN.e_fpos && IN.a_pos - IN.e_fpos < IN.e_cnt), "a file position is found in an extent iff the extent belongs to that file and contains it");
	if (IN.file_rel != 0)
		VERIF_ASSERT((r < 0) == (IN.file_rel < 0), "extents of other files are ordered by file");
	else
		VERIF_ASSERT((r < 0) == (IN.a_pos < IN.e_fpos), "within a file the search follows the file position");
	probe = e;
	probe.file = arg.file;
	probe.file_pos = IN.a_pos;
	o = extent_file_compare(&probe, &e);
	if (IN.file_rel != 0)
		VERIF_ASSERT((o < 0) == (IN.file_rel < 0) && o != 0, "the file tree is ordered by file first");
	else
		VERIF_ASSERT((o < 0) == (IN.a_pos < IN.e_fpos) && (o == 0) == (IN.a_pos == IN.e_fpos), "and by first file position within a file");
	VERIF_CANARY();
}

/* ---------------------------------------------------------------- searches over a real tree */
void h_fs_is_empty(void)
{
	static tommy_node dummy;
	int k, r, used = 0;
	VERIF_INPUTS();
	build_tree();
	disk.filelist = IN.has_file ? &dummy : 0;
	disk.linklist = IN.has_link ? &dummy : 0;
	disk.dirlist = IN.has_dir ? &dummy : 0;
	r = fs_is_empty(&disk, IN.blockmax);
	for (k = 0; k < NN; ++k)
		if (IN.present[k] && IN.pos[k] < IN.blockmax)
			used = 1;
	VERIF_ASSERT(r == (!IN.has_file && !IN.has_link && !IN.has_dir && !used),
		"a disk is empty iff it has no file, link or dir and no extent (live or deleted) with a block below the parity size");
	VERIF_CANARY();
}

void h_fs_par2extent(void)
{
	int k, hit = -1;
	struct snapraid_extent *e;
	struct snapraid_file *f;
	struct snapraid_block *b;
	block_off_t fp = 0;
	VERIF_INPUTS();
	build_tree();
	VERIF_ASSUME(IN.last >= -1 && IN.last < NN);
	if (IN.last >= 0)
		VERIF_ASSUME(IN.present[IN.last]);
	for (k = 0; k < NN; ++k)
		if (IN.present[k] && IN.p >= IN.pos[k] && IN.p - IN.pos[k] < IN.cnt[k])
			hit = k;
	disk.fs_last = IN.last >= 0 ? N[IN.last] : 0;
	e = fs_par2extent_get_unlock(&disk, &disk.fs_last, IN.p);
	VERIF_ASSERT(e == (hit >= 0 ? N[hit] : 0), "the extent returned for a parity position is the one containing it, or none");
	if (hit >= 0)
		VERIF_ASSERT(disk.fs_last == N[hit], "the cache of the last extent follows the result");
	else
		VERIF_ASSERT(disk.fs_last == (IN.last >= 0 ? N[IN.last] : 0), "a miss leaves the cache alone");

	f = fs_par2file_find(&disk, IN.p, &fp);
	VERIF_ASSERT(f == (hit >= 0 ? &FILES[0] : 0), "fs_par2file_find: the file owning the position, or none");
	if (hit >= 0)
		VERIF_ASSERT(fp == IN.fpos[hit] + (IN.p - IN.pos[hit]), "fs_par2file_find: file position = extent file position + offset inside the extent");
	if (hit < 0 || fp < 4) {
		b = fs_par2block_find(&disk, IN.p);
		VERIF_ASSERT(b == (hit >= 0 ? file_block(&FILES[0], fp) : BLOCK_NULL), "fs_par2block_find: the block of that file position, or BLOCK_NULL");
	}
	VERIF_CANARY();
}

void h_fs_size(void)
{
	int k;
	block_off_t r, want = 0;
	VERIF_INPUTS();
	build_tree();
	r = fs_size(&disk);
	for (k = 0; k < NN; ++k)
		if (IN.present[k] && IN.pos[k] + IN.cnt[k] > want)
			want = IN.pos[k] + IN.cnt[k];
	VERIF_ASSERT(r == want, "fs_size is one past the highest parity position of any extent");
	VERIF_CANARY();
}

#include "verif_tail.h"
