/*
 * Safety interlocks of sync (property C14): the DECISION of each interlock, on mechanically extracted regions of the real
 * code.  "refuse" == the region calls exit() with a failing status; every exit() inside a region is routed to
 * verif_exit(), which checks that a refusal was due, and after the region returns the driver checks that none was due.
 *
 *   scan_empty   (cmdline/scan.c, end of state_diffscan)  all files previously known on a disk missing or rewritten,
 *                unless --force-empty; diff only reports
 *   sync_psize   (cmdline/sync.c, head of state_sync)     a parity file smaller than the recorded state requires, unless
 *                --force-full / --force-realloc; runs BEFORE any parity_chsize / state_write (they are after the region)
 *   state_z / state_y / state_m (cmdline/state.c, state_read_content)  block size, hash size, disk missing from the
 *                configuration
 * What is NOT here: that nothing was modified before the refusal (a whole-program ordering fact), the lock file, and the
 * zero-size interlock (see h_scanfile.c).
 */
#include "portable.h"
#include "support.h"
#include "elem.h"
#include "state.h"
#include "parity.h"
#include "handle.h"
#include "stream.h"
#include "verif.h"

#define ND 3

struct verif_in {
	/* scan_empty */
	unsigned c_equal[ND], c_move[ND], c_restore[ND], c_change[ND], c_remove[ND], c_insert[ND], c_copy[ND];
	int ndisk;
	int force_empty, is_diff;
	/* sync_psize */
	unsigned level;
	int create_ret[LEV_MAX];
	data_off_t psize[LEV_MAX];
	block_off_t used, blockstart, blockcount, allocated;
	int force_full, force_realloc;
	/* state records */
	uint32_t v32;
	int ret32;
	int no_conf;
	uint32_t conf_block_size;
	int conf_hash_size;
	int by_name, by_uuid, skip_disk_access;
	/* diff verdict */
	int parity_invalid;
};
VERIF_DECLARE_IN

static int g_refusal_due;
static int g_exit_calls;

static void verif_exit(int code)
{
	++g_exit_calls;
	VERIF_ASSERT(g_refusal_due, "sync stops here only when the interlock condition holds and no override was given");
	VERIF_ASSERT(code != 0, "a refusal ends with a failing status");
#ifdef VERIF_CBMC
	__CPROVER_assume(0);
#else
	printf("VERIF-REFUSED-AS-EXPECTED\n");
	fflush(stdout);
	_exit(0);
#endif
}

#ifdef VERIF_CBMC
int exit_success = 0, exit_failure = 1, exit_sync_needed = 2; /* cmdline/unix.c (changed only by --test-expect-* options) */
void log_fatal(const char *format, ...) { (void)format; }
void log_tag(const char *format, ...) { (void)format; }
void os_abort(void) { __CPROVER_assume(0); }
void *malloc_nofail(size_t size) { void *q = malloc(size); __CPROVER_assume(q != 0); return q; }
#endif

/* ---------------------------------------------------------------- callees by (assumed) contract */
static block_off_t g_used_calls;
static block_off_t verif_parity_used_size(struct snapraid_state *state) { (void)state; ++g_used_calls; return IN.used; }
static unsigned g_create_calls, g_size_calls;
static struct snapraid_parity_handle *g_created[LEV_MAX];
static int verif_parity_create(struct snapraid_parity_handle *handle, const struct snapraid_parity *parity, unsigned level, int mode, uint32_t block_size, data_off_t limit_size)
{
	(void)parity; (void)mode; (void)block_size; (void)limit_size;
	VERIF_ASSERT(level < LEV_MAX, "parity_create: level in range");
	g_created[level] = handle;
	++g_create_calls;
	return IN.create_ret[level];
}
static void verif_parity_size(struct snapraid_parity_handle *handle, data_off_t *out_size)
{
	unsigned l;
	++g_size_calls;
	*out_size = 0;
	for (l = 0; l < LEV_MAX; ++l)
		if (g_created[l] == handle)
			*out_size = IN.psize[l];
}
static const char *verif_lev_name(unsigned level) { (void)level; return "parity"; }

static int verif_sgetb32(STREAM *s, uint32_t *value) { (void)s; if (IN.ret32 >= 0) *value = IN.v32; return IN.ret32 >= 0 ? 0 : -1; }
static void decoding_error(const char *path, STREAM *f) { (void)path; (void)f; }
static struct snapraid_disk DISK_BY_NAME, DISK_BY_UUID;
static struct snapraid_disk *find_disk_by_name(struct snapraid_state *state, const char *name) { (void)state; (void)name; return IN.by_name ? &DISK_BY_NAME : 0; }
static struct snapraid_disk *find_disk_by_uuid(struct snapraid_state *state, const char *uuid) { (void)state; (void)uuid; return IN.by_uuid ? &DISK_BY_UUID : 0; }

static int v_parity_is_invalid(struct snapraid_state *state) { (void)state; return IN.parity_invalid != 0; }
static void v_list_foreach(tommy_list *list, tommy_foreach_func *func) { (void)list; (void)func; }
static void v_fscheck(struct snapraid_state *state, const char *ope) { (void)state; (void)ope; }
static void v_msg(const char *format, ...) { (void)format; }
static void v_flush(void) { }

/* ---------------------------------------------------------------- the REAL code: cmdline/scan.c whole (for struct snapraid_scan), then the regions */
/* inside the included text the callees named below are routed to the stubs above (same in cbmc and native mode) */
#define exit verif_exit
#define parity_used_size verif_parity_used_size
#define parity_create verif_parity_create
#define parity_size verif_parity_size
#define lev_name verif_lev_name
#define sgetb32 verif_sgetb32
#include "cmdline/scan.c"
#include "region_scan_empty.c"
#include "region_sync_psize.c"
#include "region_state_z.c"
#include "region_state_y.c"
#include "region_state_m.c"
#define parity_is_invalid v_parity_is_invalid
#define tommy_list_foreach v_list_foreach
#define state_fscheck v_fscheck
#define msg_status v_msg
#define msg_verbose v_msg
#define log_flush v_flush
#include "region_diff_verdict.c"
#undef parity_is_invalid
#undef tommy_list_foreach
#undef state_fscheck
#undef msg_status
#undef msg_verbose
#undef log_flush
#undef exit
#undef parity_used_size
#undef parity_create
#undef parity_size
#undef lev_name
#undef sgetb32

static struct snapraid_state ST;

/* ---------------------------------------------------------------- empty / rewritten disk */
void h_scan_empty(void)
{
	/* separate objects (not arrays of structs): see DESIGN 2.3 */
	static struct snapraid_disk D0, D1, D2;
	static struct snapraid_scan S0, S1, S2;
	struct snapraid_disk *const D[ND] = { &D0, &D1, &D2 };
	struct snapraid_scan *const S[ND] = { &S0, &S1, &S2 };
	tommy_list scanlist;
	int d, trigger = 0;
	VERIF_INPUTS();
	VERIF_ASSUME(IN.ndisk >= 1 && IN.ndisk <= ND);
	tommy_list_init(&ST.disklist);
	tommy_list_init(&scanlist);
	for (d = 0; d < ND; ++d)
		if (d < IN.ndisk) {
			S[d]->state = &ST;
			S[d]->disk = D[d];
			S[d]->count_equal = IN.c_equal[d];
			S[d]->count_move = IN.c_move[d];
			S[d]->count_restore = IN.c_restore[d];
			S[d]->count_change = IN.c_change[d];
			S[d]->count_remove = IN.c_remove[d];
			S[d]->count_insert = IN.c_insert[d];
			S[d]->count_copy = IN.c_copy[d];
			tommy_list_insert_tail(&ST.disklist, &D[d]->node, D[d]);
			tommy_list_insert_tail(&scanlist, &S[d]->node, S[d]);
			/* previously known files of this disk: unchanged + moved + restored + rewritten + missing.
			 * trigger: there were some, and every one of them is now missing or rewritten */
			if (IN.c_equal[d] == 0 && IN.c_move[d] == 0 && IN.c_restore[d] == 0 && (IN.c_change[d] != 0 || IN.c_remove[d] != 0))
				trigger = 1;
		}
	ST.opt.force_empty = IN.force_empty != 0;
	ST.command = "sync";
	g_refusal_due = trigger && !IN.force_empty && !IN.is_diff;
	g_exit_calls = 0;

	region_scan_empty(&ST, scanlist, IN.is_diff);

	VERIF_ASSERT(!g_refusal_due, "sync refuses when all files previously known on a data disk are missing or rewritten (unless --force-empty)");
	VERIF_CANARY();
}

/* ---------------------------------------------------------------- parity file smaller than the recorded state requires */
#ifndef BS_SHIFT
#define BS_SHIFT 8
#endif
void h_sync_psize(void)
{
	static struct snapraid_parity_handle PH[LEV_MAX];
	block_off_t blockmax;
	unsigned l;
	int too_small = 0, create_failed = 0;
	VERIF_INPUTS();
	VERIF_ASSUME(IN.level >= 1 && IN.level <= LEV_MAX);
	ST.level = IN.level;
	ST.block_size = 1u << BS_SHIFT;
	ST.opt.force_full = IN.force_full != 0;
	ST.opt.force_realloc = IN.force_realloc != 0;
	ST.command = "sync";
	for (l = 0; l < LEV_MAX; ++l) {
		g_created[l] = 0;
		if (l < IN.level) {
			VERIF_ASSUME(IN.create_ret[l] == 0 || IN.create_ret[l] == -1);
			VERIF_ASSUME(IN.psize[l] >= 0);
			/* the number of blocks of a parity file is kept in 32 bits: files of 2^32 blocks or more (1 PiB at the default block size) are outside this unit */
			VERIF_ASSUME(IN.psize[l] < ((data_off_t)1 << (32 + BS_SHIFT)));
			if (IN.create_ret[l] != 0)
				create_failed = 1;
			/* the file holds fewer whole blocks than the recorded state uses */
			if (IN.psize[l] < (data_off_t)IN.used * (data_off_t)(1u << BS_SHIFT))
				too_small = 1;
		}
	}
	VERIF_ASSUME(IN.used <= IN.allocated);
	VERIF_ASSUME((uint64_t)IN.blockstart + IN.blockcount <= 0xffffffffull); /* -B start + count is added in 32 bits by the code; a wrapping request is outside this unit */
	blockmax = IN.allocated;
	g_create_calls = g_size_calls = 0;
	/* a refusal is due for a short parity unless a full rebuild is forced; an inaccessible parity or a start position
	 * beyond the array also stop the command (not interlocks of C14, but legitimate refusals) */
	g_refusal_due = IN.blockstart > IN.allocated || create_failed || (too_small && !IN.force_full && !IN.force_realloc);
	/* the order in which the three are detected is not part of the property; a short parity of a LATER level than an
	 * inaccessible one is never looked at */

	region_sync_psize(&ST, IN.blockstart, IN.blockcount, &blockmax, PH);

	VERIF_ASSERT(!g_refusal_due, "sync refuses when a parity file is smaller than the recorded state requires (unless a full rebuild is forced)");
	VERIF_ASSERT(g_create_calls == IN.level && g_size_calls >= IN.level, "every configured parity level is opened and measured");
	if (IN.blockcount != 0 && (uint64_t)IN.blockstart + IN.blockcount < IN.allocated)
		VERIF_ASSERT(blockmax == IN.blockstart + IN.blockcount, "a partial sync (-B) ends at start + count");
	else
		VERIF_ASSERT(blockmax == IN.allocated, "otherwise the sync covers the whole allocated parity");
	VERIF_CANARY();
}

/* ---------------------------------------------------------------- content file vs configuration */
void h_state_z(void)
{
	VERIF_INPUTS();
	ST.no_conf = IN.no_conf != 0;
	ST.block_size = IN.conf_block_size;
	VERIF_ASSUME(IN.ret32 >= 0); /* a short read aborts (os_abort), covered by C09 */
	g_refusal_due = IN.v32 == 0 || (!IN.no_conf && IN.v32 != IN.conf_block_size);
	region_state_z(&ST, 0, "content");
	VERIF_ASSERT(!g_refusal_due, "a content file whose block size differs from the configuration is refused");
	VERIF_ASSERT(ST.block_size == IN.v32, "after the record the block size in use is the one of the content file");
	VERIF_CANARY();
}

void h_state_y(void)
{
	VERIF_INPUTS();
	ST.no_conf = IN.no_conf != 0;
	VERIF_ASSUME(IN.conf_hash_size >= 2 && IN.conf_hash_size <= HASH_MAX);
	BLOCK_HASH_SIZE = IN.conf_hash_size;
	VERIF_ASSUME(IN.ret32 >= 0);
	g_refusal_due = IN.v32 < 2 || IN.v32 > HASH_MAX || (!IN.no_conf && (int)IN.v32 != IN.conf_hash_size);
	region_state_y(&ST, 0, "content");
	VERIF_ASSERT(!g_refusal_due, "a content file whose hash size differs from the configuration is refused");
	VERIF_ASSERT(BLOCK_HASH_SIZE == (int)IN.v32, "after the record the hash size in use is the one of the content file");
	VERIF_CANARY();
}

void h_state_m(void)
{
	struct snapraid_disk *disk = 0;
	char name[8] = "d1", uuid[8] = "u";
	VERIF_INPUTS();
	ST.opt.skip_disk_access = IN.skip_disk_access != 0;
	ST.need_write = 0;
	g_refusal_due = !IN.by_name && !IN.by_uuid;
	region_state_m(&ST, name, uuid, 0, "content", &disk);
	VERIF_ASSERT(!g_refusal_due, "a disk recorded in the content file but missing from the configuration is refused");
	VERIF_ASSERT(disk == (IN.by_name ? &DISK_BY_NAME : &DISK_BY_UUID), "a recorded disk is matched by name first, by UUID (a rename) otherwise");
	VERIF_ASSERT(ST.need_write == (IN.by_name ? 0 : 1), "a rename detected by UUID is saved");
	VERIF_CANARY();
}


/* ---------------------------------------------------------------- the verdict of diff (C11) */
void h_diff_verdict(void)
{
	static struct snapraid_disk D0, D1, D2;
	static struct snapraid_scan S0, S1, S2;
	struct snapraid_disk *const D[ND] = { &D0, &D1, &D2 };
	struct snapraid_scan *const S[ND] = { &S0, &S1, &S2 };
	tommy_list scanlist;
	int d, r, changed = 0;
	VERIF_INPUTS();
	VERIF_ASSUME(IN.ndisk >= 1 && IN.ndisk <= ND);
	tommy_list_init(&ST.disklist);
	tommy_list_init(&scanlist);
	for (d = 0; d < ND; ++d)
		if (d < IN.ndisk) {
			/* counters are numbers of files of one disk: far below 2^30 */
			VERIF_ASSUME(IN.c_equal[d] < (1u << 30) && IN.c_move[d] < (1u << 30) && IN.c_restore[d] < (1u << 30) && IN.c_change[d] < (1u << 30)
				&& IN.c_remove[d] < (1u << 30) && IN.c_insert[d] < (1u << 30) && IN.c_copy[d] < (1u << 30));
			S[d]->state = &ST;
			S[d]->disk = D[d];
			S[d]->count_equal = IN.c_equal[d];
			S[d]->count_move = IN.c_move[d];
			S[d]->count_restore = IN.c_restore[d];
			S[d]->count_change = IN.c_change[d];
			S[d]->count_remove = IN.c_remove[d];
			S[d]->count_insert = IN.c_insert[d];
			S[d]->count_copy = IN.c_copy[d];
			tommy_list_insert_tail(&ST.disklist, &D[d]->node, D[d]);
			tommy_list_insert_tail(&scanlist, &S[d]->node, S[d]);
			if (IN.c_move[d] || IN.c_restore[d] || IN.c_change[d] || IN.c_remove[d] || IN.c_insert[d] || IN.c_copy[d])
				changed = 1;
		}
	g_refusal_due = 0;
	r = region_diff_verdict(&ST, scanlist, IN.is_diff);
	if (IN.is_diff)
		VERIF_ASSERT(r == (changed || IN.parity_invalid != 0), "diff reports a difference exactly when some disk has an added, removed, updated, moved, copied or restored entry, or a previous sync was incomplete");
	else
		VERIF_ASSERT(r == 0, "the scan of sync returns normally");
	VERIF_CANARY();
}

#include "verif_tail.h"
