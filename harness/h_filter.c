/*
 * Include / exclude rules (cmdline/elem.c, REAL code included below).
 *
 *  filter_alloc_file   accepts / rejects pattern strings as documented and classifies them (name / dir / rooted path)
 *                      for EVERY string of at most PATLEN bytes (all byte values)
 *  filter_path / filter_subdir / filter_emptydir (filter_element, filter_recurse, filter_apply)
 *                      "first matching rule decides; without a match the opposite of the last rule; directories are
 *                      kept for traversal; names are offered per path component of the right kind, rooted patterns the
 *                      path from the disk root" - for EVERY list of at most NF rules (any direction / kind) and EVERY
 *                      behaviour of the glob matcher: fnmatch() is replaced by an arbitrary but deterministic
 *                      truth table (assumed contract of libc fnmatch; HAVE_FNMATCH=1, cmdline/fnmatch.c is not linked)
 *  filter_content      the content file, its .tmp and its .lock copies are always excluded
 */
#include "portable.h"
#include "support.h"
#include "elem.h"
#include "state.h"
#include "verif.h"

#ifndef PATLEN
#define PATLEN 5
#endif
#ifndef NF
#define NF 3
#endif
#ifndef NFX
#define NFX 2
#endif
#ifndef WHICH
#define WHICH 0
#endif
#define NC 3 /* path components of the probe path "a/b/c" */

struct verif_in {
	char pat[PATLEN + 1];
	int direction;
	/* rule list */
	int nf;
	int f_dir[NF];      /* +1 include, -1 exclude */
	int f_is_disk[NF], f_is_path[NF], f_is_dir[NF];
	int match_name[NF][NC]; /* fnmatch(pattern_f, component c) == 0 */
	int match_path[NF][NC]; /* fnmatch(pattern_f + 1, components 0..c) == 0 */
	int match_disk[NF];
	int ncomp;          /* the probe has 1..NC components */
	int which;          /* 0 filter_path, 1 filter_subdir, 2 filter_emptydir */
	char cpath[8];
};
VERIF_DECLARE_IN

static struct snapraid_filter F[NF];
static const char *const probe_full[NC] = { "a", "a/b", "a/b/c" };
static const char *const probe_name[NC] = { "a", "b", "c" };

/* fnmatch by (assumed) contract: deterministic, result taken from the truth table */
static int verif_str_eq(const char *a, const char *b)
{
	int k;
	for (k = 0; k < 8; ++k) {
		if (a[k] != b[k])
			return 0;
		if (a[k] == 0)
			return 1;
	}
	return 0;
}

int fnmatch(const char *pattern, const char *string, int flags)
{
	int f, c;
	for (f = 0; f < NF; ++f) {
		if (pattern == F[f].pattern + 1) { /* rooted pattern: offered the path from the root */
			VERIF_ASSERT((flags & FNM_PATHNAME) != 0, "rooted patterns are matched with FNM_PATHNAME (wildcards never cross a slash)");
			for (c = 0; c < NC; ++c)
				if (verif_str_eq(string, probe_full[c]))
					return IN.match_path[f][c] ? 0 : FNM_NOMATCH;
			VERIF_ASSERT(0, "rooted pattern offered something that is not a prefix path of the probe");
		}
		if (pattern == F[f].pattern) {
			if (F[f].is_disk) {
				VERIF_ASSERT(verif_str_eq(string, "disk"), "disk rules are offered the disk name");
				return IN.match_disk[f] ? 0 : FNM_NOMATCH;
			}
			VERIF_ASSERT((flags & FNM_PATHNAME) == 0, "name patterns are matched without FNM_PATHNAME");
			for (c = 0; c < NC; ++c)
				if (verif_str_eq(string, probe_name[c]))
					return IN.match_name[f][c] ? 0 : FNM_NOMATCH;
			VERIF_ASSERT(0, "name pattern offered something that is not a component of the probe");
		}
	}
	VERIF_ASSERT(0, "fnmatch called with an unknown pattern");
	return FNM_NOMATCH;
}

#ifdef VERIF_CBMC
void *malloc_nofail(size_t size)
{
	void *p = malloc(size);
	__CPROVER_assume(p != 0);
	return p;
}
void log_fatal(const char *format, ...) { (void)format; }
#endif

/* the REAL translation unit */
#include "elem.c"

/* ---------------------------------------------------------------- filter_alloc_file */
static int tok_all_dots(const char *s, int a, int b)
{
	int k, all = 1;
	for (k = 0; k < PATLEN; ++k)
		if (k >= a && k < b && s[k] != '.')
			all = 0;
	return all; /* true for the empty token too */
}

void h_filter_alloc(void)
{
	struct snapraid_filter *f;
	int n, k, nslash = 0, first = -1, last = -1, bad_token = 0, start;
	int valid, is_path, is_dir;
	VERIF_INPUTS();
	IN.pat[PATLEN] = 0;
	for (n = 0; IN.pat[n]; ++n)
		;
	/* ---- documented forms: FILE, DIR/, /PATH/FILE, /PATH/DIR/ ; no ".", ".." (or longer dot runs) or empty components */
	start = 0;
	for (k = 0; k <= PATLEN; ++k) {
		if (k < n && IN.pat[k] == '/') {
			++nslash;
			if (first < 0)
				first = k;
			last = k;
		}
		if (k <= n && (k == n || IN.pat[k] == '/')) {
			/* token [start, k) */
			int empty = start == k;
			int is_first = start == 0;
			int is_last = k == n;
			if (tok_all_dots(IN.pat, start, k)) {
				if (!empty)
					bad_token = 1;              /* "." ".." "..." */
				else if (!(is_first && !is_last) && !(is_last && !is_first))
					bad_token = 1;              /* empty component in the middle, or the empty pattern */
			}
			start = k + 1;
		}
	}
	valid = !bad_token;
	is_dir = n > 0 && IN.pat[n - 1] == '/';
	is_path = nslash > 0 && !(nslash == 1 && is_dir);
	if (is_path && IN.pat[0] != '/')
		valid = 0; /* PATH/FILE without a leading slash is not supported */

	f = filter_alloc_file(IN.direction, IN.pat);

	/* "/" alone and "//" are two empty components: unspecified by the manual, not judged here */
	if (!(n >= 1 && tok_all_dots(IN.pat, 0, 0) && nslash == n)) {
		VERIF_ASSERT((f != 0) == valid, "filter_alloc_file accepts exactly the documented pattern forms");
		if (f) {
			VERIF_ASSERT(f->is_disk == 0 && f->direction == IN.direction, "filter_alloc_file keeps the direction");
			VERIF_ASSERT(f->is_path == is_path && f->is_dir == is_dir, "filter_alloc_file classifies name / dir / rooted path");
			for (k = 0; k < PATLEN; ++k)
				if (k < n - is_dir)
					VERIF_ASSERT(f->pattern[k] == IN.pat[k], "filter_alloc_file keeps the pattern text");
			VERIF_ASSERT(f->pattern[n - is_dir] == 0, "filter_alloc_file strips exactly the trailing slash");
		}
	}
	VERIF_CANARY();
}

/* ---------------------------------------------------------------- rule list evaluation */
static int spec_rule(int f, int ncomp, int last_is_dir)
{
	/* does rule f match the element "a/b/c"[0..ncomp) ? every leading component is a directory */
	int c, hit = 0;
	if (F[f].is_disk)
		return IN.match_disk[f] ? IN.f_dir[f] : 0;
	for (c = 0; c < NC; ++c)
		if (c < ncomp) {
			int comp_is_dir = c < ncomp - 1 ? 1 : last_is_dir;
			if ((F[f].is_dir != 0) == comp_is_dir)
				hit |= F[f].is_path ? IN.match_path[f][c] != 0 : IN.match_name[f][c] != 0;
		}
	return hit ? IN.f_dir[f] : 0;
}

void h_filter_list(void)
{
	tommy_list list;
	struct snapraid_filter *reason = 0;
	int f, r, e, decided = 0, last_dir = 0, is_dir, def_include;
	VERIF_INPUTS();
	/* list length and entry point are concrete parameters of the obligation (keeps each query small) */
	VERIF_ASSUME(IN.nf == NFX);
	VERIF_ASSUME(IN.ncomp >= 1 && IN.ncomp <= NC);
	VERIF_ASSUME(IN.which == WHICH);
	tommy_list_init(&list);
	for (f = 0; f < NFX; ++f)
		{
			VERIF_ASSUME(IN.f_dir[f] == 1 || IN.f_dir[f] == -1);
			VERIF_ASSUME(!(IN.f_is_disk[f] && (IN.f_is_path[f] || IN.f_is_dir[f])));
			F[f].pattern[0] = '/';
			F[f].pattern[1] = 'p';
			F[f].pattern[2] = 0;
			F[f].direction = IN.f_dir[f];
			F[f].is_disk = IN.f_is_disk[f] != 0;
			F[f].is_path = IN.f_is_path[f] != 0;
			F[f].is_dir = IN.f_is_dir[f] != 0;
			tommy_list_insert_tail(&list, &F[f].node, &F[f]);
		}
	is_dir = IN.which != 0;
	def_include = IN.which == 1;

#if WHICH == 0
	r = filter_path(&list, &reason, "disk", probe_full[IN.ncomp - 1]);
#elif WHICH == 1
	r = filter_subdir(&list, &reason, "disk", probe_full[IN.ncomp - 1]);
#else
	r = filter_emptydir(&list, &reason, "disk", probe_full[IN.ncomp - 1]);
#endif

	/* documented rule */
	e = 0;
	for (f = 0; f < NF; ++f)
		if (f < IN.nf && !decided) {
			int m = spec_rule(f, IN.ncomp, is_dir);
			if (m > 0) {
				e = 0;
				decided = 1;
			} else if (m < 0) {
				e = -1;
				decided = 1;
			}
			last_dir = IN.f_dir[f];
		}
	if (!decided)
		e = (def_include || IN.nf == 0 || last_dir < 0) ? 0 : -1;
	VERIF_ASSERT(r == e, "rules are tried in order, the first match decides, else the opposite of the last rule (directories kept for traversal)");
	VERIF_CANARY();
}

/* ---------------------------------------------------------------- filter_content */
void h_filter_content(void)
{
	static struct snapraid_content C;
	tommy_list list;
	char path[16];
	int k, n, r, is_c, is_tmp, is_lock;
	static const char base[] = "/c";
	VERIF_INPUTS();
	tommy_list_init(&list);
	C.content[0] = '/';
	C.content[1] = 'c';
	C.content[2] = 0;
	tommy_list_insert_tail(&list, &C.node, &C);
	for (k = 0; k < 8; ++k)
		path[k] = IN.cpath[k];
	path[8] = 0;
	for (n = 0; path[n]; ++n)
		;
	r = filter_content(&list, path);
	is_c = verif_str_eq(path, "/c");
	is_tmp = verif_str_eq(path, "/c.tmp");
	is_lock = verif_str_eq(path, "/c.lock");
	(void)base;
	VERIF_ASSERT(r == ((is_c || is_tmp || is_lock) ? -1 : 0), "the content file, its .tmp and its .lock are always excluded, nothing else");
	VERIF_CANARY();
}

#include "verif_tail.h"
