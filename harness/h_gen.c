/*
 * Contract of every portable parity generator (raid/int.c, raid/intz.c), of raid_gen_ref (raid/module.c) and of the
 * dispatcher raid_gen (raid/raid.c)
 *
 *   requires  nd == ND (1..251), size == SIZE, v[0..ND+NP) point to ND+NP disjoint blocks of SIZE bytes
 *   ensures   for every parity j < NP and byte c < SIZE:
 *                 v[ND+j][c] == XOR_{d<ND}  A[j][d] (x) v[d][c]      (A = documented Cauchy / power matrix)
 *   ensures   every data block, the pointer vector and the guard bytes after each block are unchanged
 *
 * Geometry (ND, NP, SIZE, function) is a concrete parameter of the obligation; all contents are symbolic.
 * Driver route (assume / call REAL function / assert): dfcc does not terminate on the pointer vector (DESIGN §2).
 */
#include "internal.h"
#include "verif.h"
#include "gf_spec.h"

#ifndef ND
#define ND 3
#endif
#ifndef NP
#define NP 3
#endif
#ifndef SIZE
#define SIZE 2
#endif
#ifndef GEN_FN
#define GEN_FN raid_gen3_int8
#endif
#ifndef MODE
#define MODE RAID_MODE_CAUCHY
#endif
#ifdef VERIF_NATIVE
#define GUARD 64 /* 64-byte aligned blocks for the SIMD variants a native replay may select */
#else
#define GUARD 8
#endif
/* disks SYM_LO..SYM_HI-1 hold fully symbolic bytes; the others hold concrete bytes derived from FILL_SEED.
 * SYM_LO=0, SYM_HI=ND is the complete statement for that geometry. */
#ifndef SYM_LO
#define SYM_LO 0
#endif
#ifndef SYM_HI
#define SYM_HI ND
#endif
#ifndef FILL_SEED
#define FILL_SEED 1
#endif

struct verif_in {
	/* data blocks 0..ND-1, parity blocks ND..ND+NP-1 (holding arbitrary bytes before the call), each
	 * followed by GUARD bytes that nobody may write. The REAL function works directly on this object, so the
	 * bytes it reads are the very symbols the specification is evaluated on. */
	/* ONE flat array (rows of a 2-D array are slow and hit the cbmc defect of DESIGN 2.3): block d is blk[d*STRIDE ..] */
	uint8_t blk[(ND + NP) * (SIZE + GUARD)] __attribute__((aligned(64)));
};
#define STRIDE (SIZE + GUARD)
#define BLK(d, c) IN.blk[(d) * STRIDE + (c)]
VERIF_DECLARE_IN

/*
 * Field multiplication used to STATE the contract.
 *  GEN_SPEC_TABLE: a (x) b is written raid_gfmul[b][a] -- justified by lemma TAB-MUL (gfmul[x][y] == x (x) y for
 *  all x, y; discharged in the same run), with the operands in the order the int8 code uses, so that the
 *  verification condition is a structural identity instead of 1250 simultaneous 64 K-table equivalences
 *  (which no installed SAT back end finishes: nd=3 already needs 48 s, nd=8 > 300 s).
 *  Otherwise (int32/int64 variants, no tables involved): the table-free S_mul.
 */
static inline uint8_t spec_mul(uint8_t coef, uint8_t x)
{
#ifdef GEN_SPEC_TABLE
	return raid_gfmul[x][coef];
#else
	return S_mul(coef, x);
#endif
}

static uint8_t spec_coef(int j, int d)
{
	return MODE == RAID_MODE_CAUCHY ? S_cauchy(j, d) : S_power(j, d);
}

void h_gen(void)
{
	void *v[ND + NP];
	uint8_t expect[NP][SIZE];
	uint8_t snap[ND + NP][SIZE + GUARD];
	int d, j, c;

	VERIF_INPUTS();
	for (d = 0; d < ND; ++d)
		if (d < SYM_LO || d >= SYM_HI)
			for (c = 0; c < SIZE; ++c)
				BLK(d, c) = (uint8_t)((d * 167u + c * 59u + FILL_SEED * 101u + 1u) ^ ((d * 13u) >> 3));
	for (d = 0; d < ND + NP; ++d) {
		v[d] = &BLK(d, 0);
		for (c = 0; c < SIZE + GUARD; ++c)
			snap[d][c] = BLK(d, c);
	}
	/* specification, evaluated on the pre-state */
	for (j = 0; j < NP; ++j)
		for (c = 0; c < SIZE; ++c) {
			uint8_t s = 0;
			for (d = ND - 1; d >= 0; --d)
				s ^= spec_mul(spec_coef(j, d), BLK(d, c));
			expect[j][c] = s;
		}

#ifdef GEN_VIA_DISPATCH
	/* REAL raid_init() (raid/module.c) binds raid_gen_ptr[]; under cbmc it is compiled with include/noasm/config.h
	 * (no inline-assembly variants), natively with the repo's own configuration and the CPU's variants */
	raid_init();
#endif
	raid_mode(MODE); /* REAL: selects the generator matrix read by the int8 variants */
#ifdef GEN_VIA_DISPATCH
	raid_gen(ND, NP, SIZE, v);
#else
	GEN_FN(ND, SIZE, v);
#endif

	for (j = 0; j < NP; ++j)
		for (c = 0; c < SIZE; ++c)
			VERIF_ASSERT(BLK(ND + j, c) == expect[j][c], "GEN parity[j][c] == sum_d A[j][d]*D[d][c]");
	for (d = 0; d < ND; ++d)
		for (c = 0; c < SIZE; ++c)
			VERIF_ASSERT(BLK(d, c) == snap[d][c], "GEN data blocks untouched");
	for (d = 0; d < ND + NP; ++d) {
		VERIF_ASSERT(v[d] == (void *)&BLK(d, 0), "GEN pointer vector untouched");
		for (c = SIZE; c < SIZE + GUARD; ++c)
			VERIF_ASSERT(BLK(d, c) == snap[d][c], "GEN nothing written past size");
	}
	VERIF_CANARY();
}

#include "verif_tail.h"
