/*
 * 's' (symlink), 'a' (hardlink) and 'r' (empty directory) records of the content file (cmdline/state.c): the two writer
 * loops of state_write_thread and the three reader branches of state_read_content, extracted mechanically and connected
 * through a TYPED event stream.  decode(encode(disk)): every link comes back with its name, its target and its KIND
 * (a hardlink never turns into a symlink), every empty directory with its name, in the same order, linked in the list and the
 * index of their disk; the statistics agree.  Bounded: 2 links and 2 directories, one-letter names.
 * link_alloc / dir_alloc / tommy_hashdyn_insert / the name hashes by recording stubs; the list functions are the real ones.
 */
#include "portable.h"
#include "support.h"
#include "elem.h"
#include "state.h"
#include "stream.h"
#include "verif.h"

#define NL 2
struct verif_in {
	unsigned nlink, ndir, mapping_idx;
	int hard[NL];
	char lsub[NL], lto[NL], dsub[NL];
};
VERIF_DECLARE_IN

#ifdef VERIF_CBMC
int exit_success = 0, exit_failure = 1, exit_sync_needed = 2;
void log_fatal(const char *format, ...) { (void)format; }
void log_tag(const char *format, ...) { (void)format; }
#endif
static void v_abort(void)
{
	VERIF_ASSERT(0, "the reader accepts what the writer wrote");
#ifdef VERIF_NATIVE
	exit(1);
#else
	__CPROVER_assume(0);
#endif
}

#define NEV 16
static unsigned g_n, g_r;
static unsigned char g_kind[NEV];
static uint32_t g_val[NEV];
static char g_chr[NEV];
static int w_putc(int c, STREAM *s) { (void)s; VERIF_ASSERT(g_n < NEV, "event log"); g_kind[g_n] = 1; g_val[g_n] = (unsigned char)c; ++g_n; return 0; }
static int w_putb32(uint32_t v, STREAM *s) { (void)s; VERIF_ASSERT(g_n < NEV, "event log"); g_kind[g_n] = 2; g_val[g_n] = v; ++g_n; return 0; }
static int w_putbs(const char *str, STREAM *s) { (void)s; VERIF_ASSERT(g_n < NEV, "event log"); g_kind[g_n] = 4; g_chr[g_n] = str[0]; ++g_n; return 0; }
static int w_error(STREAM *s) { (void)s; return 0; }
static const char *w_errorfile(STREAM *s) { (void)s; return "content"; }
static int r_getbs(STREAM *s, char *str, int size)
{
	(void)s;
	VERIF_ASSERT(g_r < g_n && g_kind[g_r] == 4 && size >= 2, "the reader takes a string where the writer put one");
	str[0] = g_chr[g_r++];
	str[1] = 0;
	return 0;
}
static void decoding_error(const char *path, STREAM *f) { (void)path; (void)f; }

static struct snapraid_disk WD, RD;
static struct snapraid_link WL0, WL1, RL0, RL1;
static struct snapraid_link *const WL[NL] = { &WL0, &WL1 }, *const RL[NL] = { &RL0, &RL1 };
static struct snapraid_dir WR0, WR1, RR0, RR1;
static struct snapraid_dir *const WR[NL] = { &WR0, &WR1 }, *const RR[NL] = { &RR0, &RR1 };
static char WLS[NL][2], WLT[NL][2], WRS[NL][2];

static unsigned g_la, g_da, g_hins;
static char g_la_sub[NL], g_la_to[NL], g_da_sub[NL];
static unsigned g_la_kind[NL];
static void *g_h_obj[2 * NL];
static tommy_hash_t g_h_hash[2 * NL];
static void *g_h_set[2 * NL];
static struct snapraid_link *v_link_alloc(const char *sub, const char *linkto, unsigned link_flag)
{
	VERIF_ASSERT(g_la < NL, "one link per record");
	g_la_sub[g_la] = sub[0]; g_la_to[g_la] = linkto[0]; g_la_kind[g_la] = link_flag;
	RL[g_la]->flag = link_flag;
	return RL[g_la++];
}
static struct snapraid_dir *v_dir_alloc(const char *sub)
{
	VERIF_ASSERT(g_da < NL, "one directory per record");
	g_da_sub[g_da] = sub[0];
	return RR[g_da++];
}
static void v_hashdyn_insert(tommy_hashdyn *set, tommy_hashdyn_node *node, void *data, tommy_hash_t hash)
{
	(void)node;
	VERIF_ASSERT(g_hins < 2 * NL, "one index entry per record");
	g_h_set[g_hins] = set; g_h_obj[g_hins] = data; g_h_hash[g_hins] = hash; ++g_hins;
}
static tommy_hash_t v_name_hash(const char *sub) { (void)sub; return 7; }

#define sputc w_putc
#define sputb32 w_putb32
#define sputbs w_putbs
#define serror w_error
#define serrorfile w_errorfile
#define sgetbs r_getbs
#define os_abort v_abort
#define link_alloc v_link_alloc
#define dir_alloc v_dir_alloc
#define tommy_hashdyn_insert v_hashdyn_insert
#define link_name_hash v_name_hash
#define dir_name_hash v_name_hash
#include "region_link_write.c"
#include "region_dir_write.c"
#include "region_link_read_s.c"
#include "region_link_read_a.c"
#include "region_dir_read.c"
#undef sputc
#undef sputb32
#undef sputbs
#undef serror
#undef serrorfile
#undef sgetbs
#undef os_abort
#undef link_alloc
#undef dir_alloc
#undef tommy_hashdyn_insert
#undef link_name_hash
#undef dir_name_hash

void h_link_dir_records(void)
{
	unsigned k, rounds, wh = 0, ws = 0, wd = 0, rh = 0, rs = 0, rd = 0, nhard = 0;
	tommy_node *node;
	VERIF_INPUTS();
	VERIF_ASSUME(IN.nlink <= NL && IN.ndir <= NL);
	tommy_list_init(&WD.linklist); tommy_list_init(&WD.dirlist);
	tommy_list_init(&RD.linklist); tommy_list_init(&RD.dirlist);
	WD.mapping_idx = (int)(IN.mapping_idx & 0xff);
	for (k = 0; k < NL; ++k) {
		VERIF_ASSUME(IN.lsub[k] != 0 && IN.lto[k] != 0 && IN.dsub[k] != 0);
		WLS[k][0] = IN.lsub[k]; WLT[k][0] = IN.lto[k]; WRS[k][0] = IN.dsub[k];
		WL[k]->sub = WLS[k]; WL[k]->linkto = WLT[k];
		WL[k]->flag = IN.hard[k] ? FILE_IS_HARDLINK : FILE_IS_SYMLINK;
		WR[k]->sub = WRS[k];
		if (k < IN.nlink) {
			tommy_list_insert_tail(&WD.linklist, &WL[k]->nodelist, WL[k]);
			if (IN.hard[k])
				++nhard;
		}
		if (k < IN.ndir)
			tommy_list_insert_tail(&WD.dirlist, &WR[k]->nodelist, WR[k]);
	}
	g_n = g_r = g_la = g_da = g_hins = 0;
	VERIF_ASSERT(region_link_write(&WD, 0, &wh, &ws, (void *)1) == 0, "the link writer completes");
	VERIF_ASSERT(region_dir_write(&WD, 0, &wd, (void *)1) == 0, "the directory writer completes");
	VERIF_ASSERT(g_n == 4 * IN.nlink + 3 * IN.ndir, "one record of four fields per link, of three per directory");
	VERIF_ASSERT(wh == nhard && ws == IN.nlink - nhard && wd == IN.ndir, "the statistics of the writer count every link by kind and every directory");
	for (rounds = 0; rounds < 2 * NL; ++rounds)
		if (g_r < g_n) {
			int c;
			VERIF_ASSERT(g_kind[g_r] == 1 && g_kind[g_r + 1] == 2 && g_val[g_r + 1] == (IN.mapping_idx & 0xff), "a record starts with its letter and the index of its disk");
			c = (int)g_val[g_r];
			g_r += 2; /* letter and disk index are consumed by the dispatcher and the mapping guard (units state.*_record.mapping_guard) */
			if (c == 's')
				region_link_read_s(&RD, 0, "content", &rs);
			else if (c == 'a')
				region_link_read_a(&RD, 0, "content", &rh);
			else if (c == 'r')
				region_dir_read(&RD, 0, "content", &rd);
			else
				VERIF_ASSERT(0, "only s, a and r records are written by these loops");
		}
	VERIF_ASSERT(g_r == g_n, "the reader consumes exactly what the writer produced");
	VERIF_ASSERT(g_la == IN.nlink && g_da == IN.ndir && g_hins == IN.nlink + IN.ndir, "one link / directory and one index entry per record");
	VERIF_ASSERT(rh == wh && rs == ws && rd == wd, "the statistics of the reader agree with those of the writer");
	for (k = 0; k < NL; ++k) {
		if (k < IN.nlink) {
			VERIF_ASSERT(g_la_sub[k] == IN.lsub[k] && g_la_to[k] == IN.lto[k], "name and target of a link survive a save and reload, in order");
			VERIF_ASSERT(g_la_kind[k] == (IN.hard[k] ? FILE_IS_HARDLINK : FILE_IS_SYMLINK), "a link keeps its kind: a hardlink stays a hardlink, a symlink a symlink");
			VERIF_ASSERT(g_h_obj[k] == RL[k] && g_h_set[k] == &RD.linkset, "the link is indexed in the link set of its disk");
		}
		if (k < IN.ndir) {
			VERIF_ASSERT(g_da_sub[k] == IN.dsub[k], "the name of an empty directory survives, in order");
			VERIF_ASSERT(g_h_obj[IN.nlink + k] == RR[k] && g_h_set[IN.nlink + k] == &RD.dirset, "the directory is indexed in the directory set of its disk");
		}
	}
	k = 0;
	for (node = tommy_list_head(&RD.linklist); node != 0 && k < NL + 1; node = node->next)
		{ VERIF_ASSERT(k < NL && node->data == RL[k], "the links are listed in the order they were saved"); ++k; }
	VERIF_ASSERT(k == IN.nlink, "every link is in the list of its disk");
	k = 0;
	for (node = tommy_list_head(&RD.dirlist); node != 0 && k < NL + 1; node = node->next)
		{ VERIF_ASSERT(k < NL && node->data == RR[k], "the directories are listed in the order they were saved"); ++k; }
	VERIF_ASSERT(k == IN.ndir, "every directory is in the list of its disk");
	VERIF_CANARY();
}

#include "verif_tail.h"
