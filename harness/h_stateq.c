/*
 * Content-file record decoders of state_read_content() (cmdline/state.c) as mechanically extracted regions, driven by
 * the REAL stream decoders (cmdline/stream.c included unmodified) over an arbitrary byte string.
 *   region 'Q' (parity level / split description): every index into state->parity[] and ->split_map[] is in bounds,
 *   whatever the bytes are, with and without a configuration file (state->no_conf).
 */
#include "portable.h"
#include "support.h"
#include "elem.h"
#include "state.h"
#include "util.h"
#include "stream.h"
#include "verif.h"

#ifndef NB
#define NB 44
#endif

struct verif_in {
	unsigned char bytes[NB];
	unsigned nbytes;
	int no_conf;
	unsigned level;
	unsigned split_mac[LEV_MAX];
};
VERIF_DECLARE_IN

static unsigned g_off;
#ifdef VERIF_CBMC
ssize_t read(int fd, void *buf, size_t n)
{
	unsigned remaining = IN.nbytes - g_off, k;
	(void)fd;
	if (remaining > n)
		remaining = n;
	for (k = 0; k < remaining; ++k)
		((unsigned char *)buf)[k] = IN.bytes[g_off + k];
	g_off += remaining;
	return remaining;
}
uint32_t nondet_u32(void);
static uint32_t crc_by_contract(uint32_t crc, const unsigned char *ptr, unsigned size) { (void)crc; (void)ptr; (void)size; return nondet_u32(); }
void log_tag(const char *format, ...) { (void)format; }
void log_fatal(const char *format, ...) { (void)format; }
void os_abort(void) { __CPROVER_assume(0); }
void exit(int code) { (void)code; __CPROVER_assume(0); }
#endif

#include "stream.c"

/* callee by contract: prints a diagnostic, may or may not return */
static void decoding_error(const char *path, STREAM *f) { (void)path; (void)f; }

#ifdef Q_FULL
#include "region_state_q.c"
#endif
#include "region_state_q_autoconf.c"

static struct snapraid_state ST;
static struct stream S;
static struct stream_handle H;
static unsigned char SBUF[64];

/*
 * 'Q' record, auto-configuration step (content file read without a configuration file, `snapraid -C`): the representation
 * invariant of struct snapraid_parity, split_mac <= SPLIT_MAX == number of elements of split_map[], must survive
 * whatever level / split count the file announces (any 32-bit values: sgetb32 can deliver all of them).
 */
struct q_in { uint32_t v_level, v_split_mac; };
static struct q_in QIN;
void h_region_q_autoconf(void)
{
	unsigned l;
	struct q_in t;
	VERIF_INPUTS();
	QIN = t;
	QIN.v_level = IN.nbytes;       /* reuse two symbolic 32-bit inputs of IN so that they appear in a replay */
	QIN.v_split_mac = IN.level;
	ST.no_conf = IN.no_conf != 0;
	ST.level = IN.split_mac[0] % (LEV_MAX + 1);
	for (l = 0; l < LEV_MAX; ++l) {
		VERIF_ASSUME(IN.split_mac[l] <= SPLIT_MAX || l == 0);
		ST.parity[l].split_mac = l == 0 ? 1 : IN.split_mac[l];
	}
	region_state_q_autoconf(&ST, QIN.v_level, QIN.v_split_mac, "content", 0);
	VERIF_ASSERT(ST.level <= LEV_MAX, "Q record auto-configuration keeps level <= LEV_MAX");
	for (l = 0; l < LEV_MAX; ++l)
		VERIF_ASSERT(ST.parity[l].split_mac <= SPLIT_MAX, "Q record auto-configuration keeps split_mac <= SPLIT_MAX (the size of split_map[])");
	VERIF_CANARY();
}

#ifdef Q_FULL
void h_region_q(void)
{
	unsigned l;
	VERIF_INPUTS();
	VERIF_ASSUME(IN.nbytes <= NB);
#ifdef Q_SHAPE
	/* a family of records: level 0, block counts 0, split count symbolic (one byte), every split with empty path and
	 * uuid strings and a one-byte size; keeps symex within reach (a fully symbolic v_level indexes the 6 x 8 nested
	 * arrays of struct snapraid_state symbolically and does not finish in 8 GB) */
	{
		unsigned k;
		IN.bytes[0] = 0x80;
		IN.bytes[1] = 0x80;
		IN.bytes[2] = 0x80;
		IN.bytes[3] |= 0x80;
		for (k = 4; k + 2 < NB; k += 3) {
			IN.bytes[k] = 0x80;
			IN.bytes[k + 1] = 0x80;
			IN.bytes[k + 2] |= 0x80;
		}
	}
#endif
	VERIF_ASSUME(IN.level >= 1 && IN.level <= LEV_MAX);
	ST.no_conf = IN.no_conf != 0;
	ST.level = IN.level;
	for (l = 0; l < LEV_MAX; ++l) {
		VERIF_ASSUME(IN.split_mac[l] <= SPLIT_MAX);
		ST.parity[l].split_mac = IN.split_mac[l];
	}
#ifdef VERIF_NATIVE
	{
		char p[] = "/tmp/verif-q-XXXXXX";
		int fd = mkstemp(p);
		STREAM *f;
		if (write(fd, IN.bytes, IN.nbytes) < 0)
			exit(2);
		close(fd);
		crc32c_init();
		f = sopen_read(p);
		unlink(p);
		region_state_q(&ST, f, "content");
	}
#else
	STREAM_SIZE = 64;
	crc32c = crc_by_contract;
	S.handle_size = 1;
	S.handle = &H;
	S.buffer = SBUF;
	S.pos = S.end = SBUF;
	S.state = STREAM_STATE_READ;
	region_state_q(&ST, &S, "content");
#endif
	for (l = 0; l < LEV_MAX; ++l)
		VERIF_ASSERT(ST.parity[l].split_mac <= SPLIT_MAX, "Q record: split_mac stays within SPLIT_MAX");
	VERIF_ASSERT(ST.level <= LEV_MAX, "Q record: level stays within LEV_MAX");
	VERIF_CANARY();
}
#endif

#include "verif_tail.h"
