/*
 * Block runs of an 'f' (file) record of the content file (cmdline/state.c): the writer loop of state_write_content and
 * the reader loop of state_read_content, both extracted mechanically, connected through a recorded stream of
 * sputc / sputb32 / swrite events (the byte codecs themselves are units stream.rt*).
 *   decode(encode(file)) == file: every block comes back with its state (BLK / CHG / REP), its hash and its parity position;
 *   the runs written partition the blocks of the file in order, each run homogeneous in state and contiguous in parity.
 * Bounded: files of at most NBLK (2) blocks; hash size 4.
 */
#include "portable.h"
#include "support.h"
#include "elem.h"
#include "state.h"
#include "stream.h"
#include "verif.h"

#ifndef NBLK
#define NBLK 2
#endif
#define NEV (NBLK * 4 + (NBLK > 1 ? 2 : 0))
#ifndef HS
#define HS 4
#endif

struct verif_in {
	block_off_t blockmax;
	unsigned st[NBLK];
	block_off_t ppos[NBLK];
	unsigned char hash[NBLK * HS];
	int clear_past_hash, force_nocopy, force_realloc;
};
VERIF_DECLARE_IN

#ifdef VERIF_CBMC
int BLOCK_HASH_SIZE = HS;
void log_fatal(const char *format, ...) { (void)format; }
void log_tag(const char *format, ...) { (void)format; }
void os_abort(void) { VERIF_ASSERT(0, "the reader accepts what the writer wrote"); __CPROVER_assume(0); }
#endif

/* the recorded stream: kind 1 = byte, 2 = 32-bit integer, 3 = 16 raw bytes */
static unsigned g_n, g_r;
static unsigned char g_kind[NEV];
static uint32_t g_val[NEV];
static unsigned char g_raw[NEV * HS];

static int w_putc(int c, STREAM *s) { (void)s; VERIF_ASSERT(g_n < NEV, "event log large enough"); g_kind[g_n] = 1; g_val[g_n] = (unsigned char)c; ++g_n; return 0; }
static int w_putb32(uint32_t v, STREAM *s) { (void)s; VERIF_ASSERT(g_n < NEV, "event log large enough"); g_kind[g_n] = 2; g_val[g_n] = v; ++g_n; return 0; }
static int w_write(const void *data, unsigned size, STREAM *s)
{
	unsigned k;
	(void)s;
	VERIF_ASSERT(g_n < NEV && size == HS, "a hash is written with the configured hash size");
	g_kind[g_n] = 3;
	memcpy(&g_raw[g_n * HS], data, HS);
	++g_n;
	return 0;
}
static int w_error(STREAM *s) { (void)s; return 0; }
static const char *w_errorfile(STREAM *s) { (void)s; return "content"; }
static int r_getc(STREAM *s) { (void)s; VERIF_ASSERT(g_r < g_n && g_kind[g_r] == 1, "the reader asks for a byte where the writer put one"); return (int)g_val[g_r++]; }
static int r_getb32(STREAM *s, uint32_t *v) { (void)s; VERIF_ASSERT(g_r < g_n && g_kind[g_r] == 2, "the reader asks for an integer where the writer put one"); *v = g_val[g_r++]; return 0; }
static int r_read(STREAM *s, void *data, unsigned size)
{
	unsigned k;
	(void)s;
	VERIF_ASSERT(g_r < g_n && g_kind[g_r] == 3 && size == HS, "the reader asks for a hash where the writer put one");
	memcpy(data, &g_raw[g_r * HS], HS);
	++g_r;
	return 0;
}
static void decoding_error(const char *path, STREAM *f) { (void)path; (void)f; }

/* the two files: the one written and the one rebuilt */
static unsigned char WV[NBLK * 64], RV[NBLK * 64];
static struct snapraid_file WF, RF;
static struct snapraid_disk DK;
static block_off_t g_alloc_pos[NBLK];
static unsigned g_alloc_calls;

static struct snapraid_block *b_get(struct snapraid_file *file, block_off_t pos)
{
	VERIF_ASSERT(pos < file->blockmax && pos < NBLK, "block index inside the file");
	return (struct snapraid_block *)((file == &WF ? WV : RV) + pos * 64);
}
static block_off_t b_par(struct snapraid_disk *disk, struct snapraid_file *file, block_off_t pos) { (void)disk; (void)file; VERIF_ASSERT(pos < NBLK, "block index inside the file"); return IN.ppos[pos]; }
static void b_allocate(struct snapraid_disk *disk, block_off_t parity_pos, struct snapraid_file *file, block_off_t file_pos)
{
	(void)disk;
	VERIF_ASSERT(file == &RF && file_pos < NBLK, "the block allocated belongs to the file being read");
	g_alloc_pos[file_pos] = parity_pos;
	++g_alloc_calls;
}

#define sputc w_putc
#define sputb32 w_putb32
#define swrite w_write
#define serror w_error
#define serrorfile w_errorfile
#define sgetc r_getc
#define sgetb32 r_getb32
#define sread r_read
#define fs_file2block_get b_get
#define fs_file2par_get b_par
#define fs_allocate b_allocate
#include "region_runs_write.c"
#include "region_runs_read.c"
#undef sputc
#undef sputb32
#undef swrite
#undef serror
#undef serrorfile
#undef sgetc
#undef sgetb32
#undef sread
#undef fs_file2block_get
#undef fs_file2par_get
#undef fs_allocate

void h_blockruns(void)
{
	static struct snapraid_state ST;
	block_off_t i;
	unsigned k, e, covered = 0;
	VERIF_INPUTS();
	VERIF_ASSUME(IN.blockmax >= 1 && IN.blockmax <= NBLK);
#if NBLK == 1
	VERIF_ASSUME(IN.blockmax == 1);
	WF.blockmax = RF.blockmax = 1; /* concrete: keeps the unwinding of the run loops small in the full-hash variant */
#else
	WF.blockmax = RF.blockmax = IN.blockmax;
#endif
	WF.sub = RF.sub = "f";
	for (i = 0; i < NBLK; ++i) {
		VERIF_ASSUME(IN.st[i] == BLOCK_STATE_BLK || IN.st[i] == BLOCK_STATE_CHG || IN.st[i] == BLOCK_STATE_REP);
		VERIF_ASSUME(IN.ppos[i] < 0x7fffffff);
		block_state_set((struct snapraid_block *)(WV + i * 64), IN.st[i]);
		memcpy(((struct snapraid_block *)(WV + i * 64))->hash, &IN.hash[i * HS], HS);
	}
	/* load-time options of sync: clear_past_hash (every sync: past hashes cannot be trusted after an interrupted sync),
	 * --force-nocopy (provisional hashes are dropped), --force-realloc (everything gets reallocated) */
	ST.clear_past_hash = IN.clear_past_hash != 0;
	ST.opt.force_nocopy = IN.force_nocopy != 0;
	ST.opt.force_realloc = IN.force_realloc != 0;
	g_n = g_r = 0;
	g_alloc_calls = 0;

	VERIF_ASSERT(region_runs_write(&ST, &DK, &WF, 0, (void *)1) == 0, "the writer completes");

	/* the runs written: (letter, position, count, count hashes)* covering the blocks in order */
	e = 0;
	for (i = 0; i < NBLK; ++i)
		if (e < g_n) {
			unsigned cnt;
			VERIF_ASSERT(g_kind[e] == 1 && g_kind[e + 1] == 2 && g_kind[e + 2] == 2, "a run is a state letter, a parity position and a count");
			cnt = g_val[e + 2];
			VERIF_ASSERT(cnt >= 1 && covered + cnt <= IN.blockmax, "runs are not empty and stay inside the file");
			VERIF_ASSERT(g_val[e + 1] == IN.ppos[covered], "a run starts at the parity position of its first block");
			covered += cnt;
			e += 3 + cnt;
		}
	VERIF_ASSERT(e == g_n && covered == IN.blockmax, "the runs cover every block of the file exactly once, in order");

	region_runs_read(&ST, &DK, &RF, 0, "content", 0xffffffffu);

	VERIF_ASSERT(g_r == g_n, "the reader consumes exactly what the writer produced");
	VERIF_ASSERT(g_alloc_calls == IN.blockmax, "every block gets its parity position back");
	for (i = 0; i < NBLK; ++i)
		if (i < IN.blockmax) {
			struct snapraid_block *b = (struct snapraid_block *)(RV + i * 64);
			unsigned est = IN.st[i];
			int invalid = 0;
			/* what the loader is documented to do with what it just read */
			if (IN.clear_past_hash && est == BLOCK_STATE_CHG)
				invalid = 1;                       /* a past hash - ANY past hash, the ZERO marker included - is not trusted when sync starts */
			if (IN.clear_past_hash && IN.force_nocopy && est == BLOCK_STATE_REP) {
				invalid = 1;                       /* --force-nocopy drops provisional hashes */
				est = BLOCK_STATE_CHG;
			}
			if (IN.force_realloc && est == BLOCK_STATE_BLK)
				est = BLOCK_STATE_REP;             /* --force-realloc: the parity of every synced block is no longer valid */
			VERIF_ASSERT(block_state_get(b) == est, "a reloaded block has the state that was saved (after the documented load-time conversions)");
			VERIF_ASSERT(g_alloc_pos[i] == IN.ppos[i], "decode(encode) keeps the parity position of every block");
			{
				unsigned char expect[HS];
				if (invalid) memset(expect, 0, HS); else memcpy(expect, &IN.hash[i * HS], HS);
				VERIF_ASSERT(memcmp(b->hash, expect, HS) == 0, "a reloaded block has the hash that was saved - except that when sync loads the state EVERY past hash of a pending block becomes the INVALID marker");
			}
		}
	VERIF_CANARY();
}

#include "verif_tail.h"
