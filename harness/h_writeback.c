/*
 * What fix writes (cmdline/check.c, state_check_process: region "now write recovered files" of the per-stripe loop,
 * extracted mechanically; handle_write / parity_write are recording stubs):
 *   - without the fix flag NOTHING is written (check is read-only), files are only flagged as fixable
 *   - with it, a data block is written iff its entry is bad AND its file is neither excluded by the filters nor (with
 *     --test/-syncedonly) unsynced; the bytes written are the reconstruction of THAT disk slot at THAT file position
 *   - a block whose reconstruction may be out of date marks its file DAMAGED (renamed .unrecoverable later), never FIXED;
 *     only blocks actually written are counted as recovered
 *   - parity is rewritten only for levels read as wrong, accessible and not excluded, and only when the stripe has used,
 *     fully valid parity
 */
#include "portable.h"
#include "support.h"
#include "elem.h"
#include "state.h"
#include "parity.h"
#include "handle.h"
#include "verif.h"

#define NF 3
#define BS 8

struct verif_in {
	int fix, syncedonly;
	unsigned failed_count, level;
	int is_bad[NF], outofdate[NF];
	unsigned fflag[NF];
	unsigned index[NF];
	block_off_t file_pos[NF];
	int write_ret[NF];
	int used_parity, valid_parity;
	int recov_ok[LEV_MAX], has_parity[LEV_MAX], excluded[LEV_MAX], pwrite_ret[LEV_MAX];
	/* block_is_enabled */
	int badblockonly, badfileonly, be_bad, pexcl[LEV_MAX], be_disk[3], be_state[3], be_fexcl[3];
	/* data verify region */
	int dv_read_ret, dv_rehash;
	unsigned dv_state, dv_slot;
	unsigned char dv_digest[16], dv_recorded[16];
	unsigned dv_failed0, dv_error0;
	/* repair outcome region */
	int repair_ret;
	unsigned char computed[LEV_MAX * BS], ondisk[LEV_MAX * BS];
	unsigned cnt_error, cnt_unrec;
	/* parity offer region */
	int po_present[LEV_MAX], po_read_ret[LEV_MAX], po_stale[LEV_MAX], po_auditonly;
	/* repair fetch region */
	unsigned rf_state[NF];
	int rf_import_ret[NF], rf_search_ret[NF], rf_rehash;
	unsigned char rf_hash[NF * 16];
};
VERIF_DECLARE_IN

#ifdef VERIF_CBMC
void log_tag(const char *format, ...) { (void)format; }
void log_fatal(const char *format, ...) { (void)format; }
void os_abort(void) { __CPROVER_assume(0); }
void *malloc_nofail(size_t size) { void *q = malloc(size); __CPROVER_assume(q != 0); return q; }
#endif

#include "cmdline/check.c"

static struct snapraid_handle H0, H1, H2;
static struct snapraid_handle *const HND[NF] = { &H0, &H1, &H2 };
static struct snapraid_file F0, F1, F2;
static struct snapraid_file *const FIL[NF] = { &F0, &F1, &F2 };
static struct snapraid_disk DK;
static struct snapraid_parity_handle P0, P1, P2, P3, P4, P5;
static struct snapraid_parity_handle *const PAR[LEV_MAX] = { &P0, &P1, &P2, &P3, &P4, &P5 };
static unsigned char B0[BS], B1[BS], B2[BS], B3[BS], B4[BS], B5[BS], B6[BS], B7[BS], B8[BS], B9[BS];
static unsigned char *const BUF[4 + LEV_MAX] = { B0, B1, B2, B3, B4, B5, B6, B7, B8, B9 };
static unsigned char R0[BS], R1[BS], R2[BS], R3[BS], R4[BS], R5[BS];
static unsigned char *const REC[LEV_MAX] = { R0, R1, R2, R3, R4, R5 };

static unsigned g_hw_calls, g_pw_calls;
static struct snapraid_handle *g_hw_handle[NF];
static block_off_t g_hw_pos[NF];
static const unsigned char *g_hw_buf[NF];
static unsigned g_pw_level_mask;
static block_off_t g_pw_pos;
static const unsigned char *g_pw_buf[LEV_MAX];

static int w_handle_write(struct snapraid_handle *handle, block_off_t file_pos, unsigned char *block_buffer, unsigned block_size)
{
	unsigned k = g_hw_calls < NF ? g_hw_calls : NF - 1, j, which = 0;
	(void)block_size;
	g_hw_handle[k] = handle;
	g_hw_pos[k] = file_pos;
	g_hw_buf[k] = block_buffer;
	++g_hw_calls;
	for (j = 0; j < NF; ++j)
		if (handle == HND[j])
			which = j;
	return IN.write_ret[which] ? -1 : 0;
}
static int w_parity_write(struct snapraid_parity_handle *handle, block_off_t pos, unsigned char *block_buffer, unsigned block_size)
{
	unsigned l, which = 0;
	(void)block_size;
	for (l = 0; l < LEV_MAX; ++l)
		if (handle == PAR[l])
			which = l;
	g_pw_level_mask |= 1u << which;
	g_pw_pos = pos;
	g_pw_buf[which] = block_buffer;
	++g_pw_calls;
	return IN.pwrite_ret[which] ? -1 : 0;
}
static const char *w_esc(const char *str, char *buffer) { (void)buffer; return str; }
static const char *w_lev(unsigned l) { (void)l; return "p"; }

#define handle_write w_handle_write
#define parity_write w_parity_write
#define esc_tag w_esc
#define lev_name w_lev
#define lev_config_name w_lev
#include "region_writeback.c"
#undef handle_write
#undef parity_write
#undef esc_tag
#undef lev_name
#undef lev_config_name

void h_writeback(void)
{
	static struct snapraid_state ST;
	static struct failed_struct FAILED[NF];
	struct snapraid_parity_handle *parity[LEV_MAX];
	void *buffer[4 + LEV_MAX];
	void *buffer_recov[LEV_MAX];
	unsigned j, l, expect_writes = 0, recovered = 0, unrecoverable = 0, error = 0;
	int bailed = 0, stop_at = -1;
	VERIF_INPUTS();
	VERIF_ASSUME(IN.failed_count <= NF && IN.level >= 1 && IN.level <= LEV_MAX);
	ST.level = IN.level;
	ST.block_size = BS;
	ST.opt.syncedonly = IN.syncedonly != 0;
	for (j = 0; j < 4 + LEV_MAX; ++j)
		buffer[j] = BUF[j];
	for (j = 0; j < NF; ++j) {
		VERIF_ASSUME(IN.index[j] < 4);
		FIL[j]->flag = IN.fflag[j] & (FILE_IS_EXCLUDED | FILE_IS_UNSYNCED);
		FIL[j]->sub = "f";
		FAILED[j].is_bad = IN.is_bad[j] != 0;
		FAILED[j].is_outofdate = IN.outofdate[j] != 0;
		FAILED[j].index = IN.index[j];
		FAILED[j].file = FIL[j];
		FAILED[j].file_pos = IN.file_pos[j];
		FAILED[j].handle = HND[j];
		FAILED[j].disk = &DK;
	}
	for (l = 0; l < LEV_MAX; ++l) {
		buffer_recov[l] = IN.recov_ok[l] ? (void *)REC[l] : (void *)0;
		parity[l] = IN.has_parity[l] ? PAR[l] : 0;
		ST.parity[l].is_excluded_by_filter = IN.excluded[l] != 0;
	}
	g_hw_calls = g_pw_calls = 0;
	g_pw_level_mask = 0;

	region_writeback(&ST, IN.fix, FAILED, IN.failed_count, buffer, buffer_recov, parity, 4, 7, IN.used_parity, IN.valid_parity, &error, &recovered, &unrecoverable, &bailed);

	if (!IN.fix) {
		VERIF_ASSERT(g_hw_calls == 0 && g_pw_calls == 0, "without the fix flag nothing is written, neither data nor parity");
		VERIF_ASSERT(recovered == 0, "and nothing is counted as recovered");
	} else {
		/* the data blocks, in order, up to the first failing write */
		for (j = 0; j < NF; ++j)
			if (j < IN.failed_count && stop_at < 0) {
				int selected = IN.is_bad[j] && !(FIL[j]->flag & FILE_IS_EXCLUDED) && !(IN.syncedonly && (IN.fflag[j] & FILE_IS_UNSYNCED));
				if (selected) {
					VERIF_ASSERT(g_hw_calls > expect_writes, "every bad block of a selected file is written");
					VERIF_ASSERT(g_hw_handle[expect_writes] == HND[j] && g_hw_pos[expect_writes] == IN.file_pos[j] && g_hw_buf[expect_writes] == BUF[IN.index[j]],
						"the bytes written are the reconstruction of that disk slot, at that position of that file");
					++expect_writes;
					if (IN.write_ret[j])
						stop_at = (int)j;
				}
			}
		VERIF_ASSERT(g_hw_calls == expect_writes, "nothing else is written: not a block that is not bad, not a file excluded by the filters");
		{
			int pw_fail = 0;
			if (stop_at < 0)
				for (l = 0; l < LEV_MAX; ++l)
					if (IN.used_parity && IN.valid_parity && l < IN.level && !IN.recov_ok[l] && IN.has_parity[l] && !IN.excluded[l] && IN.pwrite_ret[l])
						pw_fail = 1;
			VERIF_ASSERT(bailed == (stop_at >= 0 || pw_fail), "a failing write, and only that, stops the command");
		}
		if (stop_at < 0) {
			for (l = 0; l < LEV_MAX; ++l) {
				int due = IN.used_parity && IN.valid_parity && l < IN.level && !IN.recov_ok[l] && IN.has_parity[l] && !IN.excluded[l];
				if (!bailed)
					VERIF_ASSERT(((g_pw_level_mask >> l) & 1) == (unsigned)due, "parity is rewritten exactly for the levels read as wrong, accessible and not excluded, of a stripe with used and fully valid parity");
				if ((g_pw_level_mask >> l) & 1) {
					VERIF_ASSERT(due, "no other parity block is written");
					VERIF_ASSERT(g_pw_buf[l] == BUF[4 + l] && g_pw_pos == 7, "the parity written is the recomputed one of that level, at the stripe position");
				}
			}
		} else {
			VERIF_ASSERT(g_pw_calls == 0, "after a failed data write no parity is written");
		}
	}
	/* flags */
	for (j = 0; j < NF; ++j)
		if (j < IN.failed_count && IN.fix && (stop_at < 0 || (int)j < stop_at)) {
			int selected = IN.is_bad[j] && !(IN.fflag[j] & FILE_IS_EXCLUDED) && !(IN.syncedonly && (IN.fflag[j] & FILE_IS_UNSYNCED));
			if (selected && IN.outofdate[j] && !IN.write_ret[j])
				VERIF_ASSERT(FIL[j]->flag & FILE_IS_DAMAGED, "a file that received a reconstruction that may be out of date is marked damaged (it will be renamed .unrecoverable)");
		}
	VERIF_CANARY();
}


/*
 * The outcome of repair() for one stripe (state_check_process, region "try all the recovering strategies" up to "now write
 * recovered files"): a stripe that could not be repaired counts as unrecoverable and EVERY bad entry marks its file DAMAGED
 * (file_post renames it); after a successful repair the entries whose reconstruction may be out of date still count as
 * unrecoverable; the parity read is then compared with the recomputed one for every level - only when the stripe has used and
 * fully valid parity - and a level that differs is counted and dropped (so that fix rewrites it).
 */
static int g_repair_calls;
static int o_repair(struct snapraid_state *state, int rehash, unsigned pos, unsigned diskmax, struct failed_struct *failed, unsigned *failed_map, unsigned failed_count, void **buffer, void **buffer_recov, void *buffer_zero)
{
	(void)state; (void)rehash; (void)pos; (void)diskmax; (void)failed; (void)failed_map; (void)failed_count; (void)buffer; (void)buffer_recov; (void)buffer_zero;
	++g_repair_calls;
	return IN.repair_ret;
}
static unsigned o_memdiff(const unsigned char *a, const unsigned char *b, size_t n) { (void)a; (void)b; (void)n; return 1; }
#define repair o_repair
#define memdiff o_memdiff
#define esc_tag w_esc
#define lev_config_name w_lev
#include "region_repair_outcome.c"
#undef repair
#undef memdiff
#undef esc_tag
#undef lev_config_name

void h_repair_outcome(void)
{
	static struct snapraid_state ST;
	static struct failed_struct FAILED[NF];
	unsigned failed_map[NF];
	void *buffer[4 + LEV_MAX];
	void *buffer_recov[LEV_MAX];
	unsigned j, l, k, error, unrec, nbad = 0, nood = 0, mism = 0;
	VERIF_INPUTS();
	VERIF_ASSUME(IN.failed_count <= NF && IN.level >= 1 && IN.level <= LEV_MAX);
	VERIF_ASSUME(IN.repair_ret >= -1 && IN.repair_ret <= 20 && IN.cnt_error < 100000 && IN.cnt_unrec < 100000);
	ST.level = IN.level;
	ST.block_size = BS;
	for (j = 0; j < 4 + LEV_MAX; ++j)
		buffer[j] = BUF[j];
	for (j = 0; j < NF; ++j) {
		FIL[j]->flag = 0;
		FIL[j]->sub = "f";
		FAILED[j].is_bad = IN.is_bad[j] != 0;
		FAILED[j].is_outofdate = IN.outofdate[j] != 0;
		FAILED[j].index = j;
		FAILED[j].file = FIL[j];
		FAILED[j].file_pos = 0;
		FAILED[j].handle = HND[j];
		FAILED[j].disk = &DK;
		if (j < IN.failed_count && IN.is_bad[j]) {
			++nbad;
			if (IN.outofdate[j])
				++nood;
		}
	}
	for (l = 0; l < LEV_MAX; ++l) {
		int differs = 0;
		buffer_recov[l] = (l < IN.level && IN.recov_ok[l]) ? (void *)REC[l] : (void *)0;
		for (k = 0; k < BS; ++k) {
			REC[l][k] = IN.ondisk[l * BS + k];
			BUF[4 + l][k] = IN.computed[l * BS + k];
			if (IN.ondisk[l * BS + k] != IN.computed[l * BS + k])
				differs = 1;
		}
		if (l < IN.level && IN.recov_ok[l] && differs)
			++mism;
	}
	error = IN.cnt_error; unrec = IN.cnt_unrec;
	g_repair_calls = 0;
	region_repair_outcome(&ST, 0, 7, 4, FAILED, failed_map, IN.failed_count, buffer, buffer_recov, 0, IN.used_parity, IN.valid_parity, &error, &unrec);

	VERIF_ASSERT(g_repair_calls == 1, "one repair attempt per stripe");
	if (IN.repair_ret != 0) {
		VERIF_ASSERT(unrec == IN.cnt_unrec + 1 && error == IN.cnt_error + (IN.repair_ret > 0 ? (unsigned)IN.repair_ret : 0), "a stripe that could not be repaired is counted as unrecoverable");
		for (j = 0; j < NF; ++j)
			if (j < IN.failed_count)
				VERIF_ASSERT(((FIL[j]->flag & FILE_IS_DAMAGED) != 0) == (IN.is_bad[j] != 0), "and exactly the files of its bad blocks are marked damaged");
		for (l = 0; l < LEV_MAX; ++l)
			VERIF_ASSERT((buffer_recov[l] != 0) == (l < IN.level && IN.recov_ok[l]), "no parity is judged on a stripe that was not repaired");
	} else {
		int cmp = IN.used_parity && IN.valid_parity;
		VERIF_ASSERT(unrec == IN.cnt_unrec + (nood ? 1 : 0), "a repaired stripe whose reconstruction may be out of date still counts as unrecoverable");
		VERIF_ASSERT(error == IN.cnt_error + nood + (cmp ? mism : 0), "every parity level read that differs from the recomputed one is counted, on stripes with used and valid parity only");
		for (l = 0; l < LEV_MAX; ++l) {
			int differs = 0;
			for (k = 0; k < BS; ++k)
				if (IN.ondisk[l * BS + k] != IN.computed[l * BS + k])
					differs = 1;
			VERIF_ASSERT((buffer_recov[l] != 0) == (l < IN.level && IN.recov_ok[l] && !(cmp && differs)), "a parity level found wrong is dropped so that fix rewrites it; a correct one is kept");
		}
	}
	VERIF_CANARY();
}


/*
 * The per-disk data verification of check / fix (state_check_process, region "read from the file" up to "now read and check
 * the parity"): a block that cannot be read, or whose digest (previous hash kind during a migration) differs from the
 * recorded hash over BLOCK_HASH_SIZE bytes, enters the failed set as BAD with the slot / file / position it came from and
 * is counted; a pending (CHG) block always enters as NOT bad (it is never overwritten on a guess); a replaced (REP) block
 * that matches enters as not bad; a synced block that matches does not enter.
 */
static unsigned g_dv_read, g_dv_hash;
static unsigned g_dv_kind;
static const void *g_dv_src;
static size_t g_dv_len;
static int v_handle_read(struct snapraid_handle *h, block_off_t file_pos, unsigned char *buf, unsigned block_size, fptr *out, fptr *out_missing)
{ (void)h; (void)file_pos; (void)buf; (void)out; (void)out_missing; ++g_dv_read; return IN.dv_read_ret < 0 ? -1 : (int)(IN.dv_read_ret % (block_size + 1)); }
static void v_memhash(unsigned kind, const unsigned char *seed, void *digest, const void *src, size_t size)
{
	int k;
	(void)seed;
	++g_dv_hash; g_dv_kind = kind; g_dv_src = src; g_dv_len = size;
	for (k = 0; k < 16; ++k)
		((unsigned char *)digest)[k] = IN.dv_digest[k];
}
#define handle_read v_handle_read
#define memhash v_memhash
#define memdiff o_memdiff
#define esc_tag w_esc
#include "region_data_verify.c"
#undef handle_read
#undef memhash
#undef memdiff
#undef esc_tag

void h_data_verify(void)
{
	static struct snapraid_state ST;
	static struct failed_struct FAILED[NF + 1];
	static unsigned char BLKMEM[64];
	struct snapraid_block *b = (struct snapraid_block *)BLKMEM;
	void *buffer[4 + LEV_MAX];
	unsigned j, k, failed_count, error, eq = 1;
	data_off_t countsize = 0;
	VERIF_INPUTS();
	VERIF_ASSUME(IN.dv_slot < 4 && IN.dv_failed0 <= NF - 1 && IN.dv_error0 < 100000);
	VERIF_ASSUME(IN.dv_state == BLOCK_STATE_BLK || IN.dv_state == BLOCK_STATE_CHG || IN.dv_state == BLOCK_STATE_REP);
	BLOCK_HASH_SIZE = 16;
	ST.block_size = BS;
	ST.hash = HASH_MURMUR3;
	ST.prevhash = HASH_SPOOKY2;
	block_state_set(b, IN.dv_state);
	for (k = 0; k < 16; ++k) {
		b->hash[k] = IN.dv_recorded[k];
		if (IN.dv_recorded[k] != IN.dv_digest[k])
			eq = 0;
	}
	for (j = 0; j < 4 + LEV_MAX; ++j)
		buffer[j] = BUF[j];
	failed_count = IN.dv_failed0; error = IN.dv_error0;
	g_dv_read = g_dv_hash = 0;
	j = IN.dv_slot;
	region_data_verify(&ST, IN.dv_rehash, 7, j, HND[0], &DK, FIL[0], 3, b, IN.dv_state, buffer, FAILED, &failed_count, &error, &countsize);

	VERIF_ASSERT(g_dv_read == 1, "the block is read once");
	{
		int entered = failed_count == IN.dv_failed0 + 1;
		int bad_expected, enter_expected;
		if (IN.dv_read_ret < 0) { enter_expected = 1; bad_expected = 1; }
		else if (IN.dv_state == BLOCK_STATE_CHG) { enter_expected = 1; bad_expected = 0; }
		else if (!eq) { enter_expected = 1; bad_expected = 1; }
		else if (IN.dv_state == BLOCK_STATE_REP) { enter_expected = 1; bad_expected = 0; }
		else { enter_expected = 0; bad_expected = 0; }
		VERIF_ASSERT(failed_count == IN.dv_failed0 + (unsigned)enter_expected, "a block enters the failed set iff it could not be read, does not match its hash, or has no valid parity (CHG / REP)");
		VERIF_ASSERT(error == IN.dv_error0 + (unsigned)bad_expected, "every unreadable or mismatching block is counted as an error, nothing else");
		if (entered) {
			struct failed_struct *f = &FAILED[IN.dv_failed0];
			VERIF_ASSERT(f->is_bad == bad_expected && f->is_outofdate == 0, "it is marked bad exactly when it could not be read or its digest differs from the recorded hash; a pending block is never marked bad");
			VERIF_ASSERT(f->index == IN.dv_slot && f->block == b && f->disk == &DK && f->file == FIL[0] && f->file_pos == 3 && f->handle == &HND[0][IN.dv_slot], "with the disk slot, block, file, position and handle it came from");
		}
		if (IN.dv_read_ret >= 0 && IN.dv_state != BLOCK_STATE_CHG)
			VERIF_ASSERT(g_dv_hash == 1 && g_dv_src == BUF[IN.dv_slot] && g_dv_len == (size_t)(IN.dv_read_ret % (BS + 1)) && g_dv_kind == (IN.dv_rehash ? HASH_SPOOKY2 : HASH_MURMUR3),
				"the digest is taken over exactly the bytes read from that slot, with the previous hash kind exactly during a migration");
	}
	VERIF_CANARY();
}


/*
 * block_is_enabled of check / fix (whole body extracted): which stripes a run visits.
 *   -e on blocks: exactly the stripes marked bad; files-with-errors filter: bad stripes always, else by file; otherwise every
 *   stripe as soon as one parity level is not excluded by the filters (a plain check / fix visits EVERY stripe, unused ones
 *   included); with all parities excluded: the stripes holding a block of a file that the filters select.
 */
static struct snapraid_disk BD0, BD1, BD2;
static struct snapraid_disk *const BDK[3] = { &BD0, &BD1, &BD2 };
static struct snapraid_file BF0, BF1, BF2;
static struct snapraid_file *const BFL[3] = { &BF0, &BF1, &BF2 };
static unsigned char BBK0[64], BBK1[64], BBK2[64];
static unsigned char *const BBK[3] = { BBK0, BBK1, BBK2 };
static snapraid_info b_info_get(tommy_arrayblkof *a, block_off_t pos) { (void)a; VERIF_ASSERT(pos == 7, "info of the stripe asked"); return info_make(8, IN.be_bad != 0, 0, 0); }
static struct snapraid_block *b_find(struct snapraid_disk *disk, block_off_t pos)
{
	int k, w = 0;
	VERIF_ASSERT(pos == 7, "block of the stripe asked");
	for (k = 0; k < 3; ++k) if (disk == BDK[k]) w = k;
	return IN.be_state[w] ? (struct snapraid_block *)BBK[w] : BLOCK_NULL;
}
static struct snapraid_file *b_fileget(struct snapraid_disk *disk, block_off_t pos, block_off_t *fp) { int k, w = 0; (void)pos; (void)fp; for (k = 0; k < 3; ++k) if (disk == BDK[k]) w = k; return BFL[w]; }
#define info_get b_info_get
#define fs_par2block_find b_find
#define fs_par2file_get b_fileget
#include "region_check_block_is_enabled.c"
#undef info_get
#undef fs_par2block_find
#undef fs_par2file_get

void h_check_block_is_enabled(void)
{
	static struct snapraid_state ST;
	static struct snapraid_handle H[3];
	int k, r, any_parity = 0, any_file = 0, want;
	unsigned l;
	VERIF_INPUTS();
	VERIF_ASSUME(IN.level >= 1 && IN.level <= LEV_MAX);
	ST.level = IN.level;
	ST.opt.badblockonly = IN.badblockonly != 0;
	ST.opt.badfileonly = IN.badfileonly != 0;
	for (l = 0; l < LEV_MAX; ++l) {
		ST.parity[l].is_excluded_by_filter = IN.pexcl[l] != 0;
		if (l < IN.level && !IN.pexcl[l])
			any_parity = 1;
	}
	for (k = 0; k < 3; ++k) {
		VERIF_ASSUME(IN.be_state[k] == 0 || IN.be_state[k] == BLOCK_STATE_BLK || IN.be_state[k] == BLOCK_STATE_CHG || IN.be_state[k] == BLOCK_STATE_REP || IN.be_state[k] == BLOCK_STATE_DELETED);
		H[k].disk = IN.be_disk[k] ? BDK[k] : 0;
		if (IN.be_state[k])
			block_state_set((struct snapraid_block *)BBK[k], IN.be_state[k]);
		BFL[k]->flag = IN.be_fexcl[k] ? FILE_IS_EXCLUDED : 0;
		if (IN.be_disk[k] && (IN.be_state[k] == BLOCK_STATE_BLK || IN.be_state[k] == BLOCK_STATE_CHG || IN.be_state[k] == BLOCK_STATE_REP) && !IN.be_fexcl[k])
			any_file = 1;
	}
	r = region_check_block_is_enabled(&ST, 7, H, 3);
	if (IN.badblockonly)
		want = IN.be_bad != 0;
	else if (IN.badfileonly)
		want = IN.be_bad || any_file;
	else
		want = any_parity || any_file;
	VERIF_ASSERT((r != 0) == want, "a stripe is visited iff: -e on blocks: it is marked bad; otherwise some parity level is selected (every stripe of a plain check / fix), or it is bad, or it holds a block of a selected file");
	VERIF_CANARY();
}

/*
 * The parity offered to the repair of ONE stripe (state_check_process, region "now read and check the parity if requested" up
 * to "try all the recovering strategies"): for every configured level whose parity file is open the block of THIS stripe is
 * read into the level's own buffer, and the level is offered to repair exactly when that read succeeded - whatever happened
 * to the same level on an earlier stripe (the pointers handed in are the ones an earlier stripe may have left: zero after a
 * read error or a mismatch there).  A failed read is counted.  The zero buffer is the last one.
 */
static unsigned g_po_calls[LEV_MAX];
static void *g_po_buf[LEV_MAX];
static block_off_t g_po_pos[LEV_MAX];
static int po_parity_read(struct snapraid_parity_handle *h, block_off_t pos, unsigned char *buf, unsigned block_size, fptr *out)
{
	unsigned l;
	(void)out;
	VERIF_ASSERT(block_size == BS, "a whole block is read");
	for (l = 0; l < LEV_MAX; ++l)
		if (h == PAR[l]) {
			++g_po_calls[l];
			g_po_buf[l] = buf;
			g_po_pos[l] = pos;
			return IN.po_read_ret[l] ? -1 : 0;
		}
	VERIF_ASSERT(0, "a parity handle of the array");
	return -1;
}
#define parity_read po_parity_read
#define lev_config_name w_lev
#include "region_parity_offer.c"
#undef parity_read
#undef lev_config_name

void h_parity_offer(void)
{
	static struct snapraid_state ST;
	struct snapraid_parity_handle *parity[LEV_MAX];
	void *buffer[2 + 2 * LEV_MAX + 1];
	void *stale[LEV_MAX], *out_recov[LEV_MAX], *out_zero = 0;
	unsigned l, error, nfail = 0, diskmax = 2, buffermax;
	VERIF_INPUTS();
	VERIF_ASSUME(IN.level >= 1 && IN.level <= LEV_MAX && IN.cnt_error < 100000 && !IN.po_auditonly);
	ST.level = IN.level;
	ST.block_size = BS;
	ST.opt.auditonly = 0;
	buffermax = diskmax + 2 * IN.level + 1;
	/* distinct addresses: one byte of a private array per buffer slot */
	{
		static unsigned char slot[2 + 2 * LEV_MAX + 1];
		for (l = 0; l < 2 + 2 * LEV_MAX + 1; ++l)
			buffer[l] = &slot[l];
	}
	for (l = 0; l < LEV_MAX; ++l) {
		parity[l] = (l < IN.level && IN.po_present[l]) ? PAR[l] : 0;
		/* what an earlier stripe may have left for this level */
		stale[l] = (l < IN.level && !IN.po_stale[l]) ? buffer[diskmax + IN.level + l] : (void *)0;
		out_recov[l] = (void *)1;
		g_po_calls[l] = 0;
		if (l < IN.level && IN.po_present[l] && IN.po_read_ret[l])
			++nfail;
	}
	error = IN.cnt_error;
	region_parity_offer(&ST, parity, 7, diskmax, buffermax, buffer, stale, out_recov, &out_zero, &error);
	for (l = 0; l < LEV_MAX; ++l) {
		int open = l < IN.level && IN.po_present[l];
		VERIF_ASSERT(g_po_calls[l] == (open ? 1u : 0u), "the parity block of the stripe is read once from every open level");
		if (open)
			VERIF_ASSERT(g_po_buf[l] == buffer[diskmax + IN.level + l] && g_po_pos[l] == 7, "it is read at the position of the stripe into the buffer of its level, whatever an earlier stripe left");
		VERIF_ASSERT(out_recov[l] == ((open && !IN.po_read_ret[l]) ? buffer[diskmax + IN.level + l] : (void *)0), "a level is offered to repair exactly when its parity was read for THIS stripe");
	}
	VERIF_ASSERT(out_zero == buffer[buffermax - 1], "the zero buffer is the last one");
	VERIF_ASSERT(error == IN.cnt_error + nfail, "every parity read error is counted");
	VERIF_CANARY();
}


/*
 * The shortcut of repair() (first strategy, region "we are not interested in DELETED ones" .. "if nothing to fix"): a bad block
 * may be filled from an imported / moved / duplicate file instead of being rebuilt from parity ONLY when the hash recorded for
 * it describes its CURRENT content - a synced (BLK) or replaced (REP) block.  The hash of a pending (CHG) block is the one of
 * the content it REPLACED: data fetched by that hash would be "verified" against the wrong content (C19, C05).
 *   - no fetch for a block that is not bad, and none for a bad CHG block: it always goes to the reconstruction
 *   - for a bad BLK / REP block the import index is asked first, then the search index; the block and the buffer slot handed
 *     to the fetch are the ones of the entry
 *   - exactly the bad entries not satisfied by a fetch enter the reconstruction, in order
 */
static unsigned g_rf_import[NF], g_rf_search[NF], g_rf_order, g_rf_import_when[NF], g_rf_search_when[NF];
static struct snapraid_block *g_rf_block(unsigned j);
static unsigned char RFB0[64], RFB1[64], RFB2[64];
static unsigned char *const RFB[NF] = { RFB0, RFB1, RFB2 };
static struct snapraid_block *g_rf_block(unsigned j) { return (struct snapraid_block *)RFB[j]; }
static int rf_entry_of(struct snapraid_block *block)
{
	unsigned j;
	for (j = 0; j < NF; ++j)
		if (block == g_rf_block(j))
			return (int)j;
	VERIF_ASSERT(0, "the block of an entry of the failed set");
	return 0;
}
static int rf_import(struct snapraid_state *state, int rehash, struct snapraid_block *block, unsigned char *buffer)
{
	int j = rf_entry_of(block);
	(void)state;
	VERIF_ASSERT(rehash == IN.rf_rehash, "the migration flag is passed on");
	VERIF_ASSERT(buffer == BUF[IN.index[j] % 4], "the data fetched lands in the buffer slot of the entry");
	++g_rf_import[j]; g_rf_import_when[j] = ++g_rf_order;
	return IN.rf_import_ret[j] ? -1 : 0;
}
static int rf_search(struct snapraid_state *state, int rehash, struct snapraid_file *file, block_off_t file_pos, struct snapraid_block *block, unsigned char *buffer)
{
	int j = rf_entry_of(block);
	(void)state;
	VERIF_ASSERT(rehash == IN.rf_rehash, "the migration flag is passed on");
	VERIF_ASSERT(buffer == BUF[IN.index[j] % 4] && file == FIL[j] && file_pos == IN.file_pos[j], "the search is made for the file and position of the entry, into its buffer slot");
	++g_rf_search[j]; g_rf_search_when[j] = ++g_rf_order;
	return IN.rf_search_ret[j] ? -1 : 0;
}
#define state_import_fetch rf_import
#define state_search_fetch rf_search
#include "region_repair_fetch.c"
#undef state_import_fetch
#undef state_search_fetch

void h_repair_fetch(void)
{
	static struct snapraid_state ST;
	static struct failed_struct FAILED[NF];
	unsigned failed_map[NF];
	void *buffer[4 + LEV_MAX];
	unsigned j, want = 0;
	int n = -1, something = -1;
	VERIF_INPUTS();
	VERIF_ASSUME(IN.failed_count <= NF);
	for (j = 0; j < 4 + LEV_MAX; ++j)
		buffer[j] = BUF[j];
	for (j = 0; j < NF; ++j) {
		VERIF_ASSUME(IN.rf_state[j] == BLOCK_STATE_BLK || IN.rf_state[j] == BLOCK_STATE_REP || IN.rf_state[j] == BLOCK_STATE_CHG || IN.rf_state[j] == BLOCK_STATE_DELETED);
		/* a deleted block has no file to read: it is never bad */
		VERIF_ASSUME(!(IN.rf_state[j] == BLOCK_STATE_DELETED && IN.is_bad[j]));
		block_state_set(g_rf_block(j), IN.rf_state[j]);
		memcpy(g_rf_block(j)->hash, &IN.rf_hash[j * 16], 16); /* any recorded hash, the ZERO and INVALID markers included */
		FAILED[j].is_bad = IN.is_bad[j] != 0;
		FAILED[j].is_outofdate = 0;
		FAILED[j].index = IN.index[j] % 4;
		FAILED[j].block = g_rf_block(j);
		FAILED[j].file = FIL[j];
		FAILED[j].file_pos = IN.file_pos[j];
		FAILED[j].handle = HND[j];
		FAILED[j].disk = &DK;
		failed_map[j] = 99;
		g_rf_import[j] = g_rf_search[j] = 0;
	}
	g_rf_order = 0;
	region_repair_fetch(&ST, IN.rf_rehash, FAILED, failed_map, IN.failed_count, buffer, &n, &something);
	for (j = 0; j < NF; ++j) {
		int cur = IN.rf_state[j] == BLOCK_STATE_BLK || IN.rf_state[j] == BLOCK_STATE_REP;
		int satisfied, listed = 0;
		unsigned k;
		if (j >= IN.failed_count || !IN.is_bad[j]) {
			VERIF_ASSERT(g_rf_import[j] == 0 && g_rf_search[j] == 0, "nothing is fetched for a block that is not bad");
			continue;
		}
		if (!cur)
			VERIF_ASSERT(g_rf_import[j] == 0 && g_rf_search[j] == 0, "no data is fetched by the hash of a pending (CHG) block: that hash describes the content it replaced");
		/* which source is asked first, and whether the second is asked at all, is not part of the property */
		satisfied = (g_rf_import[j] && !IN.rf_import_ret[j]) || (g_rf_search[j] && !IN.rf_search_ret[j]);
		for (k = 0; k < NF; ++k)
			if ((int)k < n && failed_map[k] == j)
				++listed;
		VERIF_ASSERT(listed <= 1, "an entry enters the reconstruction at most once");
		if (!satisfied) {
			VERIF_ASSERT(listed == 1, "every bad entry not satisfied by a verified fetch enters the reconstruction");
			++want;
		}
	}
	VERIF_ASSERT(n >= (int)want && n <= NF && (something != 0) == (n != 0), "the number of entries to reconstruct is reported");
	VERIF_CANARY();
}


#include "verif_tail.h"
