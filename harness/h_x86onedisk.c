/*
 * raid/x86.c: the generators for 3..6 parities begin with plain C - the set-up of the buffer pointers and the special case of
 * an array with ONE data disk, handled by copying - before their inline assembly, which is outside cbmc's reach.  That
 * beginning (signature .. the `return;` of the special case) is extracted mechanically for each of the 12 functions.
 * Property C02: with one data disk every parity equals the data block (column 0 of the generator matrix is all ones: units
 * tab.cauchy / tab.power), so the NP buffers after the data must receive exactly the data, all `size` bytes, nothing else
 * written.  The assembly part of the functions stays unverified (listed under not_covered).
 */
#include <stdint.h>
#include <stddef.h>
#include <string.h>
#include "verif.h"

#ifndef NP
#define NP 3
#endif
#define SZ 8
struct verif_in {
	uint8_t data[SZ], before[7 * SZ];
	size_t size;
};
VERIF_DECLARE_IN

/* raid/internal.h helper used by two of the functions to align a scratch buffer that only the assembly part uses */
static void *__align_ptr(void *ptr, uintptr_t size) { (void)size; return ptr; }

#define REGION_FN_(n) region_x86_one_##n
#define REGION_FN(n) REGION_FN_(n)
#include X86_REGION_FILE

void h_x86_one_disk(void)
{
	static uint8_t B0[SZ], B1[SZ], B2[SZ], B3[SZ], B4[SZ], B5[SZ], B6[SZ], B7[SZ];
	uint8_t *const B[8] = { B0, B1, B2, B3, B4, B5, B6, B7 };
	void *v[8];
	unsigned k, j;
	VERIF_INPUTS();
	VERIF_ASSUME(IN.size <= SZ);
	for (k = 0; k < 8; ++k) {
		v[k] = B[k];
		for (j = 0; j < SZ; ++j)
			B[k][j] = k == 0 ? IN.data[j] : IN.before[((k - 1) % 7) * SZ + j];
	}
	X86_REGION_CALL(1, IN.size, v);
	for (k = 1; k < 8; ++k)
		for (j = 0; j < SZ; ++j) {
			if (k <= NP && j < IN.size)
				VERIF_ASSERT(B[k][j] == IN.data[j], "with one data disk every parity block is the data block (column 0 of the generator matrix is all ones)");
			else
				VERIF_ASSERT(B[k][j] == IN.before[((k - 1) % 7) * SZ + j], "nothing else is written");
		}
	for (j = 0; j < SZ; ++j)
		VERIF_ASSERT(B0[j] == IN.data[j], "the data is not touched");
	VERIF_CANARY();
}

#include "verif_tail.h"
