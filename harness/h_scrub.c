/*
 * Scrub plan (cmdline/scrub.c, REAL code included below; the limit computation is a mechanically extracted region of
 * state_scrub(), see tools/inject.py extract_region).
 *
 *  block_is_enabled  the decision table of every plan (driver), info_get replaced by its contract (dfcc)
 *  region scrub_limits  contract with UNBOUNDED loop contracts over a sorted time map of any length
 *  lemma                block_is_enabled + limits: an AUTO scrub selects exactly countlimit stripes, oldest first
 *  info_*            bit-exact contracts of the per-stripe info word (elem.h)
 *  md                ceil(a*b/c)
 */
#include "portable.h"
#include "support.h"
#include "elem.h"
#include "state.h"
#include "parity.h"
#include "handle.h"
#include "io.h"
#include "raid/raid.h"
#include "verif.h"

/* ghost: the info word the replaced info_get() returns */
static snapraid_info g_info;

static inline snapraid_info info_get(tommy_arrayblkof *array, block_off_t pos)
__CPROVER_ensures(__CPROVER_return_value == g_info)
__CPROVER_assigns();

static inline int spec_enabled(int plan, snapraid_info info, block_off_t i, time_t timelimit, block_off_t lastlimit, block_off_t countlast)
{
	time_t t = (time_t)(info & ~(snapraid_info)INFO_MASK);
	if (info == 0)
		return 0;
	if (info & 1)
		return 1;
	if (plan == SCRUB_FULL)
		return 1;
	if (plan == SCRUB_EVEN)
		return i % 2 == 0;
	if (plan == SCRUB_NEW)
		return (info & 4) != 0;
	if (plan == SCRUB_BAD)
		return 0;
	if (t > timelimit)
		return 0;
	if (t == timelimit)
		return countlast < lastlimit;
	return 1;
}

static unsigned char G_DIG_CUR[HASH_MAX], G_DIG_PREV[HASH_MAX];
static unsigned g_mh_kinds;
#ifdef VERIF_CBMC
void log_tag(const char *format, ...) { (void)format; }
void log_fatal(const char *format, ...) { (void)format; }
void log_error(const char *format, ...) { (void)format; }
void os_abort(void) { __CPROVER_assume(0); }
void memhash(unsigned kind, const unsigned char *seed, void *digest, const void *src, size_t size)
{
	int k;
	(void)seed; (void)src; (void)size;
	g_mh_kinds |= 1u << kind;
	for (k = 0; k < HASH_MAX; ++k)
		((unsigned char *)digest)[k] = kind == HASH_SPOOKY2 ? G_DIG_PREV[k] : G_DIG_CUR[k];
}
unsigned memdiff(const unsigned char *a, const unsigned char *b, size_t n) { (void)a; (void)b; (void)n; return 1; }
const char *esc_tag(const char *str, char *buffer) { (void)buffer; return str; }
void state_usage_file(struct snapraid_state *state, struct snapraid_disk *disk, struct snapraid_file *file) { (void)state; (void)disk; (void)file; }
void state_usage_hash(struct snapraid_state *state) { (void)state; }
void state_usage_raid(struct snapraid_state *state) { (void)state; }
#endif

/* the REAL translation unit */
#include "scrub.c"

/* ---------------------------------------------------------------- drivers */
struct verif_in {
	/* classify region */
	unsigned cstate;
	int ts_diff, task_state, file_unsynced0, block_unsynced0, rehash;
	unsigned char dcur[HASH_MAX], dprev[HASH_MAX], rec[HASH_MAX];
	int hsize;
	unsigned io_limit;
	int plan;
	snapraid_info info;
	block_off_t i;
	time_t timelimit;
	block_off_t lastlimit, countlast;
	/* info word */
	time_t t;
	int e, r, j;
	/* md */
	uint32_t a, b, c;
	/* limits: a window of the sorted time map around the positions the obligations look at */
	block_off_t count, countlimit, k;
	time_t recentlimit;
};
VERIF_DECLARE_IN

void h_block_is_enabled(void)
{
	static struct snapraid_state st;
	struct snapraid_plan ps;
	int r, e;
	VERIF_INPUTS();
	ps.state = &st;
	ps.plan = IN.plan;
	ps.timelimit = IN.timelimit;
	ps.lastlimit = IN.lastlimit;
	ps.countlast = IN.countlast;
	VERIF_ASSUME(IN.plan == SCRUB_AUTO || IN.plan == SCRUB_BAD || IN.plan == SCRUB_NEW || IN.plan == SCRUB_FULL || IN.plan == SCRUB_EVEN);
	VERIF_ASSUME(IN.countlast < 0xffffffffu);
	g_info = IN.info;
#ifdef VERIF_NATIVE
	exit(77); /* info_get is replaced by its contract under cbmc only */
#endif
	r = block_is_enabled(&ps, IN.i);
	e = spec_enabled(IN.plan, IN.info, IN.i, IN.timelimit, IN.lastlimit, IN.countlast);
	VERIF_ASSERT(r == e, "block_is_enabled follows the plan decision table");
	VERIF_ASSERT(ps.countlast == IN.countlast + (IN.plan == SCRUB_AUTO && IN.info != 0 && !(IN.info & 1) && (time_t)(IN.info & ~(snapraid_info)INFO_MASK) == IN.timelimit && e),
		"block_is_enabled counts exactly the selected stripes whose time equals the limit");
	VERIF_ASSERT(ps.plan == IN.plan && ps.timelimit == IN.timelimit && ps.lastlimit == IN.lastlimit, "block_is_enabled leaves the plan alone");
	VERIF_CANARY();
}

void h_info(void)
{
	snapraid_info w;
	VERIF_INPUTS();
	w = info_make(IN.t, IN.e, IN.r, IN.j);
	VERIF_ASSERT(info_get_time(w) == (time_t)((snapraid_info)IN.t & ~(snapraid_info)INFO_MASK), "info_make/info_get_time keep the time at 8 s granularity");
	VERIF_ASSERT(info_get_bad(w) == (IN.e != 0) && info_get_rehash(w) == (IN.r != 0) && info_get_justsynced(w) == (IN.j != 0), "info_make/info_get_* keep the three marks");
	VERIF_ASSERT(info_get_bad(info_set_bad(IN.info)) && info_get_time(info_set_bad(IN.info)) == info_get_time(IN.info)
		&& info_get_rehash(info_set_bad(IN.info)) == info_get_rehash(IN.info) && info_get_justsynced(info_set_bad(IN.info)) == info_get_justsynced(IN.info),
		"info_set_bad sets only the bad mark");
	VERIF_ASSERT(info_get_rehash(info_set_rehash(IN.info)) && info_get_time(info_set_rehash(IN.info)) == info_get_time(IN.info)
		&& info_get_bad(info_set_rehash(IN.info)) == info_get_bad(IN.info), "info_set_rehash sets only the rehash mark");
	VERIF_ASSERT(info_make(IN.t, 0, 0, 0) == 0 ? ((snapraid_info)IN.t & ~(snapraid_info)INFO_MASK) == 0 : 1, "a refreshed stripe is 'used' unless its time is below 8 s");
	VERIF_CANARY();
}

#ifndef MD_C
#define MD_C 100
#define MD_BMAX 100
#endif
void h_md(void)
{
	uint32_t r;
	uint64_t prod;
	VERIF_INPUTS();
	VERIF_ASSUME(IN.c == MD_C && IN.b <= MD_BMAX);
	r = md(IN.a, IN.b, IN.c);
	prod = (uint64_t)IN.a * IN.b;
	VERIF_ASSERT((uint64_t)r * IN.c >= prod && (r == 0 || (uint64_t)(r - 1) * IN.c < prod), "md(a,b,c) == ceil(a*b/c)");
	VERIF_CANARY();
}

/* ---------------------------------------------------------------- per-stripe book keeping region */
static snapraid_info g_set_info;
static unsigned g_set_calls;
static block_off_t g_set_pos;
static inline void info_set(tommy_arrayblkof *array, block_off_t pos, snapraid_info info)
__CPROVER_ensures(g_set_info == info && g_set_pos == pos && g_set_calls == __CPROVER_old(g_set_calls) + 1)
__CPROVER_assigns(g_set_info, g_set_pos, g_set_calls);

#ifdef VERIF_MARK_REGION
#include "region_scrub_mark.c"

#define MARK_DISKS 2
void h_mark(void)
{
	static struct snapraid_state st;
	struct snapraid_rehash rh[MARK_DISKS];
	static unsigned char blkmem[MARK_DISKS][sizeof(struct snapraid_block) + HASH_MAX];
	unsigned char oldhash[MARK_DISKS][HASH_MAX];
	unsigned j;
	int k, silent = IN.e != 0, ioerr = IN.r != 0, generic = IN.j != 0, rehash = IN.plan != 0;
	VERIF_INPUTS();
	silent = IN.e != 0; ioerr = IN.r != 0; generic = IN.j != 0; rehash = IN.plan != 0;
	BLOCK_HASH_SIZE = 16;
	for (j = 0; j < MARK_DISKS; ++j) {
		struct snapraid_block *b = (struct snapraid_block *)blkmem[j];
		for (k = 0; k < HASH_MAX; ++k) {
			oldhash[j][k] = b->hash[k] = (unsigned char)(IN.a >> (k & 7)) ^ (unsigned char)(j * 31 + k);
			rh[j].hash[k] = (unsigned char)(IN.b >> (k & 7)) ^ (unsigned char)(j * 17 + k + 1);
		}
		rh[j].block = ((IN.c >> j) & 1) ? b : 0;
	}
	g_set_calls = 0;
#ifdef VERIF_NATIVE
	exit(77);
#endif
	/* block_is_unsynced: a local of the enclosing function the region does not read today; handed in (arbitrary) so that a
	 * change that makes the book-keeping depend on it is decided instead of ending as a compile error */
	region_scrub_mark(&st, silent, ioerr, generic, rehash, rh, MARK_DISKS, IN.i, IN.info, IN.t, IN.block_unsynced0 != 0);
	if (silent || ioerr) {
		VERIF_ASSERT(g_set_calls == 1 && g_set_pos == IN.i && g_set_info == (IN.info | 1u), "scrub marks a stripe bad on a silent or I/O error, keeping its time and other marks");
	} else if (generic) {
		VERIF_ASSERT(g_set_calls == 0, "scrub leaves the books alone on a plain (unsynced-file) error");
	} else {
		VERIF_ASSERT(g_set_calls == 1 && g_set_pos == IN.i && g_set_info == info_make(IN.t, 0, 0, 0), "scrub refreshes the time and clears all marks only for a stripe verified correct");
	}
	for (j = 0; j < MARK_DISKS; ++j) {
		struct snapraid_block *b = (struct snapraid_block *)blkmem[j];
		int stored = !silent && !ioerr && !generic && rehash && rh[j].block != 0;
		for (k = 0; k < HASH_MAX; ++k)
			VERIF_ASSERT(b->hash[k] == (stored ? rh[j].hash[k] : oldhash[j][k]), "scrub stores migrated hashes only for a stripe verified correct");
	}
	VERIF_CANARY();
}
#endif

/*
 * Region: how scrub classifies what it finds on one disk of a stripe (per-disk loop body of state_scrub_process).
 *   a block whose parity is not valid (pending, replaced OR deleted - whether or not it still has a file) or whose file
 *   changed its time-stamp makes the stripe "unsynced": differences there are plain errors, never silent errors and never
 *   a reason to mark the stripe bad; a hash mismatch on a synced file is a silent error; read errors are I/O errors.
 */
#ifdef VERIF_CLASSIFY_REGION
#include "region_scrub_classify.c"

void h_classify(void)
{
	static struct snapraid_state st;
	static struct snapraid_disk disk;
	static struct snapraid_file file;
	static struct snapraid_task task;
	static unsigned char blk1[sizeof(struct snapraid_block) + HASH_MAX];
	struct snapraid_block *b = (struct snapraid_block *)blk1;
	struct snapraid_rehash rh[2];
	void *buffer[2];
	static unsigned char data[8];
	unsigned error = 0, silent_error = 0, io_error = 0;
	int error_on = 0, silent_on = 0, io_on = 0, block_unsynced, file_unsynced, bailed = 0, k, mismatch = 0, invalid, hasfile, updated;
	const unsigned char *cmp;
	VERIF_INPUTS();
	VERIF_ASSUME(IN.hsize >= 2 && IN.hsize <= HASH_MAX);
	VERIF_ASSUME(IN.cstate == BLOCK_STATE_BLK || IN.cstate == BLOCK_STATE_CHG || IN.cstate == BLOCK_STATE_REP || IN.cstate == BLOCK_STATE_DELETED || IN.cstate == BLOCK_STATE_EMPTY);
	VERIF_ASSUME(IN.task_state == TASK_STATE_DONE || IN.task_state == TASK_STATE_ERROR_CONTINUE || IN.task_state == TASK_STATE_IOERROR_CONTINUE);
	VERIF_ASSUME(IN.io_limit >= 2);
	BLOCK_HASH_SIZE = IN.hsize;
	st.hash = HASH_MURMUR3;
	st.prevhash = HASH_SPOOKY2;
	st.opt.io_error_limit = IN.io_limit;
	b->state = IN.cstate;
	for (k = 0; k < HASH_MAX; ++k) {
		b->hash[k] = IN.rec[k];
		G_DIG_CUR[k] = IN.dcur[k];
		G_DIG_PREV[k] = IN.dprev[k];
	}
	task.state = IN.task_state;
	task.is_timestamp_different = IN.ts_diff != 0;
	file.sub = "f";
	buffer[0] = buffer[1] = data;
	block_unsynced = IN.block_unsynced0 != 0;
	file_unsynced = IN.file_unsynced0 != 0;
	cmp = IN.rehash ? IN.dprev : IN.dcur;
	for (k = 0; k < HASH_MAX; ++k)
		if (k < IN.hsize && cmp[k] != IN.rec[k])
			mismatch = 1;
	invalid = IN.cstate == BLOCK_STATE_CHG || IN.cstate == BLOCK_STATE_REP || IN.cstate == BLOCK_STATE_DELETED;
	hasfile = IN.cstate == BLOCK_STATE_BLK || IN.cstate == BLOCK_STATE_CHG || IN.cstate == BLOCK_STATE_REP;
	updated = IN.cstate == BLOCK_STATE_BLK || IN.cstate == BLOCK_STATE_REP;
#ifdef VERIF_NATIVE
	exit(77);
#endif
	region_scrub_classify(&st, IN.cstate == BLOCK_STATE_EMPTY ? BLOCK_NULL : b, &disk, &file, &task, IN.rehash != 0, rh, buffer, 1, 5, 0, 0,
		&block_unsynced, &file_unsynced, &error, &error_on, &silent_error, &silent_on, &io_error, &io_on, &bailed);

	VERIF_ASSERT(block_unsynced == (IN.block_unsynced0 || invalid || (hasfile && IN.ts_diff)), "scrub: a block with invalid parity (file or not) or a changed time-stamp makes the stripe unsynced");
	VERIF_ASSERT(file_unsynced == (IN.file_unsynced0 || invalid || (hasfile && IN.ts_diff)), "scrub: ... and its file unsynced");
	VERIF_ASSERT(!bailed, "scrub: continuation-class states never abort the run below the error limit");
	if (!hasfile) {
		VERIF_ASSERT(!error_on && !silent_on && !io_on, "scrub: a position without file raises nothing");
	} else if (IN.task_state == TASK_STATE_ERROR_CONTINUE) {
		VERIF_ASSERT(error_on && error == 1 && !silent_on && !io_on, "scrub: an unreadable / changed file is a plain error");
	} else if (IN.task_state == TASK_STATE_IOERROR_CONTINUE) {
		VERIF_ASSERT(io_on && io_error == 1 && !silent_on && !error_on, "scrub: a read EIO is an I/O error on this stripe");
	} else if (updated && mismatch) {
		if (file_unsynced)
			VERIF_ASSERT(error_on && error == 1 && !silent_on, "scrub: a difference in an unsynced file is a plain error, never a silent error");
		else
			VERIF_ASSERT(silent_on && silent_error == 1 && !error_on, "scrub: a difference in a synced file is a silent error");
	} else {
		VERIF_ASSERT(!error_on && !silent_on && !io_on, "scrub: matching data (or a block without trusted hash) raises nothing");
	}
	VERIF_CANARY();
}
#endif

/* ---------------------------------------------------------------- limits region */
#include "region_scrub_limits.c"

/*
 * Driver for the region: the time map is an arbitrary SORTED array of up to TM_MAX entries (bounded, labelled).
 */
#ifndef TM_MAX
#define TM_MAX 8
#endif
struct lim_in { time_t tm[TM_MAX]; };
static struct lim_in LIM;

void h_limits(void)
{
	struct snapraid_plan ps;
	block_off_t countlimit, k, n_lt, n_eq, sel;
	struct lim_in tmp;
	VERIF_INPUTS();
	LIM = tmp;
	VERIF_ASSUME(IN.count >= 1 && IN.count <= TM_MAX);
	for (k = 0; k + 1 < TM_MAX; ++k)
		if (k + 1 < IN.count)
			VERIF_ASSUME(LIM.tm[k] <= LIM.tm[k + 1]);
	ps.plan = SCRUB_AUTO;
	ps.timelimit = IN.timelimit;
	ps.lastlimit = IN.lastlimit;
	ps.countlast = 0;
	countlimit = IN.countlimit;
	region_scrub_limits(&ps, &countlimit, IN.count, LIM.tm, IN.recentlimit);

	VERIF_ASSERT(countlimit <= IN.countlimit && countlimit <= IN.count, "limits: never more than the requested share nor than the array");
	for (k = 0; k < TM_MAX; ++k)
		if (k < countlimit)
			VERIF_ASSERT(LIM.tm[k] <= IN.recentlimit, "limits: nothing younger than the age limit is selected");
	if (countlimit < IN.count && countlimit < IN.countlimit)
		VERIF_ASSERT(LIM.tm[countlimit] > IN.recentlimit, "limits: the selection is only cut short by the age limit");
	if (countlimit > 0) {
		VERIF_ASSERT(ps.timelimit == LIM.tm[countlimit - 1], "limits: timelimit is the youngest selected time");
		n_lt = n_eq = 0;
		for (k = 0; k < TM_MAX; ++k)
			if (k < countlimit) {
				n_lt += LIM.tm[k] < ps.timelimit;
				n_eq += LIM.tm[k] == ps.timelimit;
			}
		VERIF_ASSERT(ps.lastlimit == n_eq && n_lt + n_eq == countlimit, "limits: lastlimit is the number of selected stripes with time == timelimit");
		/* together with block_is_enabled's contract: the stripes selected are all those older than timelimit plus
		 * the first lastlimit ones at timelimit, i.e. exactly countlimit stripes, oldest first */
		sel = 0;
		for (k = 0; k < TM_MAX; ++k)
			if (k < IN.count)
				sel += LIM.tm[k] < ps.timelimit;
		VERIF_ASSERT(sel == n_lt, "limits: every stripe older than timelimit is inside the selection");
	} else {
		VERIF_ASSERT(ps.timelimit == 0 && ps.lastlimit == 0, "limits: nothing to scrub disables the limits");
	}
	VERIF_CANARY();
}

#include "verif_tail.h"
