/*
 * 'Q' (and old 'P') parity records of the content file (cmdline/state.c): what sync recorded about each parity level - total
 * and free blocks and, per split file, path, uuid and SIZE (the sizes decide where each stripe lives in a split parity, C17).
 * The writer loop of state_write_thread and the reader branches of state_read_content are extracted mechanically and
 * connected through a TYPED event stream; the reader runs against the same configuration.
 *   - every level in use comes back with its block counts, every split with its uuid and its size (all 64 bits)
 *   - format 2 ('P': level, counts, uuid of the first split) is read back the same way for an unsplit parity (C16)
 * Bounded: 2 levels, 2 splits; one-letter uuids.  pathcpy / lev_config_name by stub.
 */
#include "portable.h"
#include "support.h"
#include "elem.h"
#include "state.h"
#include "stream.h"
#include "verif.h"

#define NLV 2
#define NSP 2
struct verif_in {
	unsigned level, split_mac[NLV];
	block_off_t total[NLV], free_[NLV];
	uint64_t size[NLV * NSP];
	char uuid[NLV * NSP];
	int version2;
};
VERIF_DECLARE_IN

#ifdef VERIF_CBMC
int exit_success = 0, exit_failure = 1, exit_sync_needed = 2;
void log_fatal(const char *format, ...) { (void)format; }
void log_tag(const char *format, ...) { (void)format; }
#endif
static void v_stop(void)
{
	VERIF_ASSERT(0, "the reader accepts what the writer wrote");
#ifdef VERIF_NATIVE
	exit(1);
#else
	__CPROVER_assume(0);
#endif
}
static void v_abort(void) { v_stop(); }
static void v_exit(int code) { (void)code; v_stop(); }

#define NEV 24
static unsigned g_n, g_r;
static unsigned char g_kind[NEV];
static uint64_t g_val[NEV];
static char g_chr[NEV];
static int w_putc(int c, STREAM *s) { (void)s; VERIF_ASSERT(g_n < NEV, "event log"); g_kind[g_n] = 1; g_val[g_n] = (unsigned char)c; ++g_n; return 0; }
static int w_putb32(uint32_t v, STREAM *s) { (void)s; VERIF_ASSERT(g_n < NEV, "event log"); g_kind[g_n] = 2; g_val[g_n] = v; ++g_n; return 0; }
static int w_putb64(uint64_t v, STREAM *s) { (void)s; VERIF_ASSERT(g_n < NEV, "event log"); g_kind[g_n] = 3; g_val[g_n] = v; ++g_n; return 0; }
static int w_putbs(const char *str, STREAM *s) { (void)s; VERIF_ASSERT(g_n < NEV, "event log"); g_kind[g_n] = 4; g_chr[g_n] = str[0]; ++g_n; return 0; }
static int w_error(STREAM *s) { (void)s; return 0; }
static const char *w_errorfile(STREAM *s) { (void)s; return "content"; }
static int r_getb32(STREAM *s, uint32_t *v) { (void)s; VERIF_ASSERT(g_r < g_n && g_kind[g_r] == 2, "the reader takes a 32-bit field where the writer put a 32-bit field"); *v = (uint32_t)g_val[g_r++]; return 0; }
static int r_getb64(STREAM *s, uint64_t *v) { (void)s; VERIF_ASSERT(g_r < g_n && g_kind[g_r] == 3, "the reader takes a 64-bit field where the writer put a 64-bit field"); *v = g_val[g_r++]; return 0; }
static int r_getbs(STREAM *s, char *str, int size)
{
	(void)s;
	VERIF_ASSERT(g_r < g_n && g_kind[g_r] == 4 && size >= 2, "the reader takes a string where the writer put one");
	str[0] = g_chr[g_r++];
	str[1] = 0;
	return 0;
}
static void decoding_error(const char *path, STREAM *f) { (void)path; (void)f; }
static void v_pathcpy(char *dst, size_t size, const char *src) { VERIF_ASSERT(size >= 2, "destination"); dst[0] = src[0]; dst[1] = 0; }
static const char *v_lev(unsigned l) { (void)l; return "p"; }

#define sputc w_putc
#define sputb32 w_putb32
#define sputb64 w_putb64
#define sputbs w_putbs
#define serror w_error
#define serrorfile w_errorfile
#define sgetb32 r_getb32
#define sgetb64 r_getb64
#define sgetbs r_getbs
#define exit v_exit
#define os_abort v_abort
#define pathcpy v_pathcpy
#define lev_config_name v_lev
#include "region_par_write.c"
#include "region_par_read_p.c"
#include "region_par_read_q.c"
#undef sputc
#undef sputb32
#undef sputb64
#undef sputbs
#undef serror
#undef serrorfile
#undef sgetb32
#undef sgetb64
#undef sgetbs
#undef exit
#undef os_abort
#undef pathcpy
#undef lev_config_name

static struct snapraid_state ST1, ST2;

void h_parity_records(void)
{
	unsigned l, s, rounds, any_split = 0;
	int version;
	VERIF_INPUTS();
	/* the geometry is concrete per unit (PR_LEVEL, PR_S0, PR_S1): a symbolic level / split index into the nested arrays of the state does not finish */
	VERIF_ASSUME(IN.level == PR_LEVEL && IN.split_mac[0] == PR_S0 && IN.split_mac[1] == PR_S1);
	IN.level = PR_LEVEL; IN.split_mac[0] = PR_S0; IN.split_mac[1] = PR_S1;
	ST1.level = ST2.level = IN.level;
	for (l = 0; l < NLV; ++l) {
		VERIF_ASSUME(IN.split_mac[l] >= 1 && IN.split_mac[l] <= NSP);
		ST1.parity[l].split_mac = ST2.parity[l].split_mac = IN.split_mac[l];
		ST1.parity[l].total_blocks = IN.total[l];
		ST1.parity[l].free_blocks = IN.free_[l];
		ST2.parity[l].total_blocks = ST2.parity[l].free_blocks = 0x5a5a5a5a;
		if (l < IN.level && IN.split_mac[l] > 1)
			any_split = 1;
		for (s = 0; s < NSP; ++s) {
			VERIF_ASSUME(IN.uuid[l * NSP + s] != 0);
			ST1.parity[l].split_map[s].path[0] = (char)('p' + s); ST1.parity[l].split_map[s].path[1] = 0;
			ST2.parity[l].split_map[s].path[0] = (char)('p' + s); ST2.parity[l].split_map[s].path[1] = 0;
			ST1.parity[l].split_map[s].uuid[0] = IN.uuid[l * NSP + s]; ST1.parity[l].split_map[s].uuid[1] = 0;
			ST1.parity[l].split_map[s].size = IN.size[l * NSP + s];
			ST2.parity[l].split_map[s].uuid[0] = 0;
			ST2.parity[l].split_map[s].size = 0x5a5a5a5a5a5a5a5aull;
		}
	}
	/* the format is chosen by the writer (unit state.header.roundtrip): 2 only when no parity is split */
	VERIF_ASSUME((IN.version2 != 0) == (PR_V2 != 0)); /* concrete per unit, like the geometry */
	version = (PR_V2 && !any_split) ? 2 : 3;
	g_n = g_r = 0;
	VERIF_ASSERT(region_par_write(&ST1, 0, version, (void *)1) == 0, "the parity writer completes");
	for (rounds = 0; rounds < NLV; ++rounds)
		if (g_r < g_n) {
			int c;
			VERIF_ASSERT(g_kind[g_r] == 1, "a record starts with its letter");
			c = (int)g_val[g_r++];
			VERIF_ASSERT(c == (version == 2 ? 'P' : 'Q'), "format 2 writes P records, format 3 Q records");
			if (c == 'P')
				region_par_read_p(&ST2, 0, "content");
			else
				region_par_read_q(&ST2, 0, "content");
		}
	VERIF_ASSERT(g_r == g_n, "the reader consumes exactly what the writer produced");
	VERIF_ASSERT(ST2.level == IN.level, "the number of levels is unchanged");
	for (l = 0; l < NLV; ++l)
		if (l < IN.level) {
			VERIF_ASSERT(ST2.parity[l].total_blocks == IN.total[l] && ST2.parity[l].free_blocks == IN.free_[l], "total and free blocks of a parity level survive a save and reload");
			VERIF_ASSERT(ST2.parity[l].split_mac == IN.split_mac[l], "the number of splits is unchanged");
			for (s = 0; s < NSP; ++s)
				if (s < IN.split_mac[l]) {
					VERIF_ASSERT(ST2.parity[l].split_map[s].uuid[0] == IN.uuid[l * NSP + s], "the uuid of every parity file survives");
					if (version == 3)
						VERIF_ASSERT(ST2.parity[l].split_map[s].size == IN.size[l * NSP + s], "the recorded size of every split of a parity survives, all 64 bits: it decides where each stripe lives");
				}
		}
	VERIF_CANARY();
}

#include "verif_tail.h"
