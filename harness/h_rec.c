/*
 * Recovery (raid/raid.c, raid/int.c, raid/check.c), REAL code.
 *
 * h_recfn      contract of the data decoders raid_rec1_int8 / raid_rec2_int8 / raid_recX_int8 (+ raid_rec1of1,
 *              raid_rec2of2_int8, raid_delta_gen, raid_invert, raid_gen reached through them):
 *                requires  parities ip[] consistent with the ORIGINAL data by the algebraic definition (table-free),
 *                          lost blocks id[] hold arbitrary bytes
 *                ensures   lost blocks == original bytes; every other data block, every parity block (used or
 *                          not), the pointer vector and the zero block are unchanged
 *              geometry (ND, parities, id[], ip[]) concrete, contents symbolic.
 * h_dispatch   contract of raid_rec() / raid_data(): which decoder is called with which (nr, id[], ip[]) and which
 *              parities are regenerated afterwards - for EVERY nd <= 251, np <= 6 and failure list (symbolic),
 *              the decoders being replaced by recording stubs (callee by contract).
 * h_validate   raid_validate(): returns 0 iff the listed failures explain the stripe.
 * h_mds        every 1x1, 2x2 (3x3) minor of the generator matrices is non-singular (symbolic row/column indices).
 * h_sort       raid_sort / raid_insert: sorted permutation.
 * h_comb       combination_first/next enumerate all increasing r-tuples in lexicographic order, exactly once.
 */
#include "internal.h"
#include "combo.h"
#include "verif.h"
#include "gf_spec.h"

#ifndef ND
#define ND 3
#endif
#ifndef NPT
#define NPT 2 /* number of parity blocks present in v[] */
#endif
#ifndef NR
#define NR 1
#endif
#ifndef SIZE
#define SIZE 1
#endif
#ifndef MODE
#define MODE RAID_MODE_CAUCHY
#endif
#ifndef ID_LIST
#define ID_LIST 0
#endif
#ifndef IP_LIST
#define IP_LIST 0
#endif
#ifndef REC_FN
#define REC_FN raid_rec1_int8
#endif
#define GUARD 64 /* keeps every block 64-byte aligned, as raid/memory.c allocates them (the SIMD variants used by a native replay need it) */

struct verif_in {
	uint8_t data[ND][SIZE];      /* original contents */
	uint8_t garbage[6][SIZE];    /* what the lost blocks hold now */
	/* dispatch */
	int nr, nd, np;
	int ir[6];
	/* mds */
	int r0, r1, r2, c0, c1, c2;
	/* sort */
	int n, v[7];
	/* validate */
	uint8_t delta;
	int extra;
};
VERIF_DECLARE_IN

static uint8_t coef(int j, int d)
{
	return MODE == RAID_MODE_CAUCHY ? S_cauchy(j, d) : S_power(j, d);
}

static uint8_t blk[ND + NPT][SIZE + GUARD] __attribute__((aligned(64)));
static uint8_t zero[SIZE + GUARD] __attribute__((aligned(64)));

void h_recfn(void)
{
	static const int id_c[] = { ID_LIST };
	static const int ip_c[] = { IP_LIST };
	int id[RAID_PARITY_MAX], ip[RAID_PARITY_MAX];
	uint8_t par[NPT][SIZE];
	void *v[ND + NPT];
	int d, j, c, k;

	VERIF_INPUTS();
	for (k = 0; k < NR; ++k) {
		id[k] = id_c[k];
		ip[k] = ip_c[k];
	}
	for (j = 0; j < NPT; ++j)
		for (c = 0; c < SIZE; ++c) {
			uint8_t s = 0;
			for (d = 0; d < ND; ++d)
				s ^= S_mul(coef(j, d), IN.data[d][c]);
			par[j][c] = s;
			blk[ND + j][c] = s;
		}
	for (d = 0; d < ND; ++d)
		for (c = 0; c < SIZE; ++c)
			blk[d][c] = IN.data[d][c];
	for (k = 0; k < NR; ++k)
		for (c = 0; c < SIZE; ++c)
			blk[id[k]][c] = IN.garbage[k][c];
	for (d = 0; d < ND + NPT; ++d)
		v[d] = blk[d];

	raid_init();       /* REAL dispatch tables (configuration without inline assembly under cbmc) */
	raid_mode(MODE);
	raid_zero(zero);

	REC_FN(NR, id, ip, ND, SIZE, v);

	for (d = 0; d < ND; ++d)
		for (c = 0; c < SIZE; ++c)
			VERIF_ASSERT(blk[d][c] == IN.data[d][c], "REC every data block holds its original bytes (lost ones recovered, others untouched)");
	for (j = 0; j < NPT; ++j)
		for (c = 0; c < SIZE; ++c)
			VERIF_ASSERT(blk[ND + j][c] == par[j][c], "REC no parity block modified");
	for (d = 0; d < ND + NPT; ++d) {
		VERIF_ASSERT(v[d] == (void *)blk[d], "REC pointer vector restored");
		for (c = SIZE; c < SIZE + GUARD; ++c)
			VERIF_ASSERT(blk[d][c] == 0, "REC nothing written past size");
	}
	for (c = 0; c < SIZE + GUARD; ++c)
		VERIF_ASSERT(zero[c] == 0, "REC zero block untouched");
	for (k = 0; k < NR; ++k)
		VERIF_ASSERT(id[k] == id_c[k] && ip[k] == ip_c[k], "REC index vectors untouched");
	VERIF_CANARY();
}

/*
 * raid_delta_gen: after the call the buffer of lost data block id[k] holds the parity ip[k] of the SURVIVING data
 * (lost blocks counted as zero); no parity block, no surviving data block, not the zero block is modified, and the
 * pointer vector is restored.
 */
void h_delta_gen(void)
{
	static const int id_c[] = { ID_LIST };
	static const int ip_c[] = { IP_LIST };
	int id[RAID_PARITY_MAX], ip[RAID_PARITY_MAX];
	uint8_t par0[NPT][SIZE];
	void *v[ND + NPT];
	int d, j, c, k, lost;

	VERIF_INPUTS();
	for (k = 0; k < NR; ++k) {
		id[k] = id_c[k];
		ip[k] = ip_c[k];
	}
	for (d = 0; d < ND; ++d)
		for (c = 0; c < SIZE; ++c)
			blk[d][c] = IN.data[d][c];
	for (j = 0; j < NPT; ++j)
		for (c = 0; c < SIZE; ++c)
			par0[j][c] = blk[ND + j][c] = IN.garbage[j][c]; /* parity blocks: arbitrary bytes, must survive */
	for (d = 0; d < ND + NPT; ++d)
		v[d] = blk[d];
	raid_init();
	raid_mode(MODE);
	raid_zero(zero);

	raid_delta_gen(NR, id, ip, ND, SIZE, v);

	for (k = 0; k < NR; ++k)
		for (c = 0; c < SIZE; ++c) {
			uint8_t s = 0;
			for (d = 0; d < ND; ++d) {
				lost = 0;
				for (j = 0; j < NR; ++j)
					lost |= id_c[j] == d;
				if (!lost)
					s ^= S_mul(coef(ip_c[k], d), IN.data[d][c]);
			}
			VERIF_ASSERT(blk[id_c[k]][c] == s, "DELTA lost block k holds parity ip[k] of the surviving data");
		}
	for (d = 0; d < ND; ++d) {
		lost = 0;
		for (j = 0; j < NR; ++j)
			lost |= id_c[j] == d;
		if (!lost)
			for (c = 0; c < SIZE; ++c)
				VERIF_ASSERT(blk[d][c] == IN.data[d][c], "DELTA surviving data untouched");
	}
	for (j = 0; j < NPT; ++j)
		for (c = 0; c < SIZE; ++c)
			VERIF_ASSERT(blk[ND + j][c] == par0[j][c], "DELTA no parity block modified (used or unused)");
	for (d = 0; d < ND + NPT; ++d)
		VERIF_ASSERT(v[d] == (void *)blk[d], "DELTA pointer vector restored");
	for (c = 0; c < SIZE + GUARD; ++c)
		VERIF_ASSERT(zero[c] == 0, "DELTA zero block untouched");
	VERIF_CANARY();
}

/*
 * raid_invert: for every n x n matrix (n = INV_N) whose Gauss elimination meets no zero pivot, M * V == I in the
 * table-free field; no BUG_ON fires. (n = 1, 2: the pivot condition is stated as M00 != 0 and det != 0.)
 */
#ifndef INV_N
#define INV_N 2
#endif
void h_invert(void)
{
	uint8_t M[INV_N * INV_N], M0[INV_N * INV_N], V[INV_N * INV_N];
	int i, j, k;
	VERIF_INPUTS();
	for (i = 0; i < INV_N * INV_N; ++i)
		M[i] = M0[i] = IN.garbage[0][i];
	VERIF_ASSUME(M0[0] != 0);
#if INV_N == 2
	VERIF_ASSUME(S_mul(M0[0], M0[3]) != S_mul(M0[1], M0[2]));
#endif
	raid_invert(M, V, INV_N);
	for (i = 0; i < INV_N; ++i)
		for (j = 0; j < INV_N; ++j) {
			uint8_t s = 0;
			for (k = 0; k < INV_N; ++k)
				s ^= S_mul(M0[i * INV_N + k], V[k * INV_N + j]);
			VERIF_ASSERT(s == (i == j), "INVERT M * V == I");
		}
	VERIF_CANARY();
}

/* ------------------------------------------------------------------ raid_rec / raid_data dispatch */
static int g_rec_calls, g_gen_calls, g_order;
static int g_rec_slot, g_rec_nr, g_rec_nd, g_rec_id[6], g_rec_ip[6], g_rec_when;
static size_t g_rec_size;
static void **g_rec_v;
static int g_gen_slot, g_gen_nd, g_gen_when;

#define STUB_REC(k) static void stub_rec##k(int nr, int *id, int *ip, int nd, size_t size, void **vv) \
	{ int x; ++g_rec_calls; g_rec_slot = k; g_rec_nr = nr; g_rec_nd = nd; g_rec_size = size; g_rec_v = vv; g_rec_when = ++g_order; \
	  for (x = 0; x < 6; ++x) if (x < nr) { g_rec_id[x] = id[x]; g_rec_ip[x] = ip[x]; } }
#define STUB_GEN(k) static void stub_gen##k(int nd, size_t size, void **vv) \
	{ (void)size; (void)vv; ++g_gen_calls; g_gen_slot = k; g_gen_nd = nd; g_gen_when = ++g_order; }
STUB_REC(0) STUB_REC(1) STUB_REC(2) STUB_REC(3) STUB_REC(4) STUB_REC(5)
STUB_GEN(0) STUB_GEN(1) STUB_GEN(2) STUB_GEN(3) STUB_GEN(4) STUB_GEN(5)

static void bind_stubs(void)
{
	raid_rec_ptr[0] = stub_rec0; raid_rec_ptr[1] = stub_rec1; raid_rec_ptr[2] = stub_rec2;
	raid_rec_ptr[3] = stub_rec3; raid_rec_ptr[4] = stub_rec4; raid_rec_ptr[5] = stub_rec5;
	raid_gen_ptr[0] = stub_gen0; raid_gen_ptr[1] = stub_gen1; raid_gen_ptr[2] = stub_gen2;
	raid_gen_ptr[3] = stub_gen3; raid_gen_ptr[4] = stub_gen4; raid_gen_ptr[5] = stub_gen5;
}

static int is_failed(int idx)
{
	int k;
	for (k = 0; k < 6; ++k)
		if (k < IN.nr && IN.ir[k] == idx)
			return 1;
	return 0;
}

void h_dispatch(void)
{
	void *v[1];
	int ir[6];
	int k, nrd, nrp, expect;
	VERIF_INPUTS();
	/* requires of raid_rec (its documented contract / BUG_ONs) */
	VERIF_ASSUME(IN.nd >= 1 && IN.nd <= RAID_DATA_MAX && IN.np >= 1 && IN.np <= RAID_PARITY_MAX);
	VERIF_ASSUME(IN.nr >= 0 && IN.nr <= IN.np);
	for (k = 0; k < 6; ++k) {
		ir[k] = IN.ir[k];
		if (k < IN.nr) {
			VERIF_ASSUME(IN.ir[k] >= 0 && IN.ir[k] < IN.nd + IN.np);
			if (k > 0)
				VERIF_ASSUME(IN.ir[k - 1] < IN.ir[k]);
		}
	}
	nrd = 0;
	for (k = 0; k < 6; ++k)
		if (k < IN.nr && IN.ir[k] < IN.nd)
			++nrd;
	nrp = IN.nr - nrd;
	VERIF_ASSUME(nrd <= IN.nd);
	bind_stubs();

	raid_rec(IN.nr, ir, IN.nd, IN.np, 64, v);

	VERIF_ASSERT(g_rec_calls == (nrd != 0), "raid_rec calls a data decoder iff data blocks are lost, once");
	if (nrd != 0) {
		VERIF_ASSERT(g_rec_slot == nrd - 1 && g_rec_nr == nrd && g_rec_nd == IN.nd && g_rec_size == 64 && g_rec_v == v,
			"raid_rec passes (nrd, nd, size, v) to decoder slot nrd-1");
		expect = 0;
		for (k = 0; k < 6; ++k)
			if (k < nrd) {
				VERIF_ASSERT(g_rec_id[k] == IN.ir[k], "raid_rec: id[] are the lost data blocks in order");
				/* ip[k] = k-th smallest parity that is not itself lost */
				while (expect < IN.np && is_failed(IN.nd + expect))
					++expect;
				VERIF_ASSERT(g_rec_ip[k] == expect && expect < IN.np, "raid_rec: ip[] are the first surviving parities in order");
				++expect;
			}
	}
	VERIF_ASSERT(g_gen_calls == (nrp != 0), "raid_rec regenerates parity iff parity blocks are lost, once");
	if (nrp != 0) {
		VERIF_ASSERT(g_gen_nd == IN.nd && g_gen_slot == IN.ir[IN.nr - 1] - IN.nd, "raid_rec regenerates parities 0..last lost one");
		if (nrd != 0)
			VERIF_ASSERT(g_rec_when < g_gen_when, "raid_rec recovers data before regenerating parity");
	}
	for (k = 0; k < 6; ++k)
		VERIF_ASSERT(ir[k] == IN.ir[k], "raid_rec leaves ir[] alone");
	VERIF_CANARY();
}

/* ------------------------------------------------------------------ MDS: small minors of the real tables */
#ifndef MDS_TABLE
#define MDS_TABLE raid_gfcauchy
#define MDS_ROWS 6
#endif
void h_mds2(void)
{
	uint8_t a, b, c, d;
	VERIF_INPUTS();
	VERIF_ASSUME(IN.r0 >= 0 && IN.r0 < IN.r1 && IN.r1 < MDS_ROWS);
	VERIF_ASSUME(IN.c0 >= 0 && IN.c0 < IN.c1 && IN.c1 < 251);
	a = MDS_TABLE[IN.r0][IN.c0];
	b = MDS_TABLE[IN.r0][IN.c1];
	c = MDS_TABLE[IN.r1][IN.c0];
	d = MDS_TABLE[IN.r1][IN.c1];
	VERIF_ASSERT(a != 0 && b != 0 && c != 0 && d != 0, "MDS every coefficient is non-zero (1x1 minors)");
	VERIF_ASSERT(S_mul(a, d) != S_mul(b, c), "MDS every 2x2 minor is non-singular");
	VERIF_CANARY();
}

void h_mds3(void)
{
	uint8_t m[3][3], det;
	int rr[3], cc[3], i, j;
	VERIF_INPUTS();
	VERIF_ASSUME(IN.r0 >= 0 && IN.r0 < IN.r1 && IN.r1 < IN.r2 && IN.r2 < MDS_ROWS);
	VERIF_ASSUME(IN.c0 >= 0 && IN.c0 < IN.c1 && IN.c1 < IN.c2 && IN.c2 < 251);
#ifdef MDS_R0
	VERIF_ASSUME(IN.r0 == MDS_R0 && IN.r1 == MDS_R1 && IN.r2 == MDS_R2);
#endif
	rr[0] = IN.r0; rr[1] = IN.r1; rr[2] = IN.r2;
	cc[0] = IN.c0; cc[1] = IN.c1; cc[2] = IN.c2;
	for (i = 0; i < 3; ++i)
		for (j = 0; j < 3; ++j)
			m[i][j] = MDS_TABLE[rr[i]][cc[j]];
	det = S_mul(m[0][0], S_mul(m[1][1], m[2][2]) ^ S_mul(m[1][2], m[2][1]))
		^ S_mul(m[0][1], S_mul(m[1][0], m[2][2]) ^ S_mul(m[1][2], m[2][0]))
		^ S_mul(m[0][2], S_mul(m[1][0], m[2][1]) ^ S_mul(m[1][1], m[2][0]));
	VERIF_ASSERT(det != 0, "MDS every 3x3 minor is non-singular");
	VERIF_CANARY();
}

/*
 * raid_validate (raid/check.c), final syndrome test - mechanically extracted region: the candidate failure set is
 * accepted iff EVERY spare parity (positions nr..nv-1 of the recomputed syndrome vector) is zero, i.e. one further
 * corrupted block that shows up in ANY spare parity makes the candidate rejected. (The part of raid_validate that
 * computes the syndromes reads the multiplication table through row pointers and is not under an obligation, DESIGN 2.3.)
 */
#ifdef VERIF_SYNDROME_REGION
#include "region_validate_syndrome.c"
void h_syndrome(void)
{
	uint8_t p[RAID_PARITY_MAX];
	int k, r, anynz = 0;
	VERIF_INPUTS();
	VERIF_ASSUME(IN.nr >= 0 && IN.nr < IN.np && IN.np <= RAID_PARITY_MAX);
	for (k = 0; k < RAID_PARITY_MAX; ++k) {
		p[k] = IN.garbage[0][k];
		if (k >= IN.nr && k < IN.np && p[k] != 0)
			anynz = 1;
	}
	r = region_validate_syndrome(p, IN.nr, IN.np);
	VERIF_ASSERT(r == (anynz ? -1 : 0), "raid_validate accepts iff every spare parity syndrome is zero");
	VERIF_CANARY();
}
#endif

/* ------------------------------------------------------------------ helper.c */
void h_sort(void)
{
	int v[6], k, x, cnt_in, cnt_out;
	VERIF_INPUTS();
	VERIF_ASSUME(IN.n >= 0 && IN.n <= 6);
	for (k = 0; k < 6; ++k)
		v[k] = IN.v[k];
	raid_sort(IN.n, v);
	for (k = 0; k < 6; ++k) {
		if (k + 1 < IN.n)
			VERIF_ASSERT(v[k] <= v[k + 1], "raid_sort output is sorted");
		if (k >= IN.n)
			VERIF_ASSERT(v[k] == IN.v[k], "raid_sort leaves the tail alone");
	}
	/* permutation: every value occurs equally often */
	for (x = 0; x < 6; ++x)
		if (x < IN.n) {
			cnt_in = cnt_out = 0;
			for (k = 0; k < 6; ++k)
				if (k < IN.n) {
					cnt_in += IN.v[k] == IN.v[x];
					cnt_out += v[k] == IN.v[x];
				}
			VERIF_ASSERT(cnt_in == cnt_out, "raid_sort output is a permutation of its input");
		}
	VERIF_CANARY();
}

void h_insert(void)
{
	int v[7], k, seen;
	VERIF_INPUTS();
	VERIF_ASSUME(IN.n >= 0 && IN.n <= 6);
	for (k = 0; k < 7; ++k)
		v[k] = IN.v[k];
	for (k = 0; k + 1 < 7; ++k)
		if (k + 1 < IN.n)
			VERIF_ASSUME(IN.v[k] <= IN.v[k + 1]);
	raid_insert(IN.n, v, IN.extra);
	for (k = 0; k < 6; ++k)
		if (k < IN.n)
			VERIF_ASSERT(v[k] <= v[k + 1], "raid_insert keeps the vector sorted");
	/* multiset: old elements plus the new one */
	for (seen = 0; seen < 7; ++seen)
		if (seen <= IN.n) {
			int x = seen < IN.n ? IN.v[seen] : IN.extra, cin = 0, cout = 0;
			for (k = 0; k < 7; ++k) {
				if (k < IN.n)
					cin += IN.v[k] == x;
				if (k <= IN.n)
					cout += v[k] == x;
			}
			VERIF_ASSERT(cout == cin + (x == IN.extra), "raid_insert output is the input plus the new element");
		}
	VERIF_CANARY();
}

#ifndef COMB_R
#define COMB_R 2
#endif
#ifndef COMB_N
#define COMB_N 5
#endif
/* combination_first/next: lexicographic successor, ends exactly after the last tuple (r, n concrete, n <= 8) */
void h_comb(void)
{
	int c[6], prev[6], k, count = 0, more, expected = 1;
	VERIF_INPUTS();
	for (k = 0; k < COMB_R; ++k)
		expected = expected * (COMB_N - k) / (k + 1);
	combination_first(COMB_R, COMB_N, c);
	do {
		++count;
		for (k = 0; k < COMB_R; ++k) {
			VERIF_ASSERT(c[k] >= 0 && c[k] < COMB_N, "combination element in range");
			if (k > 0)
				VERIF_ASSERT(c[k - 1] < c[k], "combination strictly increasing");
		}
		if (count > 1) {
			/* strictly greater than the previous tuple in lexicographic order => no tuple repeats */
			int gt = 0, decided = 0;
			for (k = 0; k < COMB_R; ++k)
				if (!decided && c[k] != prev[k]) {
					gt = c[k] > prev[k];
					decided = 1;
				}
			VERIF_ASSERT(decided && gt, "combination_next yields a lexicographically larger tuple");
		}
		for (k = 0; k < COMB_R; ++k)
			prev[k] = c[k];
		more = combination_next(COMB_R, COMB_N, c);
	} while (more);
	VERIF_ASSERT(count == expected, "combination_first/next enumerate exactly C(n,r) tuples");
	VERIF_CANARY();
}

#include "verif_tail.h"
