/*
 * touch (cmdline/touch.c, the REAL translation unit included below with its system calls routed to recording stubs),
 * property C12: "touch changes only the sub-second part of time-stamps that were zero, plus the content files".
 *   state_touch over one recorded file: the time of the file on disk is set only when BOTH the recorded and the on-disk
 *   nanoseconds are zero; the seconds written are the ones the file has on disk (never changed); the new nanoseconds are in
 *   1..999999999; the record takes the value read back and the state is marked for saving; a file that cannot be opened
 *   or examined is left alone.  (A file whose on-disk nanoseconds are not zero is not the recorded version: giving record and
 *   file the same fresh nanoseconds would hide its modification from the next diff / sync.)
 */
#include "portable.h"
#include "support.h"
#include "elem.h"
#include "state.h"
#include "verif.h"

struct verif_in {
	int rec_nsec;
	int64_t disk_sec;
	int disk_nsec, readback_nsec;
	uint32_t nano[3];
	int open_ret, fstat1_ret, fmtime_ret, fstat2_ret, close_ret;
};
VERIF_DECLARE_IN

#ifdef VERIF_CBMC
int exit_success = 0, exit_failure = 1, exit_sync_needed = 2;
void log_tag(const char *format, ...) { (void)format; }
void log_fatal(const char *format, ...) { (void)format; }
void msg_progress(const char *format, ...) { (void)format; }
void msg_info(const char *format, ...) { (void)format; }
#endif

static unsigned g_rand, g_open, g_fstat, g_fmtime, g_close;
static int64_t g_set_sec;
static int g_set_nsec;
static void t_pathprint(char *dst, size_t size, const char *format, ...) { (void)format; if (size) dst[0] = 0; }
static int t_randomize(void *ptr, size_t size) { VERIF_ASSERT(size == 4, "a 32-bit random value"); *(uint32_t *)ptr = IN.nano[g_rand < 3 ? g_rand : 2]; ++g_rand; return 0; }
static int t_open(const char *path, int flags, ...) { (void)path; ++g_open; VERIF_ASSERT((flags & O_ACCMODE) == O_RDONLY && !(flags & (O_CREAT | O_TRUNC)), "the file is opened read-only"); return IN.open_ret ? -1 : 5; }
static int t_fstat(int fd, struct stat *st)
{
	(void)fd;
	++g_fstat;
	if (g_fstat == 1) { if (IN.fstat1_ret) return -1; st->st_mtime = IN.disk_sec; st->st_mtim.tv_nsec = IN.disk_nsec; return 0; }
	if (IN.fstat2_ret) return -1;
	st->st_mtime = IN.disk_sec; st->st_mtim.tv_nsec = IN.readback_nsec;
	return 0;
}
static int t_fmtime(int fd, int64_t sec, int nsec) { (void)fd; ++g_fmtime; g_set_sec = sec; g_set_nsec = nsec; return IN.fmtime_ret ? -1 : 0; }
static int t_close(int fd) { (void)fd; ++g_close; return IN.close_ret ? -1 : 0; }
static void t_exit(int code) { (void)code; VERIF_ASSERT(0, "touch does not stop"); }
static const char *t_esc(const char *str, char *buffer) { (void)buffer; return str; }
static const char *t_fmt(const struct snapraid_disk *disk, const char *str, char *buffer) { (void)disk; (void)buffer; return str; }

#define pathprint t_pathprint
#define randomize t_randomize
#define open t_open
#define fstat t_fstat
#define fmtime t_fmtime
#define close t_close
#define exit t_exit
#define esc_tag t_esc
#define fmt_term t_fmt
#include "cmdline/touch.c"
#undef pathprint
#undef randomize
#undef open
#undef fstat
#undef fmtime
#undef close
#undef exit
#undef esc_tag
#undef fmt_term

void h_touch(void)
{
	static struct snapraid_state ST;
	static struct snapraid_disk DK;
	static struct snapraid_file FL;
	int expect_touch;
	VERIF_INPUTS();
	VERIF_ASSUME((IN.rec_nsec >= 0 && IN.rec_nsec < 1000000000) || IN.rec_nsec == STAT_NSEC_INVALID);
	VERIF_ASSUME(IN.disk_nsec >= 0 && IN.disk_nsec < 1000000000 && IN.readback_nsec >= 0 && IN.readback_nsec < 1000000000);
	/* the random source delivers a usable value within three draws */
	VERIF_ASSUME(IN.nano[2] % 1000000000 != 0);
	tommy_list_init(&ST.disklist);
	tommy_list_insert_tail(&ST.disklist, &DK.node, &DK);
	tommy_list_init(&DK.filelist);
	tommy_list_insert_tail(&DK.filelist, &FL.nodelist, &FL);
	FL.sub = "f";
	FL.mtime_sec = 77;
	FL.mtime_nsec = IN.rec_nsec;
	ST.need_write = 0;
	g_rand = g_open = g_fstat = g_fmtime = g_close = 0;

	state_touch(&ST);

	expect_touch = IN.rec_nsec == 0 && !IN.open_ret && !IN.fstat1_ret && IN.disk_nsec == 0;
	VERIF_ASSERT(g_fmtime == (expect_touch ? 1u : 0u), "the time of a file is set only when its recorded AND its on-disk nanoseconds are zero");
	if (g_fmtime) {
		VERIF_ASSERT(g_set_sec == IN.disk_sec, "the seconds written are the ones the file has (touch never changes the seconds)");
		VERIF_ASSERT(g_set_nsec >= 1 && g_set_nsec < 1000000000, "the new nanoseconds are a valid non-zero value");
	}
	if (expect_touch && !IN.fmtime_ret && !IN.fstat2_ret && !IN.close_ret)
		VERIF_ASSERT(FL.mtime_nsec == IN.readback_nsec && ST.need_write == 1 && FL.mtime_sec == 77, "the record takes the nanoseconds read back from the file, the state is marked for saving, the recorded seconds are not touched");
	else
		VERIF_ASSERT(FL.mtime_nsec == IN.rec_nsec && FL.mtime_sec == 77, "otherwise the record is left alone");
	if (IN.rec_nsec != 0)
		VERIF_ASSERT(g_open == 0, "a file with recorded nanoseconds is not even opened");
	VERIF_CANARY();
}

#include "verif_tail.h"
