/*
 * The four steps of scan that change the set of recorded links and empty directories (cmdline/scan.c, the REAL translation
 * unit included below; containers and deallocation routed to recording stubs): scan_link_insert / scan_link_remove /
 * scan_emptydir_insert / scan_emptydir_remove.  Property C11: "a sync that ends successfully captures every change" - a change
 * of the recorded set must mark the state for saving (sync writes the content file only when something asks for it), and the
 * element must enter / leave BOTH containers of its disk (the index used to match scanned entries and the list that is saved).
 */
#include "portable.h"
#include "support.h"
#include "elem.h"
#include "state.h"
#include "verif.h"

struct verif_in {
	int which, need_write_before;
};
VERIF_DECLARE_IN

#ifdef VERIF_CBMC
int exit_success = 0, exit_failure = 1, exit_sync_needed = 2;
void log_tag(const char *format, ...) { (void)format; }
void log_fatal(const char *format, ...) { (void)format; }
void msg_info(const char *format, ...) { (void)format; }
void msg_progress(const char *format, ...) { (void)format; }
void msg_verbose(const char *format, ...) { (void)format; }
#endif

static unsigned g_hins, g_hrem, g_lfree, g_dfree;
static void *g_set, *g_obj, *g_node, *g_freed;
static void h_insert(tommy_hashdyn *set, tommy_hashdyn_node *node, void *data, tommy_hash_t hash) { (void)hash; ++g_hins; g_set = set; g_node = node; g_obj = data; }
static void *h_remove_existing(tommy_hashdyn *set, tommy_hashdyn_node *node) { ++g_hrem; g_set = set; g_node = node; return 0; }
static void h_link_free(struct snapraid_link *l) { ++g_lfree; g_freed = l; }
static void h_dir_free(struct snapraid_dir *d) { ++g_dfree; g_freed = d; }
static tommy_hash_t h_name_hash(const char *sub) { (void)sub; return 3; }

#define tommy_hashdyn_insert h_insert
#define tommy_hashdyn_remove_existing h_remove_existing
#define link_free h_link_free
#define dir_free h_dir_free
#define link_name_hash h_name_hash
#define dir_name_hash h_name_hash
#include "cmdline/scan.c"
#undef tommy_hashdyn_insert
#undef tommy_hashdyn_remove_existing
#undef link_free
#undef dir_free
#undef link_name_hash
#undef dir_name_hash

void h_scan_set_changes(void)
{
	static struct snapraid_scan SC;
	static struct snapraid_disk DK;
	static struct snapraid_link L, L0;
	static struct snapraid_dir R, R0;
	static char SUB[] = "a";
	unsigned n;
	tommy_node *node;
	int in_list = 0;
	VERIF_INPUTS();
	VERIF_ASSUME(IN.which >= 0 && IN.which <= 3);
	SC.disk = &DK;
	SC.need_write = IN.need_write_before != 0;
	L.sub = L0.sub = SUB; R.sub = R0.sub = SUB;
	tommy_list_init(&DK.linklist); tommy_list_init(&DK.dirlist);
	/* another element is always there, the one removed is present before a removal */
	tommy_list_insert_tail(&DK.linklist, &L0.nodelist, &L0);
	tommy_list_insert_tail(&DK.dirlist, &R0.nodelist, &R0);
	if (IN.which == 1)
		tommy_list_insert_tail(&DK.linklist, &L.nodelist, &L);
	if (IN.which == 3)
		tommy_list_insert_tail(&DK.dirlist, &R.nodelist, &R);
	g_hins = g_hrem = g_lfree = g_dfree = 0;
	switch (IN.which) {
	case 0 : scan_link_insert(&SC, &L); break;
	case 1 : scan_link_remove(&SC, &L); break;
	case 2 : scan_emptydir_insert(&SC, &R); break;
	default : scan_emptydir_remove(&SC, &R); break;
	}
	VERIF_ASSERT(SC.need_write == 1, "a change of the recorded links / empty directories marks the state for saving: otherwise a sync with nothing else to do leaves the content file stale");
	n = 0;
	for (node = tommy_list_head(IN.which < 2 ? &DK.linklist : &DK.dirlist); node != 0 && n < 3; node = node->next) {
		if (node->data == (IN.which < 2 ? (void *)&L : (void *)&R))
			in_list = 1;
		++n;
	}
	if (IN.which == 0 || IN.which == 2) {
		VERIF_ASSERT(in_list && n == 2, "an inserted element is appended to the list of its disk");
		VERIF_ASSERT(g_hins == 1 && g_hrem == 0 && g_obj == (IN.which == 0 ? (void *)&L : (void *)&R) && g_set == (IN.which == 0 ? (void *)&DK.linkset : (void *)&DK.dirset), "and enters the index of its kind");
		VERIF_ASSERT(g_lfree == 0 && g_dfree == 0, "nothing is released");
	} else {
		VERIF_ASSERT(!in_list && n == 1, "a removed element leaves the list of its disk, the others stay");
		VERIF_ASSERT(g_hrem == 1 && g_hins == 0 && g_set == (IN.which == 1 ? (void *)&DK.linkset : (void *)&DK.dirset) && g_node == (IN.which == 1 ? (void *)&L.nodeset : (void *)&R.nodeset), "and the index of its kind");
		VERIF_ASSERT(g_lfree + g_dfree == 1 && g_freed == (IN.which == 1 ? (void *)&L : (void *)&R), "and is released once");
	}
	VERIF_CANARY();
}

#include "verif_tail.h"
