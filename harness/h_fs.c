/*
 * Block map of a disk: fs_deallocate / fs_allocate (cmdline/elem.c, REAL code included below) against the extent
 * they find - the tommy_tree lookups/inserts/removals and the two extent finders are replaced by recording contracts
 * (goto-instrument --dfcc), extent_alloc is real.
 *   fs_deallocate(p): the extent [pp, pp+n) -> file positions [fp, fp+n) containing p is replaced by extents that map
 *                     exactly the positions q != p of the old one, each to the SAME file position fp + (q - pp)
 *                     (removed, shrunk at either end, or split in two); no extent is ever empty.
 *   fs_allocate(p, file, fpos): either extends the extent that ends exactly at (p, fpos) for that file, or creates the
 *                     one-block extent (p -> file, fpos); an existing mapping is never changed.
 */
#include "portable.h"
#include "support.h"
#include "elem.h"
#include "state.h"
#include "verif.h"

struct verif_in {
	block_off_t pp, fp, n, p;   /* the extent found, and the position */
	block_off_t fpos;           /* fs_allocate */
	int have_prev;              /* fs_allocate: an extent exists for file_pos - 1 */
	block_off_t blockmax;
};
VERIF_DECLARE_IN

static struct snapraid_extent E;          /* the extent the finders return */
static struct snapraid_file F;
static struct snapraid_extent *g_inserted[2], *g_removed[2];
static unsigned g_ins_calls, g_rem_calls;
static block_off_t g_find_arg;
#ifndef HAVE_PREV
#define HAVE_PREV 1 /* concrete per obligation: does an extent exist for file_pos - 1 (a symbolic pointer result makes cbmc's byte-update encoding explode) */
#endif

static struct snapraid_extent *fs_par2extent_get_unlock(struct snapraid_disk *disk, struct snapraid_extent **fs_last, block_off_t parity_pos)
__CPROVER_ensures(__CPROVER_return_value == &E && g_find_arg == parity_pos)
__CPROVER_assigns(g_find_arg);

static struct snapraid_extent *fs_file2extent_get_unlock(struct snapraid_disk *disk, struct snapraid_extent **fs_last, struct snapraid_file *file, block_off_t file_pos)
#if HAVE_PREV
__CPROVER_ensures(__CPROVER_return_value == &E && g_find_arg == file_pos)
#else
__CPROVER_ensures(__CPROVER_return_value == (struct snapraid_extent *)0 && g_find_arg == file_pos)
#endif
__CPROVER_assigns(g_find_arg);

void *tommy_tree_insert(tommy_tree *tree, tommy_tree_node *node, void *data)
__CPROVER_requires(g_ins_calls < 2)
__CPROVER_ensures(__CPROVER_return_value == data && g_inserted[__CPROVER_old(g_ins_calls)] == data && g_ins_calls == __CPROVER_old(g_ins_calls) + 1)
__CPROVER_assigns(g_ins_calls, g_inserted[g_ins_calls]);

void *tommy_tree_remove(tommy_tree *tree, void *data)
__CPROVER_requires(g_rem_calls < 2)
__CPROVER_ensures(__CPROVER_return_value == data && g_removed[__CPROVER_old(g_rem_calls)] == data && g_rem_calls == __CPROVER_old(g_rem_calls) + 1)
__CPROVER_assigns(g_rem_calls, g_removed[g_rem_calls]);

#ifdef VERIF_CBMC
static void *g_alloc;
static unsigned g_alloc_calls;
void *malloc_nofail(size_t size) { void *q = malloc(size); __CPROVER_assume(q != 0); g_alloc = q; ++g_alloc_calls; return q; }
void log_fatal(const char *format, ...) { (void)format; }
void os_abort(void) { __CPROVER_assume(0); }
void free(void *ptr) { (void)ptr; } /* extent_free: the object stays readable for the checks below */
#endif

#include "cmdline/elem.c"

/* does the set of extents {a, b} (either may be absent) map position q, and to which file position? */
static int maps(const struct snapraid_extent *x, block_off_t q, block_off_t *out)
{
	if (x && x->count != 0 && q >= x->parity_pos && q - x->parity_pos < x->count) {
		*out = x->file_pos + (q - x->parity_pos);
		return 1;
	}
	return 0;
}

void h_fs_deallocate(void)
{
	static struct snapraid_disk disk;
	struct snapraid_extent *a, *b;
	block_off_t q, o1 = 0, o2 = 0;
	int removed;
	VERIF_INPUTS();
	VERIF_ASSUME(IN.n >= 1 && IN.n <= 0x7fffffff && IN.pp <= 0x7fffffff && IN.fp <= 0x7fffffff);
	VERIF_ASSUME(IN.p >= IN.pp && IN.p - IN.pp < IN.n);
	F.blockmax = 0xffffffffu;
	F.sub = "f";
	E.file = &F;
	E.parity_pos = IN.pp;
	E.file_pos = IN.fp;
	E.count = IN.n;
	disk.fs_mutex_enabled = 0;
	g_ins_calls = g_rem_calls = g_alloc_calls = 0;
	g_alloc = 0;
	g_inserted[0] = g_inserted[1] = g_removed[0] = g_removed[1] = 0;
#ifdef VERIF_NATIVE
	exit(77);
#endif
	fs_deallocate(&disk, IN.p);

	VERIF_ASSERT(g_find_arg == IN.p, "fs_deallocate looks up the extent of the position it was given");
	removed = g_rem_calls != 0;
	if (removed)
		VERIF_ASSERT(g_rem_calls == 2 && g_removed[0] == &E && g_removed[1] == &E && IN.n == 1, "an extent is dropped (from both trees) only when it held just this block");
	a = removed ? 0 : &E;
	b = 0;
	if (g_ins_calls != 0) {
		VERIF_ASSERT(g_ins_calls == 2 && g_inserted[0] == g_inserted[1] && g_inserted[0] != &E, "a split inserts ONE new extent into both trees");
		/* the object is read through the pointer malloc returned: a pointer that travelled through `void *data` is shown
		 * by cbmc as "address of the first member" and dereferencing other members through it hits the defect of DESIGN 2.3 */
		b = (struct snapraid_extent *)g_alloc;
		VERIF_ASSERT(g_alloc_calls == 1 && g_inserted[0] == (void *)b, "the extent inserted is the one just allocated");
		VERIF_ASSERT(b->file == &F && b->count >= 1, "the new extent belongs to the same file and is not empty");
	}
	if (a)
		VERIF_ASSERT(a->count >= 1 && a->file == &F, "a surviving extent is never empty");
	/* the mapping: a symbolic probe position inside the old extent */
	q = IN.fpos; /* reuse a free symbolic 32-bit input as the probe */
	if (q >= IN.pp && q - IN.pp < IN.n) {
		int m1 = maps(a, q, &o1), m2 = maps(b, q, &o2);
		if (q == IN.p) {
			VERIF_ASSERT(!m1 && !m2, "the released position is mapped by no extent afterwards");
		} else {
			VERIF_ASSERT(m1 + m2 == 1, "every other position of the old extent is still mapped, by exactly one extent");
			VERIF_ASSERT((m1 ? o1 : o2) == IN.fp + (q - IN.pp), "and to the same block of the file as before");
		}
	} else {
		VERIF_ASSERT(!maps(a, q, &o1) && !maps(b, q, &o2), "no position outside the old extent becomes mapped");
	}
	VERIF_CANARY();
}

void h_fs_allocate(void)
{
	static struct snapraid_disk disk;
	struct snapraid_extent *nw;
	int extends;
	VERIF_INPUTS();
	VERIF_ASSUME(IN.n >= 1 && IN.n <= 0x7fffffff && IN.pp <= 0x7fffffff && IN.fp <= 0x7fffffff);
	VERIF_ASSUME(IN.fpos < 0xffffffffu);
	F.blockmax = 0xffffffffu;
	F.sub = "f";
	E.file = &F;
	E.parity_pos = IN.pp;
	E.file_pos = IN.fp;
	E.count = IN.n;
	/* the extent finder answers for file_pos - 1: when it answers, that position lies inside E */
	if (IN.have_prev)
		VERIF_ASSUME(IN.fpos >= 1 && IN.fpos - 1 >= IN.fp && IN.fpos - 1 - IN.fp < IN.n);
	disk.fs_mutex_enabled = 0;
	VERIF_ASSUME((IN.have_prev != 0) == HAVE_PREV);
	g_ins_calls = g_rem_calls = g_alloc_calls = 0;
	g_alloc = 0;
	g_inserted[0] = g_inserted[1] = 0;
#ifdef VERIF_NATIVE
	exit(77);
#endif
	fs_allocate(&disk, IN.p, &F, IN.fpos);

	extends = IN.fpos > 0 && IN.have_prev && IN.p == IN.pp + IN.n;
	if (extends) {
		VERIF_ASSERT(g_ins_calls == 0 && E.count == IN.n + 1 && E.parity_pos == IN.pp && E.file_pos == IN.fp, "a block contiguous in parity AND in the file extends the extent by exactly one");
		VERIF_ASSERT(IN.fpos == IN.fp + IN.n, "an extent is only ever extended at its end (else the process stops)");
	} else {
		VERIF_ASSERT(E.count == IN.n && E.parity_pos == IN.pp && E.file_pos == IN.fp, "otherwise the existing extent is left alone");
		VERIF_ASSERT(g_ins_calls == 2 && g_inserted[0] == g_inserted[1], "and ONE new extent enters both trees");
		nw = (struct snapraid_extent *)g_alloc;
		VERIF_ASSERT(g_alloc_calls == 1 && g_inserted[0] == (void *)nw, "the extent inserted is the one just allocated");
		VERIF_ASSERT(nw->file == &F && nw->parity_pos == IN.p && nw->file_pos == IN.fpos && nw->count == 1, "the new extent maps exactly (position -> file, file position)");
		VERIF_ASSERT(disk.fs_last == nw, "the cache of the last extent points at it");
	}
	VERIF_ASSERT(g_rem_calls == 0, "fs_allocate never removes anything");
	VERIF_CANARY();
}

#include "verif_tail.h"
