/*
 * Contracts of the GF(2^8) bit tricks in raid/gf.h (REAL header, included below), enforced with
 * goto-instrument --dfcc --enforce-contract, for all 2^32 / 2^64 arguments:
 *   every byte lane of x2(v) is 2 (x) lane(v);   2 (x) every byte lane of d2(v) is lane(v);   nothing is assigned.
 */
#include "internal.h"
#include "verif.h"
#include "gf_spec.h"

static inline uint64_t spec_x2_lanes(uint64_t v, int lanes)
{
	uint64_t r = 0;
	int k;
	for (k = 0; k < 8; ++k)
		if (k < lanes)
			r |= (uint64_t)S_x2((uint8_t)(v >> (8 * k))) << (8 * k);
	return r;
}

static __always_inline uint32_t x2_32(uint32_t v)
__CPROVER_ensures(__CPROVER_return_value == (uint32_t)spec_x2_lanes(v, 4))
__CPROVER_assigns();

static __always_inline uint64_t x2_64(uint64_t v)
__CPROVER_ensures(__CPROVER_return_value == spec_x2_lanes(v, 8))
__CPROVER_assigns();

static __always_inline uint32_t d2_32(uint32_t v)
__CPROVER_ensures((uint32_t)spec_x2_lanes(__CPROVER_return_value, 4) == v)
__CPROVER_assigns();

static __always_inline uint64_t d2_64(uint64_t v)
__CPROVER_ensures(spec_x2_lanes(__CPROVER_return_value, 8) == v)
__CPROVER_assigns();

#include "gf.h"

struct verif_in {
	uint32_t a32;
	uint64_t a64;
};
VERIF_DECLARE_IN

void h_x2_32(void)
{
	uint32_t r;
	VERIF_INPUTS();
	r = x2_32(IN.a32);
	VERIF_ASSERT(r == (uint32_t)spec_x2_lanes(IN.a32, 4), "x2_32 multiplies every byte lane by 2");
	VERIF_CANARY();
}

void h_x2_64(void)
{
	uint64_t r;
	VERIF_INPUTS();
	r = x2_64(IN.a64);
	VERIF_ASSERT(r == spec_x2_lanes(IN.a64, 8), "x2_64 multiplies every byte lane by 2");
	VERIF_CANARY();
}

void h_d2_32(void)
{
	uint32_t r;
	VERIF_INPUTS();
	r = d2_32(IN.a32);
	VERIF_ASSERT((uint32_t)spec_x2_lanes(r, 4) == IN.a32, "d2_32 divides every byte lane by 2");
	VERIF_CANARY();
}

void h_d2_64(void)
{
	uint64_t r;
	VERIF_INPUTS();
	r = d2_64(IN.a64);
	VERIF_ASSERT(spec_x2_lanes(r, 8) == IN.a64, "d2_64 divides every byte lane by 2");
	VERIF_CANARY();
}

#include "verif_tail.h"
