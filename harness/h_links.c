/*
 * Links at the end of check / fix (cmdline/check.c, state_check_process: region "for each link in the disk" up to "for each
 * dir in the disk", extracted mechanically; stat / readlink / mkancestor / remove / hardlink / symlink are recording stubs):
 *   - a link excluded by the filters is not even looked at
 *   - without the fix flag nothing is created or removed (check is read-only)
 *   - fix: a symbolic link that is missing, unreadable or points elsewhere is removed and re-created with the RECORDED
 *     target; one that is right is left alone
 *   - fix: a hard link whose target does not exist is unrecoverable (nothing is created); one that is missing or does not
 *     share the inode of its target is removed and re-created as a hard link to the recorded target
 * Bounded: at most 2 links on the disk.
 */
#include "portable.h"
#include "support.h"
#include "elem.h"
#include "state.h"
#include "parity.h"
#include "handle.h"
#include "verif.h"

#define NL 2

struct verif_in {
	int fix, nlinks;
	unsigned lflag[NL];                 /* FILE_IS_EXCLUDED, FILE_IS_HARDLINK / FILE_IS_SYMLINK */
	int stat_ret[NL], stat_reg[NL], statto_ret[NL], statto_enoent[NL], statto_reg[NL], same_inode[NL];
	int readlink_ret[NL], target_same[NL];
	int mk_ret, rm_ret, rm_enoent, create_ret;
	unsigned e0, u0, r0;
};
VERIF_DECLARE_IN

#ifdef VERIF_CBMC
void log_tag(const char *format, ...) { (void)format; }
void log_fatal(const char *format, ...) { (void)format; }
void log_error(const char *format, ...) { (void)format; }
void msg_info(const char *format, ...) { (void)format; }
void os_abort(void) { __CPROVER_assume(0); }
void *malloc_nofail(size_t size) { void *q = malloc(size); __CPROVER_assume(q != 0); return q; }
#endif

#include "cmdline/check.c"

static struct snapraid_disk DK;
static struct snapraid_link L0, L1;
static struct snapraid_link *const LNK[NL] = { &L0, &L1 };
static char SUBS[NL][4] = { "l0", "l1" };
static char TGT[NL][4] = { "t0", "t1" };
static char OTHER[4] = "zz";
static int g_cur = -1;                /* the link being processed: advanced by the first pathprint of each iteration */
static unsigned g_stat_calls;
static unsigned g_mk[NL], g_rm[NL], g_sym[NL], g_hard[NL];
static const char *g_sym_target[NL];
static unsigned g_order, g_rm_when[NL], g_create_when[NL];

static void l_pathprint(char *dst, size_t size, const char *format, ...)
{
	(void)format;
	/* path of the link, then (hard links) path of its target */
	if (size)
		dst[0] = 0;
}
static int which_link(void) { return g_cur; }
static int l_stat(const char *path, struct stat *st)
{
	int k = which_link();
	(void)path;
	++g_stat_calls;
	if ((g_stat_calls & 1) == 1) { /* the link itself */
		if (IN.stat_ret[k]) { errno = ENOENT; return -1; }
		st->st_mode = IN.stat_reg[k] ? S_IFREG : S_IFDIR;
		st->st_ino = 100;
		return 0;
	}
	if (IN.statto_ret[k]) { errno = IN.statto_enoent[k] ? ENOENT : EACCES; return -1; }
	st->st_mode = IN.statto_reg[k] ? S_IFREG : S_IFDIR;
	st->st_ino = IN.same_inode[k] ? 100 : 200;
	return 0;
}
static ssize_t l_readlink(const char *path, char *buf, size_t size)
{
	int k = which_link(), n;
	(void)path;
	if (IN.readlink_ret[k] < 0) { errno = ENOENT; return -1; }
	if (size < 4)
		return -1;
	for (n = 0; n < 2; ++n)
		buf[n] = IN.target_same[k] ? TGT[k][n] : OTHER[n];
	return 2;
}
static int l_mkancestor(const char *path) { (void)path; ++g_mk[which_link()]; return IN.mk_ret ? -1 : 0; }
static int l_remove(const char *path) { int k = which_link(); (void)path; ++g_rm[k]; g_rm_when[k] = ++g_order; if (IN.rm_ret) { errno = IN.rm_enoent ? ENOENT : EACCES; return -1; } return 0; }
static int l_symlink(const char *target, const char *path) { int k = which_link(); (void)path; ++g_sym[k]; g_sym_target[k] = target; g_create_when[k] = ++g_order; return IN.create_ret ? -1 : 0; }
static int l_hardlink(const char *target, const char *path) { int k = which_link(); (void)target; (void)path; ++g_hard[k]; g_create_when[k] = ++g_order; return IN.create_ret ? -1 : 0; }
static const char *l_esc(const char *str, char *buffer) { (void)buffer; return str; }
static const char *l_fmt(const struct snapraid_disk *disk, const char *str, char *buffer) { (void)disk; (void)buffer; return str; }
/* the region reads `slink = node->data` at the top of each iteration: the stub below is called through link_flag_has on it */
static int l_flag_has(const struct snapraid_link *slink, unsigned mask)
{
	int k;
	for (k = 0; k < NL; ++k)
		if (slink == LNK[k])
			g_cur = k;
	return (slink->flag & mask) == mask;
}

#define pathprint l_pathprint
#define stat(p, s) l_stat(p, s)
#define readlink l_readlink
#define mkancestor l_mkancestor
#define remove l_remove
#define symlink l_symlink
#define hardlink l_hardlink
#define esc_tag l_esc
#define fmt_term l_fmt
#define link_flag_has l_flag_has
#include "region_check_links.c"
#undef pathprint
#undef stat
#undef readlink
#undef mkancestor
#undef remove
#undef symlink
#undef hardlink
#undef esc_tag
#undef fmt_term
#undef link_flag_has

void h_check_links(void)
{
	static struct snapraid_state ST;
	static struct snapraid_handle H[1];
	unsigned error, unrec, recov;
	int bailed = 0, k, stopped = 0;
	VERIF_INPUTS();
	VERIF_ASSUME(IN.nlinks >= 1 && IN.nlinks <= NL);
	VERIF_ASSUME(IN.e0 < 100000 && IN.u0 < 100000 && IN.r0 < 100000);
	H[0].disk = &DK;
	tommy_list_init(&DK.linklist);
	for (k = 0; k < NL; ++k) {
		VERIF_ASSUME(IN.readlink_ret[k] == 0 || IN.readlink_ret[k] == -1);
		LNK[k]->sub = SUBS[k];
		LNK[k]->linkto = TGT[k];
		LNK[k]->flag = (IN.lflag[k] & FILE_IS_EXCLUDED) | ((IN.lflag[k] & 1) ? FILE_IS_HARDLINK : FILE_IS_SYMLINK);
		g_mk[k] = g_rm[k] = g_sym[k] = g_hard[k] = 0;
		if (k < IN.nlinks)
			tommy_list_insert_tail(&DK.linklist, &LNK[k]->nodelist, LNK[k]);
	}
	g_stat_calls = 0; g_order = 0; g_cur = -1;
	error = IN.e0; unrec = IN.u0; recov = IN.r0;

	region_check_links(&ST, IN.fix, H, 0, &error, &unrec, &recov, &bailed);

	for (k = 0; k < NL; ++k) {
		int hard = (LNK[k]->flag & FILE_IS_HARDLINK) != 0;
		int excluded = (LNK[k]->flag & FILE_IS_EXCLUDED) != 0;
		int wrong, unrecoverable = 0, created = g_sym[k] + g_hard[k];
		if (k >= IN.nlinks || excluded || stopped) {
			VERIF_ASSERT(g_mk[k] == 0 && g_rm[k] == 0 && created == 0, "a link excluded by the filters (or after the command stopped) is not touched");
			continue;
		}
		if (!IN.fix) {
			VERIF_ASSERT(g_mk[k] == 0 && g_rm[k] == 0 && created == 0, "without the fix flag no link is removed or created");
			continue;
		}
		if (hard) {
			wrong = IN.stat_ret[k] || !IN.stat_reg[k] || IN.statto_ret[k] || !IN.statto_reg[k] || !IN.same_inode[k];
			unrecoverable = IN.statto_ret[k] && IN.statto_enoent[k];
		} else {
			wrong = IN.readlink_ret[k] < 0 || !IN.target_same[k];
		}
		if (!wrong || unrecoverable) {
			VERIF_ASSERT(g_rm[k] == 0 && created == 0, "a correct link is left alone; a hard link whose target does not exist cannot be re-created");
		} else if (IN.mk_ret) {
			VERIF_ASSERT(g_rm[k] == 0 && created == 0, "nothing is done below a directory that cannot be created");
			stopped = 1;
		} else if (IN.rm_ret && !IN.rm_enoent) {
			VERIF_ASSERT(created == 0, "a link that cannot be removed is not re-created");
			stopped = 1;
		} else {
			VERIF_ASSERT(g_rm[k] == 1 && created == 1 && g_rm_when[k] < g_create_when[k], "a wrong link is removed, then re-created");
			if (hard)
				VERIF_ASSERT(g_hard[k] == 1 && g_sym[k] == 0, "a hard link is re-created as a hard link");
			else
				VERIF_ASSERT(g_sym[k] == 1 && g_hard[k] == 0 && g_sym_target[k] == TGT[k], "a symbolic link is re-created with the recorded target");
			if (IN.create_ret)
				stopped = 1;
		}
	}
	VERIF_ASSERT(bailed == stopped, "only a failing operation stops the command");
	VERIF_CANARY();
}

#include "verif_tail.h"
