/*
 * Links at the end of check / fix (cmdline/check.c, state_check_process: region "for each link in the disk" up to "for each
 * dir in the disk", extracted mechanically; stat / readlink / mkancestor / remove / hardlink / symlink are recording stubs):
 *   - a link excluded by the filters is not even looked at
 *   - without the fix flag nothing is created or removed (check is read-only)
 *   - fix: a symbolic link that is missing, unreadable or points elsewhere is removed and re-created with the RECORDED
 *     target; one that is right is left alone
 *   - fix: a hard link whose target does not exist is unrecoverable (nothing is created); one that is missing or does not
 *     share the inode of its target is removed and re-created as a hard link to the recorded target
 * Bounded: at most 2 links on the disk.
 */
#include "portable.h"
#include "support.h"
#include "elem.h"
#include "state.h"
#include "parity.h"
#include "handle.h"
#include "verif.h"

#define NL 2

struct verif_in {
	int fix, nlinks;
	unsigned lflag[NL];                 /* FILE_IS_EXCLUDED, FILE_IS_HARDLINK / FILE_IS_SYMLINK */
	int stat_ret[NL], stat_reg[NL], statto_ret[NL], statto_enoent[NL], statto_reg[NL], same_inode[NL];
	int readlink_ret[NL], target_same[NL];
	int mk_ret, rm_ret, rm_enoent, create_ret;
	unsigned e0, u0, r0;
	/* empty files / dirs */
	int nelem;
	int64_t esize[NL]; unsigned eflag[NL];
	int e_stat_ret[NL], e_kind_ok[NL], e_size0[NL];
	int e_open_ret, e_fmtime_ret, e_close_ret, e_mkdir_ret;
};
VERIF_DECLARE_IN

#ifdef VERIF_CBMC
void log_tag(const char *format, ...) { (void)format; }
void log_fatal(const char *format, ...) { (void)format; }
void log_error(const char *format, ...) { (void)format; }
void msg_info(const char *format, ...) { (void)format; }
void os_abort(void) { __CPROVER_assume(0); }
void *malloc_nofail(size_t size) { void *q = malloc(size); __CPROVER_assume(q != 0); return q; }
#endif

#include "cmdline/check.c"

static struct snapraid_disk DK;
static struct snapraid_link L0, L1;
static struct snapraid_link *const LNK[NL] = { &L0, &L1 };
static char SUBS[NL][4] = { "l0", "l1" };
static char TGT[NL][4] = { "t0", "t1" };
static char OTHER[4] = "zz";
static int g_cur = -1;                /* the link being processed: advanced by the first pathprint of each iteration */
static unsigned g_stat_calls;
static unsigned g_mk[NL], g_rm[NL], g_sym[NL], g_hard[NL];
static const char *g_sym_target[NL];
static unsigned g_order, g_rm_when[NL], g_create_when[NL];

static void l_pathprint(char *dst, size_t size, const char *format, ...)
{
	(void)format;
	/* path of the link, then (hard links) path of its target */
	if (size)
		dst[0] = 0;
}
static int which_link(void) { return g_cur; }
static int l_stat(const char *path, struct stat *st)
{
	int k = which_link();
	(void)path;
	++g_stat_calls;
	if ((g_stat_calls & 1) == 1) { /* the link itself */
		if (IN.stat_ret[k]) { errno = ENOENT; return -1; }
		st->st_mode = IN.stat_reg[k] ? S_IFREG : S_IFDIR;
		st->st_ino = 100;
		return 0;
	}
	if (IN.statto_ret[k]) { errno = IN.statto_enoent[k] ? ENOENT : EACCES; return -1; }
	st->st_mode = IN.statto_reg[k] ? S_IFREG : S_IFDIR;
	st->st_ino = IN.same_inode[k] ? 100 : 200;
	return 0;
}
static ssize_t l_readlink(const char *path, char *buf, size_t size)
{
	int k = which_link(), n;
	(void)path;
	if (IN.readlink_ret[k] < 0) { errno = ENOENT; return -1; }
	if (size < 4)
		return -1;
	for (n = 0; n < 2; ++n)
		buf[n] = IN.target_same[k] ? TGT[k][n] : OTHER[n];
	return 2;
}
static int l_mkancestor(const char *path) { (void)path; ++g_mk[which_link()]; return IN.mk_ret ? -1 : 0; }
static int l_remove(const char *path) { int k = which_link(); (void)path; ++g_rm[k]; g_rm_when[k] = ++g_order; if (IN.rm_ret) { errno = IN.rm_enoent ? ENOENT : EACCES; return -1; } return 0; }
static int l_symlink(const char *target, const char *path) { int k = which_link(); (void)path; ++g_sym[k]; g_sym_target[k] = target; g_create_when[k] = ++g_order; return IN.create_ret ? -1 : 0; }
static int l_hardlink(const char *target, const char *path) { int k = which_link(); (void)target; (void)path; ++g_hard[k]; g_create_when[k] = ++g_order; return IN.create_ret ? -1 : 0; }
static const char *l_esc(const char *str, char *buffer) { (void)buffer; return str; }
static const char *l_fmt(const struct snapraid_disk *disk, const char *str, char *buffer) { (void)disk; (void)buffer; return str; }
/* the region reads `slink = node->data` at the top of each iteration: the stub below is called through link_flag_has on it */
static int l_flag_has(const struct snapraid_link *slink, unsigned mask)
{
	int k;
	for (k = 0; k < NL; ++k)
		if (slink == LNK[k])
			g_cur = k;
	return (slink->flag & mask) == mask;
}

#define pathprint l_pathprint
#define stat(p, s) l_stat(p, s)
#define readlink l_readlink
#define mkancestor l_mkancestor
#define remove l_remove
#define symlink l_symlink
#define hardlink l_hardlink
#define esc_tag l_esc
#define fmt_term l_fmt
#define link_flag_has l_flag_has
#include "region_check_links.c"
#undef pathprint
#undef stat
#undef readlink
#undef mkancestor
#undef remove
#undef symlink
#undef hardlink
#undef esc_tag
#undef fmt_term
#undef link_flag_has

void h_check_links(void)
{
	static struct snapraid_state ST;
	static struct snapraid_handle H[1];
	unsigned error, unrec, recov;
	int bailed = 0, k, stopped = 0;
	VERIF_INPUTS();
	VERIF_ASSUME(IN.nlinks >= 1 && IN.nlinks <= NL);
	VERIF_ASSUME(IN.e0 < 100000 && IN.u0 < 100000 && IN.r0 < 100000);
	H[0].disk = &DK;
	tommy_list_init(&DK.linklist);
	for (k = 0; k < NL; ++k) {
		VERIF_ASSUME(IN.readlink_ret[k] == 0 || IN.readlink_ret[k] == -1);
		LNK[k]->sub = SUBS[k];
		LNK[k]->linkto = TGT[k];
		LNK[k]->flag = (IN.lflag[k] & FILE_IS_EXCLUDED) | ((IN.lflag[k] & 1) ? FILE_IS_HARDLINK : FILE_IS_SYMLINK);
		g_mk[k] = g_rm[k] = g_sym[k] = g_hard[k] = 0;
		if (k < IN.nlinks)
			tommy_list_insert_tail(&DK.linklist, &LNK[k]->nodelist, LNK[k]);
	}
	g_stat_calls = 0; g_order = 0; g_cur = -1;
	error = IN.e0; unrec = IN.u0; recov = IN.r0;

	region_check_links(&ST, IN.fix, H, 0, &error, &unrec, &recov, &bailed);

	for (k = 0; k < NL; ++k) {
		int hard = (LNK[k]->flag & FILE_IS_HARDLINK) != 0;
		int excluded = (LNK[k]->flag & FILE_IS_EXCLUDED) != 0;
		int wrong, unrecoverable = 0, created = g_sym[k] + g_hard[k];
		if (k >= IN.nlinks || excluded || stopped) {
			VERIF_ASSERT(g_mk[k] == 0 && g_rm[k] == 0 && created == 0, "a link excluded by the filters (or after the command stopped) is not touched");
			continue;
		}
		if (!IN.fix) {
			VERIF_ASSERT(g_mk[k] == 0 && g_rm[k] == 0 && created == 0, "without the fix flag no link is removed or created");
			continue;
		}
		if (hard) {
			wrong = IN.stat_ret[k] || !IN.stat_reg[k] || IN.statto_ret[k] || !IN.statto_reg[k] || !IN.same_inode[k];
			unrecoverable = IN.statto_ret[k] && IN.statto_enoent[k];
		} else {
			wrong = IN.readlink_ret[k] < 0 || !IN.target_same[k];
		}
		if (!wrong || unrecoverable) {
			VERIF_ASSERT(g_rm[k] == 0 && created == 0, "a correct link is left alone; a hard link whose target does not exist cannot be re-created");
		} else if (IN.mk_ret) {
			VERIF_ASSERT(g_rm[k] == 0 && created == 0, "nothing is done below a directory that cannot be created");
			stopped = 1;
		} else if (IN.rm_ret && !IN.rm_enoent) {
			VERIF_ASSERT(created == 0, "a link that cannot be removed is not re-created");
			stopped = 1;
		} else {
			VERIF_ASSERT(g_rm[k] == 1 && created == 1 && g_rm_when[k] < g_create_when[k], "a wrong link is removed, then re-created");
			if (hard)
				VERIF_ASSERT(g_hard[k] == 1 && g_sym[k] == 0, "a hard link is re-created as a hard link");
			else
				VERIF_ASSERT(g_sym[k] == 1 && g_hard[k] == 0 && g_sym_target[k] == TGT[k], "a symbolic link is re-created with the recorded target");
			if (IN.create_ret)
				stopped = 1;
		}
	}
	VERIF_ASSERT(bailed == stopped, "only a failing operation stops the command");
	VERIF_CANARY();
}


/*
 * Empty files and empty directories at the end of check / fix (regions "for each empty file in the disk" and "for each dir in
 * the disk" of state_check_process): only recorded files of size ZERO are looked at here (the create call truncates!), excluded
 * elements are skipped, check creates nothing; fix re-creates a missing / wrong empty file with its recorded time and a
 * missing directory (with its ancestors).
 */
#ifdef VERIF_EMPTY_REGIONS
static struct snapraid_file EF0, EF1;
static struct snapraid_file *const EF[NL] = { &EF0, &EF1 };
static struct snapraid_dir ED0, ED1;
static struct snapraid_dir *const ED[NL] = { &ED0, &ED1 };
static int g_ecur = -1;
static unsigned g_e_mk[NL], g_e_open[NL], g_e_fmtime[NL], g_e_mkdir[NL];
static int g_e_oflags[NL];
static int64_t g_e_sec[NL]; static int g_e_nsec[NL];
static int e_file_flag_has(const struct snapraid_file *f, unsigned mask) { int k; for (k = 0; k < NL; ++k) if (f == EF[k]) g_ecur = k; return (f->flag & mask) == mask; }
static int e_dir_flag_has(const struct snapraid_dir *d, unsigned mask) { int k; for (k = 0; k < NL; ++k) if (d == ED[k]) g_ecur = k; return (d->flag & mask) == mask; }
static int e_stat(const char *path, struct stat *st)
{
	int k = g_ecur;
	(void)path;
	if (IN.e_stat_ret[k]) { errno = ENOENT; return -1; }
	st->st_mode = IN.e_kind_ok[k] ? (g_ecur >= 0 && 0 ? 0 : 0) : 0;
	return 0;
}
static int g_want_dir;
static int e_stat2(const char *path, struct stat *st)
{
	int k = g_ecur;
	(void)path;
	if (IN.e_stat_ret[k]) { errno = ENOENT; return -1; }
	if (g_want_dir)
		st->st_mode = IN.e_kind_ok[k] ? S_IFDIR : S_IFREG;
	else
		st->st_mode = IN.e_kind_ok[k] ? S_IFREG : S_IFDIR;
	st->st_size = IN.e_size0[k] ? 0 : 5;
	return 0;
}
static int e_mkancestor(const char *path) { (void)path; ++g_e_mk[g_ecur]; return IN.mk_ret ? -1 : 0; }
static int e_open(const char *path, int flags, ...) { (void)path; ++g_e_open[g_ecur]; g_e_oflags[g_ecur] = flags; return IN.e_open_ret ? -1 : 5; }
static int e_fmtime(int fd, int64_t sec, int nsec) { (void)fd; ++g_e_fmtime[g_ecur]; g_e_sec[g_ecur] = sec; g_e_nsec[g_ecur] = nsec; return IN.e_fmtime_ret ? -1 : 0; }
static int e_close(int fd) { (void)fd; return IN.e_close_ret ? -1 : 0; }
static int e_mkdir(const char *path, mode_t mode) { (void)path; (void)mode; ++g_e_mkdir[g_ecur]; return IN.e_mkdir_ret ? -1 : 0; }

#define pathprint l_pathprint
#define stat(p, s) e_stat2(p, s)
#define mkancestor e_mkancestor
#define open e_open
#define fmtime e_fmtime
#define close e_close
#define mkdir e_mkdir
#define esc_tag l_esc
#define fmt_term l_fmt
#define file_flag_has e_file_flag_has
#define dir_flag_has e_dir_flag_has
#include "region_check_emptyfiles.c"
#include "region_check_dirs.c"
#undef pathprint
#undef stat
#undef mkancestor
#undef open
#undef fmtime
#undef close
#undef mkdir
#undef esc_tag
#undef fmt_term
#undef file_flag_has
#undef dir_flag_has

static void empty_setup(struct snapraid_handle *H)
{
	int k;
	VERIF_ASSUME(IN.nelem >= 1 && IN.nelem <= NL);
	VERIF_ASSUME(IN.e0 < 100000 && IN.u0 < 100000 && IN.r0 < 100000);
	H[0].disk = &DK;
	tommy_list_init(&DK.filelist);
	tommy_list_init(&DK.dirlist);
	for (k = 0; k < NL; ++k) {
		VERIF_ASSUME(IN.esize[k] >= 0);
		EF[k]->sub = SUBS[k]; EF[k]->size = IN.esize[k]; EF[k]->flag = IN.eflag[k] & FILE_IS_EXCLUDED; EF[k]->mtime_sec = 1000 + k; EF[k]->mtime_nsec = 7 + k;
		ED[k]->sub = SUBS[k]; ED[k]->flag = IN.eflag[k] & FILE_IS_EXCLUDED;
		g_e_mk[k] = g_e_open[k] = g_e_fmtime[k] = g_e_mkdir[k] = 0;
		if (k < IN.nelem) {
			tommy_list_insert_tail(&DK.filelist, &EF[k]->nodelist, EF[k]);
			tommy_list_insert_tail(&DK.dirlist, &ED[k]->nodelist, ED[k]);
		}
	}
	g_ecur = -1;
}

void h_check_emptyfiles(void)
{
	static struct snapraid_state ST;
	static struct snapraid_handle H[1];
	unsigned error, unrec, recov;
	int bailed = 0, k, stopped = 0;
	VERIF_INPUTS();
	empty_setup(H);
	g_want_dir = 0;
	error = IN.e0; unrec = IN.u0; recov = IN.r0;
	region_check_emptyfiles(&ST, IN.fix, H, 0, &error, &unrec, &recov, &bailed);
	for (k = 0; k < NL; ++k) {
		int considered = k < IN.nelem && IN.esize[k] == 0 && !(IN.eflag[k] & FILE_IS_EXCLUDED) && !stopped;
		int wrong = IN.e_stat_ret[k] || !IN.e_kind_ok[k] || !IN.e_size0[k];
		if (!considered || !IN.fix || !wrong) {
			VERIF_ASSERT(g_e_open[k] == 0 && g_e_mk[k] == 0 && g_e_fmtime[k] == 0, "a file that is not empty in the record, is excluded, or is fine - and every file in check mode - is not created, truncated or re-timed here");
			continue;
		}
		if (IN.mk_ret) { VERIF_ASSERT(g_e_open[k] == 0, "nothing is created below a directory that cannot be made"); stopped = 1; continue; }
		VERIF_ASSERT(g_e_open[k] == 1 && (g_e_oflags[k] & O_CREAT), "a missing or wrong empty file is re-created");
		if (IN.e_open_ret) { stopped = 1; continue; }
		VERIF_ASSERT(g_e_fmtime[k] == 1 && g_e_sec[k] == 1000 + k && g_e_nsec[k] == 7 + k, "with its recorded modification time, seconds and nanoseconds");
		if (IN.e_fmtime_ret || IN.e_close_ret) stopped = 1;
	}
	VERIF_ASSERT(bailed == stopped, "only a failing operation stops the command");
	VERIF_CANARY();
}

void h_check_dirs(void)
{
	static struct snapraid_state ST;
	static struct snapraid_handle H[1];
	unsigned error, unrec, recov;
	int bailed = 0, k, stopped = 0;
	VERIF_INPUTS();
	empty_setup(H);
	g_want_dir = 1;
	error = IN.e0; unrec = IN.u0; recov = IN.r0;
	region_check_dirs(&ST, IN.fix, H, 0, &error, &unrec, &recov, &bailed);
	for (k = 0; k < NL; ++k) {
		int considered = k < IN.nelem && !(IN.eflag[k] & FILE_IS_EXCLUDED) && !stopped;
		int wrong = IN.e_stat_ret[k] || !IN.e_kind_ok[k];
		if (!considered || !IN.fix || !wrong) {
			VERIF_ASSERT(g_e_mkdir[k] == 0 && g_e_mk[k] == 0, "an excluded or existing directory - and every directory in check mode - is not created");
			continue;
		}
		if (IN.mk_ret) { VERIF_ASSERT(g_e_mkdir[k] == 0, "nothing is created below a directory that cannot be made"); stopped = 1; continue; }
		VERIF_ASSERT(g_e_mkdir[k] == 1 && g_e_mk[k] == 1, "a missing recorded empty directory is re-created, ancestors first");
		if (IN.e_mkdir_ret) stopped = 1;
	}
	VERIF_ASSERT(bailed == stopped, "only a failing operation stops the command");
	VERIF_CANARY();
}
#endif

#include "verif_tail.h"
