/*
 * Wiring in main() (cmdline/snapraid.c), as mechanically extracted regions with every callee a recording stub:
 *
 *   main_config  "state_init(&state)" .. before the command dispatch:
 *                - the RAID engine is switched to the mode the configuration selects (z-parity == RAID_MODE_VANDERMONDE)
 *                  AFTER the configuration was read and before any command runs: the meaning of the third parity of an
 *                  existing array is fixed by its configuration, not by the engine's default (C16, C02)
 *                - the lock interlock: when a lock file is configured and not skipped, a lock that cannot be taken stops
 *                  the command with a failing status before any state is read (C14)
 *   main_sync    the sync branch: content is read, the disks are scanned (where the scan interlocks stop the command),
 *                and only then state_sync and state_write run; the content file is written iff something changed (or
 *                forced) and the kill-after-sync test option is off (C14 ordering, C06)
 * Only call order and arguments are checked here; what each callee does is the business of its own units.
 */
#include "portable.h"
#include "support.h"
#include "elem.h"
#include "state.h"
#include "util.h"
#include "raid/raid.h"
#include "verif.h"

struct verif_in {
	int conf_mode;         /* what state_config finds: 0 (3-parity ...) or 1 (z-parity) */
	int has_lockfile, skip_lock, lock_ret, lock_errno;
	int diff_ret;
	int operation, auditonly, has_import_ts, has_import_content, dispatch_ret;
	int need_write_after_scan, need_write_after_sync, force_content_write, kill_after_sync, sync_ret, has_run, run_ret, skip_self;
};
VERIF_DECLARE_IN

static unsigned g_ord;
static unsigned g_when_init, g_when_config, g_when_mode, g_when_lock, g_when_read, g_when_scan, g_when_refresh, g_when_sync, g_when_write;
static int g_mode_arg = -1, g_mode_calls;
static int g_refusal_due, g_exit_calls, g_expected_code, g_when_check_done;
static struct snapraid_state *g_state_seen;

static void verif_exit(int code)
{
	++g_exit_calls;
	VERIF_ASSERT(g_refusal_due, "the command stops here only when it must");
	VERIF_ASSERT(code != 0, "a refusal ends with a failing status");
	if (g_expected_code)
		VERIF_ASSERT(code == g_expected_code, "diff announces differences with exit status 2");
#ifdef VERIF_CBMC
	__CPROVER_assume(0);
#else
	printf("VERIF-REFUSED-AS-EXPECTED\n");
	fflush(stdout);
	_exit(0);
#endif
}

#ifdef VERIF_CBMC
int exit_success = 0, exit_failure = 1, exit_sync_needed = 2;
void log_fatal(const char *format, ...) { (void)format; }
void log_tag(const char *format, ...) { (void)format; }
#endif

/* ---------------------------------------------------------------- recording stubs (the names below are routed here inside the region text) */
static void v_state_init(struct snapraid_state *state) { g_when_init = ++g_ord; g_state_seen = state; state->raid_mode = RAID_MODE_CAUCHY; state->lockfile[0] = 0; state->need_write = 0; }
static void v_state_config(struct snapraid_state *state, const char *path, const char *command, struct snapraid_option *opt, tommy_list *filterlist_disk)
{
	(void)path; (void)command; (void)filterlist_disk;
	g_when_config = ++g_ord;
	state->raid_mode = IN.conf_mode;
	state->opt = *opt;
	if (IN.has_lockfile) {
		state->lockfile[0] = 'l';
		state->lockfile[1] = 0;
	}
}
static void v_raid_mode(int mode) { g_when_mode = ++g_ord; g_mode_arg = mode; ++g_mode_calls; }
static int v_lock_lock(const char *file) { (void)file; g_when_lock = ++g_ord; if (IN.lock_ret < 0) errno = IN.lock_errno; return IN.lock_ret < 0 ? -1 : 3; }
static void v_state_read(struct snapraid_state *state) { (void)state; g_when_read = ++g_ord; }
static void v_state_scan(struct snapraid_state *state) { g_when_scan = ++g_ord; if (IN.need_write_after_scan) state->need_write = 1; }
static void v_state_refresh(struct snapraid_state *state) { (void)state; g_when_refresh = ++g_ord; }
static int v_state_sync(struct snapraid_state *state, block_off_t blockstart, block_off_t blockcount)
{
	(void)blockstart; (void)blockcount;
	g_when_sync = ++g_ord;
	if (IN.need_write_after_sync)
		state->need_write = 1;
	return IN.sync_ret ? -1 : 0;
}
static unsigned g_when_diff;
static int v_state_diff(struct snapraid_state *state) { (void)state; g_when_diff = ++g_ord; return IN.diff_ret; }
static void v_state_write(struct snapraid_state *state) { (void)state; g_when_write = ++g_ord; }
static void memory(void) { }
static void signal_init(void) { }
static int v_system(const char *cmd) { (void)cmd; return IN.run_ret; }
static unsigned v_sleep(unsigned s) { (void)s; return 0; }

#define exit verif_exit
#define state_init v_state_init
#define state_config v_state_config
#define raid_mode(m) v_raid_mode(m) /* function-like: state.raid_mode (the member) is left alone */
#define lock_lock v_lock_lock
#define state_read v_state_read
#define state_scan v_state_scan
#define state_refresh v_state_refresh
#define state_sync v_state_sync
#define state_write v_state_write
#define state_diff v_state_diff
#define system v_system
#define sleep v_sleep
#include "region_main_config.c"
#include "region_main_sync.c"
#include "region_main_diff.c"
#undef exit
#undef state_init
#undef state_config
#undef raid_mode
#undef lock_lock
#undef state_read
#undef state_scan
#undef state_refresh
#undef state_sync
#undef state_write
#undef state_diff
#undef system
#undef sleep

static struct snapraid_state ST;
static struct snapraid_option OPT;

void h_main_config(void)
{
	int lock = -1;
	VERIF_INPUTS();
	VERIF_ASSUME(IN.conf_mode == RAID_MODE_CAUCHY || IN.conf_mode == RAID_MODE_VANDERMONDE);
	OPT.skip_lock = IN.skip_lock != 0;
	g_ord = 0;
	g_refusal_due = IN.has_lockfile && !IN.skip_lock && IN.lock_ret < 0;

	region_main_config(&ST, &OPT, "conf", "sync", &lock);

	VERIF_ASSERT(!g_refusal_due, "a command is refused when another one holds the lock of the array");
	VERIF_ASSERT(g_when_init != 0 && g_when_config > g_when_init, "the configuration is read into an initialised state");
	VERIF_ASSERT(g_mode_calls >= 1 && g_when_mode > g_when_config && g_mode_arg == IN.conf_mode,
		"the RAID engine runs in the mode the configuration selects (z-parity = Vandermonde), set after the configuration was read");
	if (IN.has_lockfile && !IN.skip_lock)
		VERIF_ASSERT(g_when_lock != 0 && lock >= 0, "the lock is taken before the command runs");
	VERIF_CANARY();
}

void h_main_sync(void)
{
	VERIF_INPUTS();
	OPT.kill_after_sync = IN.kill_after_sync != 0;
	OPT.skip_self = IN.skip_self != 0;
	ST.opt.force_content_write = IN.force_content_write != 0;
	ST.need_write = 0;
	g_ord = 0;
	/* a failing test command (--test-run) or a failed sync end with a failing status */
	g_refusal_due = (IN.has_run && IN.run_ret != 0) || IN.sync_ret != 0;

	region_main_sync(&ST, &OPT, IN.has_run ? "true" : 0, 0, 0);

	VERIF_ASSERT(!g_refusal_due, "a failed sync ends with a failing status");
	VERIF_ASSERT(g_when_read != 0 && g_when_scan > g_when_read && g_when_sync > g_when_scan,
		"sync reads the content, then scans the disks (where the scan interlocks stop it), and only then touches parity");
	if (g_when_write)
		VERIF_ASSERT(g_when_write > g_when_sync, "the content file is written after the parity was updated");
	VERIF_ASSERT((g_when_write != 0) == (!IN.kill_after_sync && (IN.need_write_after_scan || IN.need_write_after_sync || IN.force_content_write)),
		"the content file is written iff something changed (or the write is forced)");
	VERIF_CANARY();
}


void h_main_diff(void)
{
	VERIF_INPUTS();
	g_ord = 0;
	g_refusal_due = IN.diff_ret > 0;
	g_expected_code = 2;
	region_main_diff(&ST);
	VERIF_ASSERT(!g_refusal_due, "diff ends with status 2 when state_diff reports differences");
	VERIF_ASSERT(g_when_read != 0 && g_when_diff > g_when_read && g_when_write == 0 && g_when_sync == 0, "diff reads the content, compares, and neither syncs nor writes");
	VERIF_CANARY();
}


/* ---------------------------------------------------------------- the command dispatch of main() (C12: who may modify what) */
enum { F_READ = 1, F_DIFF = 2, F_SCAN = 4, F_SYNC = 8, F_WRITE = 16, F_DRY = 32, F_REHASH = 64, F_SCRUB = 128, F_TOUCH = 256, F_DEVICE = 512,
	F_STATUS = 1024, F_DUP = 2048, F_LIST = 4096, F_POOL = 8192, F_SEARCH = 16384, F_IMPORT = 32768, F_CHECK = 65536, F_FIX = 131072, F_FILTER = 262144 };
static unsigned g_called;
#define MAYBE_DIRTY(st) do { if (IN.need_write_after_sync) (st)->need_write = 1; } while (0) /* any callee may leave the state marked as changed */
static void d_read(struct snapraid_state *st) { g_called |= F_READ; MAYBE_DIRTY(st); }
static int d_diff(struct snapraid_state *st) { MAYBE_DIRTY(st); g_called |= F_DIFF; return IN.dispatch_ret; }
static void d_scan(struct snapraid_state *st) { g_called |= F_SCAN; if (IN.need_write_after_scan) st->need_write = 1; }
static void d_refresh(struct snapraid_state *st) { (void)st; }
static int d_sync(struct snapraid_state *st, block_off_t a, block_off_t b) { (void)a; (void)b; g_called |= F_SYNC; if (IN.need_write_after_sync) st->need_write = 1; return IN.dispatch_ret; }
static void d_write(struct snapraid_state *st) { (void)st; g_called |= F_WRITE; }
static void d_skip(struct snapraid_state *st) { (void)st; }
static void d_filter(struct snapraid_state *st, tommy_list *a, tommy_list *b, int c, int d) { MAYBE_DIRTY(st); (void)a; (void)b; (void)c; (void)d; g_called |= F_FILTER; }
static void d_dry(struct snapraid_state *st, block_off_t a, block_off_t b) { MAYBE_DIRTY(st); (void)a; (void)b; g_called |= F_DRY; }
static void d_rehash(struct snapraid_state *st) { g_called |= F_REHASH; if (IN.need_write_after_sync) st->need_write = 1; }
static int d_scrub(struct snapraid_state *st, int plan, int olderthan) { (void)plan; (void)olderthan; g_called |= F_SCRUB; if (IN.need_write_after_sync) st->need_write = 1; return IN.dispatch_ret; }
static void d_touch(struct snapraid_state *st) { MAYBE_DIRTY(st); g_called |= F_TOUCH; }
static void d_device(struct snapraid_state *st, int op, tommy_list *l) { MAYBE_DIRTY(st); (void)op; (void)l; g_called |= F_DEVICE; }
static void d_status(struct snapraid_state *st) { MAYBE_DIRTY(st); g_called |= F_STATUS; }
static void d_dup(struct snapraid_state *st) { MAYBE_DIRTY(st); g_called |= F_DUP; }
static void d_list(struct snapraid_state *st) { MAYBE_DIRTY(st); g_called |= F_LIST; }
static void d_pool(struct snapraid_state *st) { MAYBE_DIRTY(st); g_called |= F_POOL; }
static void d_search(struct snapraid_state *st, const char *dir) { MAYBE_DIRTY(st); (void)dir; g_called |= F_SEARCH; }
static void d_import(struct snapraid_state *st, const char *dir) { MAYBE_DIRTY(st); (void)dir; g_called |= F_IMPORT; }
static void d_search_array(struct snapraid_state *st) { MAYBE_DIRTY(st); g_called |= F_SEARCH; }
static int d_check(struct snapraid_state *st, int fix, block_off_t a, block_off_t b) { MAYBE_DIRTY(st); (void)a; (void)b; g_called |= fix ? F_FIX : F_CHECK; return IN.dispatch_ret; }

#define exit verif_exit
#define state_read d_read
#define state_diff d_diff
#define state_scan d_scan
#define state_refresh d_refresh
#define state_sync d_sync
#define state_write d_write
#define state_skip d_skip
#define state_filter d_filter
#define state_dry d_dry
#define state_rehash d_rehash
#define state_scrub d_scrub
#define state_touch d_touch
#define state_device d_device
#define state_status d_status
#define state_dup d_dup
#define state_list d_list
#define state_pool d_pool
#define state_search d_search
#define state_import d_import
#define state_search_array d_search_array
#define state_check d_check
#define system v_system
#define sleep v_sleep
#include "region_main_ops.c"
#include "region_main_dispatch.c"
#undef exit

void h_main_dispatch(void)
{
	unsigned writers = F_SYNC | F_WRITE | F_REHASH | F_SCRUB | F_TOUCH | F_FIX | F_POOL;
	int op;
	VERIF_INPUTS();
	op = IN.operation;
	VERIF_ASSUME(op >= OPERATION_DIFF && op <= OPERATION_SMART);
	OPT.kill_after_sync = IN.kill_after_sync != 0;
	OPT.skip_self = 1;
	ST.opt.force_content_write = IN.force_content_write != 0;
	ST.opt.auditonly = IN.auditonly != 0;
	ST.opt.force_nocopy = 0;
	ST.need_write = 0;
	g_called = 0;
	g_expected_code = 0;
	/* a failing command ends with a failing status (diff: 2 on differences) */
	g_refusal_due = (IN.dispatch_ret != 0 && (op == OPERATION_SYNC || op == OPERATION_SCRUB || op == OPERATION_CHECK || op == OPERATION_FIX))
		|| (IN.dispatch_ret > 0 && op == OPERATION_DIFF) || (op == OPERATION_SYNC && IN.has_run && IN.run_ret != 0);
	g_when_check_done = 0;

	region_main_dispatch(&ST, &OPT, op, IN.has_run ? "true" : 0, IN.has_import_ts ? "dir" : 0, IN.has_import_content ? "dir" : 0);

	/* what each command is allowed to start (the callees are judged by their own units) */
	if (op == OPERATION_STATUS || op == OPERATION_DIFF || op == OPERATION_LIST || op == OPERATION_DUP || op == OPERATION_CHECK
		|| op == OPERATION_DEVICES || op == OPERATION_SMART || op == OPERATION_SPINUP || op == OPERATION_SPINDOWN || op == OPERATION_DRY || op == OPERATION_READ)
		VERIF_ASSERT((g_called & writers) == 0, "status, diff, list, dup, check, dry and the device commands start nothing that writes data, parity or content");
	if (op == OPERATION_SCRUB)
		VERIF_ASSERT((g_called & (writers & ~(F_SCRUB | F_WRITE))) == 0, "scrub may only scrub and save the content file");
	if (op == OPERATION_SYNC)
		VERIF_ASSERT((g_called & (writers & ~(F_SYNC | F_WRITE))) == 0, "sync may only sync and save the content file");
	if (op == OPERATION_FIX)
		VERIF_ASSERT((g_called & (writers & ~F_FIX)) == 0 && (g_called & F_FIX), "fix repairs and never saves the content file");
	if (op == OPERATION_CHECK)
		VERIF_ASSERT((g_called & F_CHECK) && !(g_called & F_FIX), "check runs the verification without the fix flag");
	if (op == OPERATION_POOL)
		VERIF_ASSERT((g_called & (writers & ~F_POOL)) == 0, "pool only rebuilds the pool directory");
	if (op == OPERATION_TOUCH)
		VERIF_ASSERT((g_called & (writers & ~(F_TOUCH | F_WRITE))) == 0, "touch only touches and saves the content file");
	if (op == OPERATION_REHASH)
		VERIF_ASSERT((g_called & (writers & ~(F_REHASH | F_WRITE))) == 0, "rehash only schedules the migration and saves the content file");
	if ((op == OPERATION_CHECK || op == OPERATION_FIX) && IN.auditonly)
		VERIF_ASSERT(!(g_called & (F_SEARCH | F_IMPORT)), "an audit-only check reads no other file than the ones it verifies");
	VERIF_CANARY();
}

#include "verif_tail.h"
