/*
 * Block hash stability (C16): MurmurHash3_x86_128 as used by SnapRAID (cmdline/murmur3.c, included by util.c; seeded
 * with a 16-byte key) against an independently organised transcription of the published algorithm
 * (Appleby, MurmurHash3_x86_128: constants, rotations, block mix, tail by zero-extended lanes, fmix32 finaliser),
 * for EVERY content and seed at a concrete length HASH_LEN (bounded equivalence of two programs, labelled as such).
 */
#include "portable.h"
#include "support.h"
#include "util.h"
#include "verif.h"

#ifndef HASH_LEN
#define HASH_LEN 5
#endif

struct verif_in {
	unsigned char data[HASH_LEN + 1];
	unsigned char seed[16];
};
VERIF_DECLARE_IN

#ifdef VERIF_CBMC
void log_fatal(const char *format, ...) { (void)format; }
#endif

static inline uint32_t s_rotl(uint32_t x, int r) { return (x << r) | (x >> (32 - r)); }
static inline uint32_t s_le32(const unsigned char *p) { return p[0] | (uint32_t)p[1] << 8 | (uint32_t)p[2] << 16 | (uint32_t)p[3] << 24; }
static inline uint32_t s_fmix(uint32_t h)
{
	h ^= h >> 16;
	h *= 0x85ebca6bu;
	h ^= h >> 13;
	h *= 0xc2b2ae35u;
	h ^= h >> 16;
	return h;
}

static void spec_murmur3_x86_128(const unsigned char *data, unsigned len, const unsigned char *seed, unsigned char *out)
{
	static const uint32_t C[4] = { 0x239b961bu, 0xab0e9789u, 0x38b34ae5u, 0xa1e38b93u };
	static const int R1[4] = { 15, 16, 17, 18 };
	static const int R2[4] = { 19, 17, 15, 13 };
	static const uint32_t N[4] = { 0x561ccd1bu, 0x0bcaa747u, 0x96cd1c35u, 0x32ac3b17u };
	uint32_t h[4], k[4];
	unsigned char lane[16];
	unsigned nblocks = len / 16, b, i, rem = len & 15;
	for (i = 0; i < 4; ++i)
		h[i] = s_le32(seed + 4 * i);
	for (b = 0; b < nblocks; ++b)
		for (i = 0; i < 4; ++i) {
			k[i] = s_le32(data + 16 * b + 4 * i);
			k[i] *= C[i];
			k[i] = s_rotl(k[i], R1[i]);
			k[i] *= C[(i + 1) & 3];
			h[i] ^= k[i];
			h[i] = s_rotl(h[i], R2[i]);
			h[i] += h[(i + 1) & 3];
			h[i] = h[i] * 5 + N[i];
		}
	/* tail: the remaining bytes as zero-extended little-endian lanes; a lane takes part only if it holds a byte */
	for (i = 0; i < 16; ++i)
		lane[i] = i < rem ? data[16 * nblocks + i] : 0;
	for (i = 4; i-- > 0;)
		if (rem > 4 * i) {
			k[i] = s_le32(lane + 4 * i);
			k[i] *= C[i];
			k[i] = s_rotl(k[i], R1[i]);
			k[i] *= C[(i + 1) & 3];
			h[i] ^= k[i];
		}
	for (i = 0; i < 4; ++i)
		h[i] ^= len;
	h[0] += h[1]; h[0] += h[2]; h[0] += h[3];
	h[1] += h[0]; h[2] += h[0]; h[3] += h[0];
	for (i = 0; i < 4; ++i)
		h[i] = s_fmix(h[i]);
	h[0] += h[1]; h[0] += h[2]; h[0] += h[3];
	h[1] += h[0]; h[2] += h[0]; h[3] += h[0];
	for (i = 0; i < 4; ++i) {
		out[4 * i] = (unsigned char)h[i];
		out[4 * i + 1] = (unsigned char)(h[i] >> 8);
		out[4 * i + 2] = (unsigned char)(h[i] >> 16);
		out[4 * i + 3] = (unsigned char)(h[i] >> 24);
	}
}

void h_murmur3(void)
{
	unsigned char d1[16], d2[16];
	static unsigned char data[HASH_LEN + 1] __attribute__((aligned(4)));
	int k;
	VERIF_INPUTS();
	for (k = 0; k < HASH_LEN; ++k)
		data[k] = IN.data[k];
	memhash(HASH_MURMUR3, IN.seed, d1, data, HASH_LEN);
	spec_murmur3_x86_128(IN.data, HASH_LEN, IN.seed, d2);
	for (k = 0; k < 16; ++k)
		VERIF_ASSERT(d1[k] == d2[k], "memhash(MURMUR3) == MurmurHash3_x86_128 (published algorithm)");
	VERIF_CANARY();
}

#include "verif_tail.h"
