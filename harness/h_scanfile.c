/*
 * scan_file() (cmdline/scan.c): what the scan decides for ONE directory entry, as a mechanically extracted copy of the whole
 * function body with every callee routed to a recording stub, plus two callees on the real code:
 *
 *   scan.scan_file   - identity: a file found by inode with the same size and time-stamp (and not seen yet) is KEPT - the
 *                      same object with its blocks, hashes and parity positions - counted as moved or equal; a file found by
 *                      path with the same size and time-stamp likewise (restored / equal); everything else becomes a NEW
 *                      file object (no block state, no hash carried over) and the old one of that path is removed
 *                    - copy detection (C19): hashes are copied only when copy detection is on, only from a file the
 *                      stamp index returned for (name|path, size, time-stamp), and only if that file is fully hashed and
 *                      stable; names are compared only with a usable sub-second time-stamp, else whole paths
 *                    - zero-size interlock (C14): a recorded non-empty file that is now empty stops sync with a failing
 *                      status unless --force-zero; diff only reports
 *                    - counters: exactly one of equal / move / restore / change / insert / copy per entry (none for a
 *                      hard link), as documented in struct snapraid_scan - the input of the empty-disk interlock
 *   scan.full_hashed - file_is_full_hashed_and_stable (REAL): 1 iff the file has blocks, each with an up-to-date hash
 *                      (BLK or REP) and none of its mapped stripes awaits a rehash        (bounded: <= 4 blocks)
 *   elem.file_copy   - file_copy (REAL, cmdline/elem.c via the library natively / included for cbmc): every block of the
 *                      destination becomes REP - hash known, parity NOT valid - never BLK   (bounded: <= 3 blocks)
 */
#include "portable.h"
#include "support.h"
#include "elem.h"
#include "state.h"
#include "verif.h"

#define NB 4

struct verif_in {
	/* the directory entry */
	int64_t e_size, e_mtime;
	int e_nsec;
	uint64_t e_ino;
	unsigned e_nlink;
	int is_diff;
	/* options / disk */
	int force_zero, force_nocopy, gui;
	int volatile_inodes, different_uuid, unsupported_uuid, volatile_hardlinks;
	/* the file found by inode */
	int by_inode;
	int64_t a_size, a_mtime; int a_nsec; unsigned a_flag; int a_same_path;
	/* the file found by path: 0 none, 1 the same object as the one found by inode, 2 another one */
	int path_result;
	int64_t b_size, b_mtime; int b_nsec; unsigned b_flag; uint64_t b_inode;
	/* stamp index of the two disks */
	int stamp_hit[2], full_hashed[2];
	/* scan.removed region */
	int npresent_f[3], npresent_l[3], npresent_d[3];
	int nf, nl, nd_;
	/* scan.link */
	int link_found, same_target, lkind_rec, lkind_now;
	/* scan.emptydir */
	int dir_found;
	unsigned dflag;
	unsigned cnt[7];
	/* scan.full_hashed / elem.file_copy */
	block_off_t blockmax;
	unsigned bstate[NB];
	int mapped[NB], rehash[NB];
	unsigned char srchash[NB], dsthash[NB];
};
VERIF_DECLARE_IN

static int g_refusal_due, g_exit_calls;
static void verif_exit(int code)
{
	++g_exit_calls;
	VERIF_ASSERT(g_refusal_due, "sync stops here only when a recorded non-empty file is now empty and --force-zero was not given");
	VERIF_ASSERT(code != 0, "a refusal ends with a failing status");
#ifdef VERIF_CBMC
	__CPROVER_assume(0);
#else
	printf("VERIF-REFUSED-AS-EXPECTED\n");
	fflush(stdout);
	_exit(0);
#endif
}

#ifdef VERIF_CBMC
int exit_success = 0, exit_failure = 1, exit_sync_needed = 2;
int BLOCK_HASH_SIZE = 16;
void log_fatal(const char *format, ...) { (void)format; }
void log_tag(const char *format, ...) { (void)format; }
void msg_info(const char *format, ...) { (void)format; }
void *malloc_nofail(size_t size) { void *q = malloc(size); __CPROVER_assume(q != 0); return q; }
void os_abort(void) { VERIF_ASSERT(0, "internal-inconsistency branch reached although the indexes are consistent"); __CPROVER_assume(0); }
#include "tommyds/tommyhash.c" /* REAL: the hash of the path / stamp handed to the (stubbed) index lookups */
#endif

/* fs_file2block_get / fs_file2par_find / info_get for file_is_full_hashed_and_stable: a symbolic block table */
static unsigned char BV[NB * 64];
static struct snapraid_file FSRC;
struct snapraid_block *fs_file2block_get(struct snapraid_file *file, block_off_t pos)
{
	VERIF_ASSERT(pos < file->blockmax, "block index below blockmax");
	return (struct snapraid_block *)(BV + pos * 64);
}
block_off_t fs_file2par_find(struct snapraid_disk *disk, struct snapraid_file *file, block_off_t pos)
{
	(void)disk; (void)file;
	return IN.mapped[pos < NB ? pos : 0] ? pos + 10 : POS_NULL;
}
static snapraid_info v_info_get(tommy_arrayblkof *array, block_off_t pos)
{
	(void)array;
	VERIF_ASSERT(pos >= 10 && pos < 10 + NB, "info looked up for a mapped position only");
	return info_make(8, 0, IN.rehash[pos - 10] != 0, 0);
}

/* ---------------------------------------------------------------- the REAL scan.c (struct snapraid_scan, file_is_full_hashed_and_stable) */
#define exit verif_exit
#define info_get v_info_get
#include "cmdline/scan.c"
#undef info_get

/* ---------------------------------------------------------------- recording stubs for the callees of scan_file */
static struct snapraid_disk DISK0, DISK1;
static struct snapraid_file FA, FB, FNEW, FS0, FS1;
static struct snapraid_file *const FS[2] = { &FS0, &FS1 };
static struct snapraid_state ST;
static struct snapraid_scan SC;
static char SUB[] = "a", OTHER[] = "b";

static unsigned g_search_inode, g_search_path, g_search_stamp[2];
static void *v_search(tommy_hashdyn *h, tommy_search_func *cmp, const void *arg, tommy_hash_t hash)
{
	(void)hash;
	if (h == &DISK0.inodeset) {
		++g_search_inode;
		VERIF_ASSERT(cmp == file_inode_compare_to_arg && *(const uint64_t *)arg == (uint64_t)IN.e_ino, "the inode index is searched for the inode of the entry");
		return IN.by_inode ? &FA : 0;
	}
	if (h == &DISK0.pathset) {
		++g_search_path;
		VERIF_ASSERT(cmp == file_path_compare_to_arg && arg == (const void *)SUB, "the path index is searched for the path of the entry");
		return IN.path_result == 1 ? &FA : IN.path_result == 2 ? &FB : 0;
	}
	{
		int d = h == &DISK0.stampset ? 0 : 1;
		int usable_nsec = IN.e_nsec != 0 && IN.e_nsec != STAT_NSEC_INVALID;
		VERIF_ASSERT(h == &DISK0.stampset || h == &DISK1.stampset, "only the three indexes of a disk are searched");
		VERIF_ASSERT(arg == (const void *)&FNEW, "copies are looked up for the new file");
		VERIF_ASSERT(cmp == (usable_nsec ? file_namestamp_compare : file_pathstamp_compare),
			"a copy is identified by name + size + time-stamp only with a usable sub-second time-stamp, else by whole path + size + time-stamp");
		++g_search_stamp[d];
		return IN.stamp_hit[d] ? FS[d] : 0;
	}
}
static unsigned g_ins_inode, g_ins_path, g_rem_inode, g_rem_path;
static void v_insert(tommy_hashdyn *h, tommy_hashdyn_node *node, void *data, tommy_hash_t hash)
{
	(void)node; (void)data; (void)hash;
	if (h == &DISK0.inodeset) ++g_ins_inode; else if (h == &DISK0.pathset) ++g_ins_path; else VERIF_ASSERT(0, "insert into an unexpected index");
}
static void *v_remove_existing(tommy_hashdyn *h, tommy_hashdyn_node *node)
{
	(void)node;
	if (h == &DISK0.inodeset) ++g_rem_inode; else if (h == &DISK0.pathset) ++g_rem_path; else VERIF_ASSERT(0, "remove from an unexpected index");
	return 0;
}
static unsigned g_link_calls, g_link_flag;
static const char *g_link_to;
static void v_scan_link(struct snapraid_scan *scan, int is_diff, const char *sub, const char *linkto, unsigned link_flag)
{
	(void)scan; (void)is_diff; (void)sub;
	++g_link_calls; g_link_flag = link_flag; g_link_to = linkto;
}
static unsigned g_keep_calls, g_remove_calls, g_finsert_calls, g_alloc_calls, g_copy_calls, g_rename_calls;
static struct snapraid_file *g_kept, *g_removed, *g_finserted, *g_copy_src, *g_copy_dst;
static void v_keep(struct snapraid_scan *scan, struct snapraid_file *file) { (void)scan; ++g_keep_calls; g_kept = file; }
static void v_remove(struct snapraid_scan *scan, struct snapraid_file *file) { (void)scan; ++g_remove_calls; g_removed = file; }
static void v_refresh(struct snapraid_scan *scan, const char *sub, struct stat *st, uint64_t *physical) { (void)scan; (void)sub; (void)st; (void)physical; }
static void v_finsert(struct snapraid_scan *scan, struct snapraid_file *file) { (void)scan; ++g_finsert_calls; g_finserted = file; }
static struct snapraid_file *v_file_alloc(unsigned block_size, const char *sub, data_off_t size, uint64_t mtime_sec, int mtime_nsec, uint64_t inode, uint64_t physical)
{
	(void)block_size; (void)physical;
	++g_alloc_calls;
	FNEW.sub = (char *)sub;
	FNEW.size = size;
	FNEW.mtime_sec = mtime_sec;
	FNEW.mtime_nsec = mtime_nsec;
	FNEW.inode = inode;
	FNEW.flag = 0;
	FNEW.blockmax = 0;
	return &FNEW;
}
static void v_file_copy(struct snapraid_file *src, struct snapraid_file *dst) { ++g_copy_calls; g_copy_src = src; g_copy_dst = dst; }
static void v_file_rename(struct snapraid_file *file, const char *sub) { ++g_rename_calls; file->sub = (char *)sub; }
static int v_full_hashed(struct snapraid_state *state, struct snapraid_disk *disk, struct snapraid_file *file)
{
	(void)state;
	VERIF_ASSERT((disk == &DISK0 && file == &FS0) || (disk == &DISK1 && file == &FS1), "the candidate source is judged on its own disk");
	return IN.full_hashed[disk == &DISK0 ? 0 : 1] != 0;
}
static const char *v_esc(const char *str, char *buffer) { (void)buffer; return str; }
static const char *v_fmt(const struct snapraid_disk *disk, const char *str, char *buffer) { (void)disk; (void)buffer; return str; }
static void v_nolock(struct snapraid_disk *disk) { (void)disk; }

#define tommy_hashdyn_search v_search
#define tommy_hashdyn_insert v_insert
#define tommy_hashdyn_remove_existing v_remove_existing
#define scan_link v_scan_link
#define scan_file_keep v_keep
#define scan_file_remove v_remove
#define scan_file_refresh v_refresh
#define scan_file_insert v_finsert
#define file_alloc v_file_alloc
#define file_copy v_file_copy
#define file_rename v_file_rename
#define file_is_full_hashed_and_stable v_full_hashed
#define esc_tag v_esc
#define fmt_term v_fmt
#define fmt_poll v_fmt
#define stamp_lock v_nolock
#define stamp_unlock v_nolock
#include "region_scan_file.c"
#undef tommy_hashdyn_search
#undef tommy_hashdyn_insert
#undef tommy_hashdyn_remove_existing
#undef scan_link
#undef scan_file_keep
#undef scan_file_remove
#undef scan_file_refresh
#undef scan_file_insert
#undef file_alloc
#undef file_copy
#undef file_rename
#undef file_is_full_hashed_and_stable
#undef esc_tag
#undef fmt_term
#undef fmt_poll
#undef stamp_lock
#undef stamp_unlock
#undef exit

static int same_stamp(int64_t size, int64_t mtime, int nsec)
{
	return size == IN.e_size && mtime == IN.e_mtime && (nsec == IN.e_nsec || nsec == STAT_NSEC_INVALID);
}

void h_scan_file(void)
{
	struct stat st;
	int has_past_inodes, a_match, a_present, b_match, kept_a, kept_b, hardlink, is_new, old_by_path, copy_from, d;
	unsigned counters;
	VERIF_INPUTS();
	memset(&st, 0, sizeof(st));
	/* ---- the directory entry */
	VERIF_ASSUME(IN.e_size >= 0);
	VERIF_ASSUME((IN.e_nsec >= 0 && IN.e_nsec < 1000000000) || IN.e_nsec == STAT_NSEC_INVALID);
	st.st_size = IN.e_size;
	st.st_mtime = IN.e_mtime;
	st.st_mtim.tv_nsec = IN.e_nsec == STAT_NSEC_INVALID ? 0 : IN.e_nsec;
	VERIF_ASSUME(IN.e_nsec != STAT_NSEC_INVALID); /* this platform always delivers nanoseconds */
	st.st_ino = IN.e_ino;
	st.st_nlink = IN.e_nlink;
	/* ---- disk, options */
	DISK0.has_volatile_inodes = IN.volatile_inodes != 0;
	DISK0.has_different_uuid = IN.different_uuid != 0;
	DISK0.has_unsupported_uuid = IN.unsupported_uuid != 0;
	DISK0.has_volatile_hardlinks = IN.volatile_hardlinks != 0;
	has_past_inodes = !IN.volatile_inodes && !IN.different_uuid && !IN.unsupported_uuid;
	ST.opt.force_zero = IN.force_zero != 0;
	ST.opt.force_nocopy = IN.force_nocopy != 0;
	ST.opt.gui = IN.gui != 0;
	ST.command = "sync";
	ST.block_size = 256;
	tommy_list_init(&ST.disklist);
	tommy_list_insert_tail(&ST.disklist, &DISK0.node, &DISK0);
	tommy_list_insert_tail(&ST.disklist, &DISK1.node, &DISK1);
	SC.state = &ST;
	SC.disk = &DISK0;
	SC.is_diff = IN.is_diff;
	SC.count_equal = SC.count_move = SC.count_restore = SC.count_change = SC.count_insert = SC.count_copy = SC.count_remove = 0;
	/* ---- the indexes, consistent with each other */
	VERIF_ASSUME(IN.path_result >= 0 && IN.path_result <= 2);
	FA.size = IN.a_size; FA.mtime_sec = IN.a_mtime; FA.mtime_nsec = IN.a_nsec; FA.flag = IN.a_flag & (FILE_IS_PRESENT); FA.inode = IN.e_ino;
	FA.sub = IN.a_same_path ? SUB : OTHER;
	FB.size = IN.b_size; FB.mtime_sec = IN.b_mtime; FB.mtime_nsec = IN.b_nsec; FB.flag = IN.b_flag & (FILE_IS_WITHOUT_INODE); FB.inode = IN.b_inode;
	FB.sub = SUB;
	VERIF_ASSUME(IN.a_size >= 0 && IN.b_size >= 0);
	a_present = (FA.flag & FILE_IS_PRESENT) != 0;
	/* without usable past inodes the inode index only holds files seen in this scan */
	if (IN.by_inode && !has_past_inodes)
		VERIF_ASSUME(a_present);
	/* the path index returns the file of that path: the one found by inode iff it has this path */
	if (IN.by_inode)
		VERIF_ASSUME((IN.path_result == 1) == (IN.a_same_path != 0));
	else
		VERIF_ASSUME(IN.path_result != 1);
	/* a path is met once per scan: the file of this path was not seen yet */
	if (IN.by_inode && IN.a_same_path)
		VERIF_ASSUME(!a_present);
	/* another file with this path has another inode (or lost it) */
	if (!(FB.flag & FILE_IS_WITHOUT_INODE))
		VERIF_ASSUME(IN.b_inode != IN.e_ino);
	/* two present files with one inode and one link count cannot exist */
	if (IN.by_inode && a_present)
		VERIF_ASSUME(IN.volatile_hardlinks || IN.e_nlink != 1);
	for (d = 0; d < 2; ++d) {
		FS[d]->size = IN.e_size; FS[d]->mtime_sec = IN.e_mtime; FS[d]->mtime_nsec = IN.e_nsec; FS[d]->sub = OTHER;
	}
	g_exit_calls = 0;

	/* ---- what the statement asks for */
	a_match = IN.by_inode && same_stamp(IN.a_size, IN.a_mtime, IN.a_nsec);
	hardlink = IN.by_inode && a_present;               /* a second name of a file already seen (by inode) */
	kept_a = a_match && !a_present;
	/* the by-path lookup happens only when the inode lookup did not settle the entry */
	old_by_path = !kept_a && !hardlink && IN.path_result != 0;
	b_match = old_by_path && (IN.path_result == 1 ? same_stamp(IN.a_size, IN.a_mtime, IN.a_nsec) : same_stamp(IN.b_size, IN.b_mtime, IN.b_nsec));
	kept_b = b_match;
	is_new = !kept_a && !hardlink && !kept_b;
	g_refusal_due = is_new && old_by_path && (IN.path_result == 1 ? IN.a_size : IN.b_size) != 0 && IN.e_size == 0 && !IN.force_zero && !IN.is_diff;

	region_scan_file(&SC, IN.is_diff, SUB, &st, 0);

	VERIF_ASSERT(!g_refusal_due, "sync refuses when a previously non-empty file now has zero size (unless --force-zero)");
	counters = SC.count_equal + SC.count_move + SC.count_restore + SC.count_change + SC.count_insert + SC.count_copy;
	if (hardlink) {
		VERIF_ASSERT(g_link_calls == 1 && g_link_flag == FILE_IS_HARDLINK && g_link_to == FA.sub, "a second name of an inode already seen is recorded as a hard link to the first");
		VERIF_ASSERT(counters == 0 && g_alloc_calls == 0 && g_keep_calls == 0 && g_remove_calls == 0 && g_finsert_calls == 0, "and nothing else happens for it");
	} else if (kept_a) {
		VERIF_ASSERT(g_keep_calls == 1 && g_kept == &FA && g_alloc_calls == 0 && g_remove_calls == 0 && g_finsert_calls == 0 && g_copy_calls == 0,
			"a file keeping inode, size and time-stamp keeps its object: blocks, hashes and parity positions");
		VERIF_ASSERT(FA.flag & FILE_IS_PRESENT, "and is marked present");
		VERIF_ASSERT(counters == 1 && (IN.a_same_path ? SC.count_equal == 1 : SC.count_move == 1), "it is counted as equal, or as moved when its path changed");
		if (!IN.a_same_path)
			VERIF_ASSERT(g_rename_calls == 1 && FA.sub == SUB && g_rem_path == 1 && g_ins_path == 1, "a moved file is re-indexed under its new path");
	} else if (kept_b) {
		struct snapraid_file *f = IN.path_result == 1 ? &FA : &FB;
		VERIF_ASSERT(g_keep_calls == 1 && g_kept == f && g_alloc_calls == 0 && g_remove_calls == 0 && g_finsert_calls == 0 && g_copy_calls == 0,
			"a file keeping path, size and time-stamp keeps its object");
		VERIF_ASSERT((f->flag & FILE_IS_PRESENT) && !(f->flag & FILE_IS_WITHOUT_INODE), "it is marked present");
		if (has_past_inodes || IN.path_result == 1 || (IN.b_flag & FILE_IS_WITHOUT_INODE))
			VERIF_ASSERT(f->inode == IN.e_ino, "and, where inodes are persistent, carries the inode it has now");
		VERIF_ASSERT(counters == 1 && (has_past_inodes ? SC.count_restore == 1 : SC.count_equal == 1), "it is counted as restored (inode changed) or, without persistent inodes, as equal");
	} else {
		copy_from = -1;
		if (!IN.force_nocopy)
			for (d = 1; d >= 0; --d)
				if (IN.stamp_hit[d] && IN.full_hashed[d])
					copy_from = d; /* the first disk in list order */
		VERIF_ASSERT(g_alloc_calls == 1 && g_finsert_calls == 1 && g_finserted == &FNEW, "any other entry becomes a NEW file object (nothing of an old one is trusted)");
		VERIF_ASSERT(FNEW.size == IN.e_size && FNEW.mtime_sec == IN.e_mtime && FNEW.mtime_nsec == IN.e_nsec && FNEW.inode == IN.e_ino && (FNEW.flag & FILE_IS_PRESENT),
			"with the size, time-stamp and inode of the entry, marked present");
		if (old_by_path)
			VERIF_ASSERT(g_remove_calls == 1 && g_removed == (IN.path_result == 1 ? &FA : &FB), "the recorded file of that path is removed (its blocks become deleted blocks)");
		else
			VERIF_ASSERT(g_remove_calls == 0, "nothing is removed for a new path");
		if (copy_from >= 0)
			VERIF_ASSERT(g_copy_calls == 1 && g_copy_src == FS[copy_from] && g_copy_dst == &FNEW && SC.count_copy == 1 && counters == 1,
				"hashes are inherited from the first fully hashed file with the same name/path, size and time-stamp, and counted as a copy");
		else
			VERIF_ASSERT(g_copy_calls == 0 && counters == 1 && (old_by_path ? SC.count_change == 1 : SC.count_insert == 1),
				"without such a source no hash is inherited: the entry is a change (path known) or an insert");
	}
	if (IN.force_nocopy)
		VERIF_ASSERT(g_copy_calls == 0 && g_search_stamp[0] + g_search_stamp[1] == 0, "--force-nocopy disables copy detection");
	VERIF_CANARY();
}

/* ---------------------------------------------------------------- file_is_full_hashed_and_stable (REAL) */
void h_full_hashed(void)
{
	block_off_t i;
	int want = 1, r;
	VERIF_INPUTS();
	VERIF_ASSUME(IN.blockmax <= NB);
	FSRC.blockmax = IN.blockmax;
	FSRC.blockvec = (struct snapraid_block *)BV;
	if (IN.blockmax == 0)
		want = 0;
	for (i = 0; i < NB; ++i)
		if (i < IN.blockmax) {
			VERIF_ASSUME(IN.bstate[i] == BLOCK_STATE_BLK || IN.bstate[i] == BLOCK_STATE_CHG || IN.bstate[i] == BLOCK_STATE_REP || IN.bstate[i] == BLOCK_STATE_DELETED);
			block_state_set((struct snapraid_block *)(BV + i * 64), IN.bstate[i]);
			if (!(IN.bstate[i] == BLOCK_STATE_BLK || IN.bstate[i] == BLOCK_STATE_REP))
				want = 0; /* no up-to-date hash */
			if (IN.mapped[i] && IN.rehash[i])
				want = 0; /* hash of the previous kind */
		}
	r = file_is_full_hashed_and_stable(&ST, &DISK0, &FSRC);
	VERIF_ASSERT(r == want, "a file is a source of inherited hashes only if it has blocks, every block has an up-to-date hash (BLK or REP) and none awaits a rehash");
	VERIF_CANARY();
}


/* ---------------------------------------------------------------- scan_emptydir (whole body extracted) */
#ifdef VERIF_EMPTYDIR
static struct snapraid_dir DIR0, DIRNEW;
static unsigned g_dir_alloc;
static void *d_search(tommy_hashdyn *h, tommy_search_func *cmp, const void *arg, tommy_hash_t hash)
{
	(void)cmp; (void)hash;
	VERIF_ASSERT(h == &DISK0.dirset && arg == (const void *)SUB, "the directory index of the disk is searched for this path");
	return IN.dir_found ? &DIR0 : 0;
}
static struct snapraid_dir *d_alloc(const char *sub) { ++g_dir_alloc; DIRNEW.sub = (char *)sub; DIRNEW.flag = 0; return &DIRNEW; }
#define tommy_hashdyn_search d_search
#define dir_alloc d_alloc
#include "region_scan_emptydir.c"
#undef tommy_hashdyn_search
#undef dir_alloc

void h_scan_emptydir(void)
{
	VERIF_INPUTS();
	SC.state = &ST;
	SC.disk = &DISK0;
	SC.count_equal = IN.cnt[0]; SC.count_move = IN.cnt[1]; SC.count_restore = IN.cnt[2]; SC.count_change = IN.cnt[3];
	SC.count_remove = IN.cnt[4]; SC.count_insert = IN.cnt[5]; SC.count_copy = IN.cnt[6];
	tommy_list_init(&SC.dir_insert_list);
	DIR0.sub = SUB;
	DIR0.flag = 0; /* a path is met once per scan */
	g_dir_alloc = 0;
	region_scan_emptydir(&SC, SUB);
	VERIF_ASSERT(SC.count_equal == IN.cnt[0] && SC.count_move == IN.cnt[1] && SC.count_restore == IN.cnt[2] && SC.count_change == IN.cnt[3]
		&& SC.count_remove == IN.cnt[4] && SC.count_insert == IN.cnt[5] && SC.count_copy == IN.cnt[6],
		"an empty directory is neither a file nor a link: it takes no part in the change counters (empty-disk interlock, verdict of diff)");
	if (IN.dir_found)
		VERIF_ASSERT((DIR0.flag & FILE_IS_PRESENT) && g_dir_alloc == 0 && tommy_list_empty(&SC.dir_insert_list), "a recorded directory met again is marked present, nothing is inserted");
	else
		VERIF_ASSERT(g_dir_alloc == 1 && (DIRNEW.flag & FILE_IS_PRESENT) && tommy_list_head(&SC.dir_insert_list) == &DIRNEW.nodelist && DIRNEW.nodelist.next == 0,
			"a new empty directory is recorded once, marked present");
	VERIF_CANARY();
}
#endif


/* ---------------------------------------------------------------- scan_link (whole body extracted): symbolic links and hard links */
#ifdef VERIF_SCANLINK
static struct snapraid_link LNK0, LNKNEW;
static unsigned g_link_alloc;
static char TGT_A[] = "x", TGT_B[] = "y";
static void *l_search(tommy_hashdyn *h, tommy_search_func *cmp, const void *arg, tommy_hash_t hash)
{
	(void)cmp; (void)hash;
	VERIF_ASSERT(h == &DISK0.linkset && arg == (const void *)SUB, "the link index of the disk is searched for this path");
	return IN.link_found ? &LNK0 : 0;
}
static struct snapraid_link *l_alloc(const char *sub, const char *linkto, unsigned link_flag) { ++g_link_alloc; LNKNEW.sub = (char *)sub; LNKNEW.linkto = (char *)linkto; LNKNEW.flag = link_flag; return &LNKNEW; }
static char *l_strdup(const char *s) { return (char *)s; }
static void l_free(void *p) { (void)p; }
#define tommy_hashdyn_search l_search
#define link_alloc l_alloc
#define strdup_nofail l_strdup
#define free l_free
#define esc_tag v_esc
#define fmt_term v_fmt
#include "region_scan_link.c"
#undef tommy_hashdyn_search
#undef link_alloc
#undef strdup_nofail
#undef free
#undef esc_tag
#undef fmt_term

void h_scan_link(void)
{
	unsigned now_kind, rec_kind, total0, total1;
	int unchanged;
	VERIF_INPUTS();
	now_kind = IN.lkind_now ? FILE_IS_HARDLINK : FILE_IS_SYMLINK;
	rec_kind = IN.lkind_rec ? FILE_IS_HARDLINK : FILE_IS_SYMLINK;
	SC.state = &ST;
	SC.disk = &DISK0;
	SC.need_write = 0;
	SC.count_equal = IN.cnt[0] % 1000; SC.count_move = IN.cnt[1] % 1000; SC.count_restore = IN.cnt[2] % 1000; SC.count_change = IN.cnt[3] % 1000;
	SC.count_remove = IN.cnt[4] % 1000; SC.count_insert = IN.cnt[5] % 1000; SC.count_copy = IN.cnt[6] % 1000;
	total0 = SC.count_equal + SC.count_move + SC.count_restore + SC.count_change + SC.count_remove + SC.count_insert + SC.count_copy;
	tommy_list_init(&SC.link_insert_list);
	LNK0.sub = SUB;
	LNK0.linkto = TGT_A;
	LNK0.flag = rec_kind; /* not present yet: a path is met once per scan */
	g_link_alloc = 0;
	region_scan_link(&SC, IN.is_diff, SUB, IN.same_target ? TGT_A : TGT_B, now_kind);
	total1 = SC.count_equal + SC.count_move + SC.count_restore + SC.count_change + SC.count_remove + SC.count_insert + SC.count_copy;
	unchanged = IN.same_target && now_kind == rec_kind;
	VERIF_ASSERT(total1 == total0 + 1, "exactly one change counter per link");
	if (!IN.link_found)
		VERIF_ASSERT(SC.count_insert == IN.cnt[5] % 1000 + 1 && g_link_alloc == 1 && (LNKNEW.flag & FILE_IS_PRESENT) && LNKNEW.linkto == (IN.same_target ? TGT_A : TGT_B) && tommy_list_head(&SC.link_insert_list) == &LNKNEW.nodelist,
			"a new link is added with the target it has now");
	else if (unchanged)
		VERIF_ASSERT(SC.count_equal == IN.cnt[0] % 1000 + 1 && (LNK0.flag & FILE_IS_PRESENT) && LNK0.linkto == TGT_A && g_link_alloc == 0 && !SC.need_write, "a link with the recorded target and kind is equal");
	else
		VERIF_ASSERT(SC.count_change == IN.cnt[3] % 1000 + 1 && (LNK0.flag & FILE_IS_PRESENT) && SC.need_write && LNK0.linkto == (IN.same_target ? TGT_A : TGT_B) && (LNK0.flag & FILE_IS_LINK_MASK) == now_kind,
			"a link whose target or kind changed is an update: the record takes the new target and kind and must be saved");
	VERIF_CANARY();
}
#endif


/* ---------------------------------------------------------------- removal detection (state_diffscan, region "check for removed files" .. "sort the files") */
#ifdef VERIF_REMOVED
static struct snapraid_file RF0, RF1, RF2;
static struct snapraid_link RL0, RL1, RL2;
static struct snapraid_dir RD0, RD1, RD2;
static struct snapraid_file *const RF[3] = { &RF0, &RF1, &RF2 };
static struct snapraid_link *const RL[3] = { &RL0, &RL1, &RL2 };
static struct snapraid_dir *const RD[3] = { &RD0, &RD1, &RD2 };
static unsigned g_rm_f[3], g_rm_l[3], g_rm_d[3];
static void r_file_remove(struct snapraid_scan *scan, struct snapraid_file *f) { int k; (void)scan; for (k = 0; k < 3; ++k) if (f == RF[k]) ++g_rm_f[k]; }
static void r_link_remove(struct snapraid_scan *scan, struct snapraid_link *l) { int k; (void)scan; for (k = 0; k < 3; ++k) if (l == RL[k]) ++g_rm_l[k]; }
static void r_dir_remove(struct snapraid_scan *scan, struct snapraid_dir *d) { int k; (void)scan; for (k = 0; k < 3; ++k) if (d == RD[k]) ++g_rm_d[k]; }
#define scan_file_remove r_file_remove
#define scan_link_remove r_link_remove
#define scan_emptydir_remove r_dir_remove
#define esc_tag v_esc
#define fmt_term v_fmt
#include "region_scan_removed.c"
#undef scan_file_remove
#undef scan_link_remove
#undef scan_emptydir_remove
#undef esc_tag
#undef fmt_term

void h_scan_removed(void)
{
	int k;
	unsigned expect_remove = 0;
	VERIF_INPUTS();
	VERIF_ASSUME(IN.nf >= 0 && IN.nf <= 3 && IN.nl >= 0 && IN.nl <= 3 && IN.nd_ >= 0 && IN.nd_ <= 3);
	SC.state = &ST;
	SC.disk = &DISK0;
	SC.count_remove = 0;
	tommy_list_init(&DISK0.filelist);
	tommy_list_init(&DISK0.linklist);
	tommy_list_init(&DISK0.dirlist);
	for (k = 0; k < 3; ++k) {
		RF[k]->sub = SUB; RL[k]->sub = SUB; RD[k]->sub = SUB;
		RF[k]->flag = IN.npresent_f[k] ? 0 : FILE_IS_PRESENT;
		RL[k]->flag = IN.npresent_l[k] ? 0 : FILE_IS_PRESENT;
		RD[k]->flag = IN.npresent_d[k] ? 0 : FILE_IS_PRESENT;
		g_rm_f[k] = g_rm_l[k] = g_rm_d[k] = 0;
		if (k < IN.nf) { tommy_list_insert_tail(&DISK0.filelist, &RF[k]->nodelist, RF[k]); if (IN.npresent_f[k]) ++expect_remove; }
		if (k < IN.nl) { tommy_list_insert_tail(&DISK0.linklist, &RL[k]->nodelist, RL[k]); if (IN.npresent_l[k]) ++expect_remove; }
		if (k < IN.nd_) tommy_list_insert_tail(&DISK0.dirlist, &RD[k]->nodelist, RD[k]);
	}
	region_scan_removed(&SC, &DISK0, IN.is_diff);
	for (k = 0; k < 3; ++k) {
		VERIF_ASSERT(g_rm_f[k] == ((k < IN.nf && IN.npresent_f[k]) ? 1u : 0u), "exactly the recorded files the walk did not meet are removed, each once");
		VERIF_ASSERT(g_rm_l[k] == ((k < IN.nl && IN.npresent_l[k]) ? 1u : 0u), "exactly the recorded links the walk did not meet are removed, each once");
		VERIF_ASSERT(g_rm_d[k] == ((k < IN.nd_ && IN.npresent_d[k]) ? 1u : 0u), "exactly the recorded empty directories the walk did not meet are removed, each once");
	}
	VERIF_ASSERT(SC.count_remove == expect_remove, "every removed file and link is counted as removed (empty directories are not counted)");
	VERIF_CANARY();
}
#endif

#include "verif_tail.h"
