/*
 * Per-stripe decisions of sync (cmdline/sync.c, REAL code included below; the completion step is a mechanically
 * extracted region of state_sync_process()).
 *
 *  block_is_enabled     a stripe is processed iff some disk has a file block there AND (some block there has invalid
 *                       parity OR a full rebuild is forced)                 (fs_par2block_find replaced by contract)
 *  region sync_complete blocks are recorded as synced (BLK) and deleted blocks released ONLY when every block of the
 *                       stripe was read without error and without I/O error and any silent error was fixed in memory;
 *                       exactly then, and only if some block had invalid parity, the parity is recomputed from the
 *                       buffers (raid_gen) and scheduled for writing; the time is refreshed only then and only without
 *                       silent error; a silent or I/O error always leaves the stripe marked bad
 */
#include "portable.h"
#include "support.h"
#include "elem.h"
#include "state.h"
#include "parity.h"
#include "handle.h"
#include "io.h"
#include "raid/raid.h"
#include "verif.h"

#ifndef ND
#define ND 3
#endif

struct verif_in {
	int has_disk[ND];
	unsigned bstate[ND];   /* state of the block each disk has at this position, BLOCK_STATE_EMPTY == no block */
	int force_full;
	int error, io_error, silent, fixed, needs, rehash;
	snapraid_info info;
	time_t now;
	block_off_t pos;
	int has_rehandle[ND];
	/* hash region */
	unsigned char digest_cur[HASH_MAX], digest_prev[HASH_MAX], recorded[HASH_MAX];
	int hash_size, is_copy;
	unsigned one_state;
	/* writer errors region */
	int werr[IO_WRITER_ERROR_MAX];
	unsigned io_limit;
	/* fix-check region */
	unsigned fcount, fsize[ND];
	int fixok[ND];
	unsigned char fbuf[ND][8], fcopy[ND][8];
};
VERIF_DECLARE_IN

static struct snapraid_disk D[3];
/* three separate 1-D objects (never rows of a 2-D array: cbmc defect of DESIGN 2.3, and 30x faster) */
static unsigned char BLKMEM0[sizeof(struct snapraid_block) + HASH_MAX], BLKMEM1[sizeof(struct snapraid_block) + HASH_MAX], BLKMEM2[sizeof(struct snapraid_block) + HASH_MAX];
static unsigned char *const BLKMEM[3] = { BLKMEM0, BLKMEM1, BLKMEM2 };
static struct snapraid_block *G_BLK[3];

static unsigned g_dealloc_calls, g_dealloc_mask, g_gen_calls, g_set_calls;
static snapraid_info g_set_info[3];
static block_off_t g_find_pos, g_dealloc_pos;

struct snapraid_block *fs_par2block_find(struct snapraid_disk *disk, block_off_t parity_pos)
__CPROVER_requires(disk == &D[0] || disk == &D[1] || disk == &D[2])
__CPROVER_ensures(__CPROVER_return_value == G_BLK[disk - &D[0]] && g_find_pos == parity_pos)
__CPROVER_assigns(g_find_pos);

void fs_deallocate(struct snapraid_disk *disk, block_off_t pos)
__CPROVER_requires(disk == &D[0] || disk == &D[1] || disk == &D[2])
__CPROVER_ensures(g_dealloc_calls == __CPROVER_old(g_dealloc_calls) + 1 && g_dealloc_pos == pos)
__CPROVER_ensures(g_dealloc_mask == (__CPROVER_old(g_dealloc_mask) | (1u << (disk - &D[0]))))
__CPROVER_assigns(g_dealloc_calls, g_dealloc_mask, g_dealloc_pos);

void raid_gen(int nd, int np, size_t size, void **v)
__CPROVER_ensures(g_gen_calls == __CPROVER_old(g_gen_calls) + 1)
__CPROVER_assigns(g_gen_calls);

static inline void info_set(tommy_arrayblkof *array, block_off_t pos, snapraid_info info)
__CPROVER_requires(g_set_calls < 3)
__CPROVER_ensures(g_set_info[__CPROVER_old(g_set_calls)] == info && g_set_calls == __CPROVER_old(g_set_calls) + 1)
__CPROVER_assigns(g_set_calls, g_set_info[g_set_calls]);

static const void *G_FIXBUF[3];
static int G_FIXOK[3];
/* ghost: memhash by contract - an arbitrary digest per hash kind */
static unsigned char G_DIGEST_CUR[HASH_MAX], G_DIGEST_PREV[HASH_MAX];
static unsigned g_hash_calls, g_hash_kinds;
static const void *g_hash_src;
static size_t g_hash_size;
#ifdef VERIF_CBMC
void memhash(unsigned kind, const unsigned char *seed, void *digest, const void *src, size_t size)
{
	int k;
	(void)seed;
	++g_hash_calls;
	g_hash_kinds |= 1u << kind;
	g_hash_src = src;
	g_hash_size = size;
	for (k = 0; k < HASH_MAX; ++k)
		((unsigned char *)digest)[k] = kind == HASH_SPOOKY2 ? G_DIGEST_PREV[k] : G_DIGEST_CUR[k];
	/* fix-check region: the digest of the block recovered into buffer j matches its record iff IN.fixok[j] */
	for (k = 0; k < ND; ++k)
		if (G_FIXBUF[k] != 0 && src == G_FIXBUF[k]) {
			int q;
			for (q = 0; q < HASH_MAX; ++q)
				((unsigned char *)digest)[q] = (unsigned char)(0x40 + k * 16 + q + (G_FIXOK[k] ? 0 : 1));
		}
}
unsigned memdiff(const unsigned char *a, const unsigned char *b, size_t n) { (void)a; (void)b; (void)n; return 1; }
const char *esc_tag(const char *str, char *buffer) { (void)buffer; return str; }
void log_error(const char *format, ...) { (void)format; }
void state_usage_hash(struct snapraid_state *state) { (void)state; }
#endif

#ifdef VERIF_CBMC
void log_tag(const char *format, ...) { (void)format; }
void log_fatal(const char *format, ...) { (void)format; }
void state_usage_raid(struct snapraid_state *state) { (void)state; }
#endif

/* the REAL translation unit */
#include "cmdline/sync.c"

#include "region_sync_complete.c"

static void setup(struct snapraid_handle *handle)
{
	unsigned j;
	for (j = 0; j < ND; ++j) {
		struct snapraid_block *b = (struct snapraid_block *)BLKMEM[j];
		VERIF_ASSUME(IN.bstate[j] == BLOCK_STATE_EMPTY || IN.bstate[j] == BLOCK_STATE_BLK || IN.bstate[j] == BLOCK_STATE_CHG
			|| IN.bstate[j] == BLOCK_STATE_REP || IN.bstate[j] == BLOCK_STATE_DELETED);
		handle[j].disk = IN.has_disk[j] ? &D[j] : 0;
		b->state = IN.bstate[j];
		G_BLK[j] = IN.bstate[j] == BLOCK_STATE_EMPTY ? BLOCK_NULL : b;
	}
}

void h_block_is_enabled(void)
{
	static struct snapraid_handle handle[ND];
	struct snapraid_plan plan;
	unsigned j;
	int r, one_valid = 0, one_invalid = 0;
	VERIF_INPUTS();
	setup(handle);
	plan.handle_max = ND;
	plan.handle_map = handle;
	plan.force_full = IN.force_full;
#ifdef VERIF_NATIVE
	exit(77);
#endif
	r = block_is_enabled(&plan, IN.pos);
	for (j = 0; j < ND; ++j)
		if (IN.has_disk[j]) {
			unsigned s = IN.bstate[j];
			one_valid |= s == BLOCK_STATE_BLK || s == BLOCK_STATE_CHG || s == BLOCK_STATE_REP;
			one_invalid |= s == BLOCK_STATE_DELETED || s == BLOCK_STATE_CHG || s == BLOCK_STATE_REP || IN.force_full != 0;
		}
	VERIF_ASSERT(r == (one_valid && one_invalid), "sync processes a stripe iff it holds a file block and (a block with invalid parity or a forced full rebuild)");
	VERIF_CANARY();
}

void h_sync_complete(void)
{
	static struct snapraid_state st;
	static struct snapraid_handle handle[ND];
	struct snapraid_rehash rh[ND];
	void *buffer[ND + LEV_MAX];
	int parity_going = 0, ok, k;
	unsigned j;
	unsigned char oldhash[ND][HASH_MAX];
	VERIF_INPUTS();
	setup(handle);
	BLOCK_HASH_SIZE = 16;
	st.level = 2;
	st.block_size = 8;
	for (j = 0; j < ND; ++j) {
		struct snapraid_block *b = (struct snapraid_block *)BLKMEM[j];
		for (k = 0; k < HASH_MAX; ++k) {
			oldhash[j][k] = b->hash[k] = (unsigned char)(j * 16 + k);
			rh[j].hash[k] = (unsigned char)(0x80 + j * 16 + k);
		}
		rh[j].block = (IN.has_rehandle[j] && G_BLK[j]) ? G_BLK[j] : 0;
	}
	g_dealloc_calls = g_dealloc_mask = g_gen_calls = g_set_calls = 0;
#ifdef VERIF_NATIVE
	exit(77);
#endif
	region_sync_complete(&st, handle, ND, IN.pos, IN.error != 0, IN.io_error != 0, IN.silent != 0, IN.fixed != 0, IN.needs != 0,
		&parity_going, IN.rehash != 0, rh, buffer, IN.info, IN.now);

	ok = !IN.error && !IN.io_error && (!IN.silent || IN.fixed);
	for (j = 0; j < ND; ++j) {
		struct snapraid_block *b = (struct snapraid_block *)BLKMEM[j];
		unsigned s0 = IN.bstate[j];
		int touched = ok && IN.has_disk[j] && s0 != BLOCK_STATE_EMPTY;
		if (touched && s0 == BLOCK_STATE_DELETED) {
			VERIF_ASSERT((g_dealloc_mask >> j) & 1, "a deleted block is released once its stripe is complete");
			VERIF_ASSERT(b->state == s0, "a released block is not recorded as synced");
		} else {
			VERIF_ASSERT(!((g_dealloc_mask >> j) & 1), "nothing is released unless the stripe is complete and the block deleted");
			VERIF_ASSERT(b->state == (touched ? (unsigned)BLOCK_STATE_BLK : s0), "a block is recorded as synced iff its stripe completed without error");
		}
	}
	VERIF_ASSERT(g_gen_calls == (unsigned)(ok && IN.needs), "parity is recomputed exactly when the stripe is complete and some block had invalid parity");
	VERIF_ASSERT(parity_going == (ok && IN.needs), "parity is scheduled for writing exactly then");
	/* books */
	if (IN.silent || IN.io_error) {
		VERIF_ASSERT(g_set_calls >= 1 && g_set_info[g_set_calls - 1] == (IN.info | 1u), "a silent or I/O error leaves the stripe marked bad (other info kept)");
	} else if (ok && IN.needs) {
		VERIF_ASSERT(g_set_calls == 1 && g_set_info[0] == info_make(IN.now, 0, 0, 1), "the time is refreshed (just-synced) only when parity was really updated");
	} else {
		VERIF_ASSERT(g_set_calls == 0, "otherwise the books are left alone");
	}
	for (j = 0; j < ND; ++j) {
		struct snapraid_block *b = (struct snapraid_block *)BLKMEM[j];
		int stored = ok && IN.needs && !IN.silent && IN.rehash && rh[j].block != 0;
		for (k = 0; k < HASH_MAX; ++k)
			VERIF_ASSERT(b->hash[k] == (stored ? rh[j].hash[k] : oldhash[j][k]), "migrated hashes are stored only with the refreshed time");
	}
	VERIF_CANARY();
}

/*
 * Region: what sync does with the hash of a block it has just read (inside the per-disk loop of state_sync_process).
 *   BLK / REP (hash known): mismatch on a REP (parity not yet valid: a provisional hash inherited from a copy/move, or
 *   a file changed during sync) -> plain error, the stripe is not completed, the block keeps state and hash, it is NOT
 *   queued for repair; mismatch on a BLK -> silent error, queued for in-memory repair; match -> nothing flagged.
 *   CHG (no trusted hash): parity must be rewritten unless the freshly computed hash equals a unique recorded one.
 *   During a hash migration the comparison uses the previous kind and the new-kind digest is parked in rehandle[].
 */
#ifdef VERIF_HASH_REGION
#include "region_sync_hash.c"

void h_sync_hash(void)
{
	static struct snapraid_state st;
	static struct snapraid_disk disk;
	static struct snapraid_file file;
	static struct snapraid_task task;
	struct snapraid_block *b = (struct snapraid_block *)BLKMEM[0];
	struct snapraid_rehash rh[ND];
	struct failed_struct failed[ND];
	void *buffer[ND];
	static unsigned char data[8];
	unsigned failed_count = 0, error = 0, silent_error = 0;
	int error_on = 0, silent_on = 0, needs, k, mismatch = 0, unique;
	const unsigned char *cmp;
	VERIF_INPUTS();
	VERIF_ASSUME(IN.hash_size >= 2 && IN.hash_size <= HASH_MAX);
	VERIF_ASSUME(IN.one_state == BLOCK_STATE_BLK || IN.one_state == BLOCK_STATE_CHG || IN.one_state == BLOCK_STATE_REP);
	BLOCK_HASH_SIZE = IN.hash_size;
	st.hash = HASH_MURMUR3;
	st.prevhash = HASH_SPOOKY2;
	b->state = IN.one_state;
	for (k = 0; k < HASH_MAX; ++k) {
		b->hash[k] = IN.recorded[k];
		G_DIGEST_CUR[k] = IN.digest_cur[k];
		G_DIGEST_PREV[k] = IN.digest_prev[k];
	}
	file.flag = IN.is_copy ? FILE_IS_COPY : 0;
	file.sub = "f";
	for (k = 0; k < ND; ++k) {
		buffer[k] = data;
		rh[k].block = 0;
	}
	needs = IN.needs != 0;
	/* as in the code before the region: every state but CHG has already forced a parity update */
	if (IN.one_state == BLOCK_STATE_REP)
		needs = 1;
	cmp = IN.rehash ? IN.digest_prev : IN.digest_cur;
	for (k = 0; k < HASH_MAX; ++k)
		if (k < IN.hash_size && cmp[k] != IN.recorded[k])
			mismatch = 1;
	unique = IN.hash_size == HASH_MAX && !hash_is_zero(IN.recorded) && !hash_is_invalid(IN.recorded);
#ifdef VERIF_NATIVE
	exit(77);
#endif
	g_hash_calls = g_hash_kinds = 0;
	region_sync_hash(&st, IN.rehash != 0, buffer, 1, 5, rh, b, &disk, &file, 0, &task, IN.pos, &error, &error_on, &silent_error, &silent_on, failed, &failed_count, &needs);

	VERIF_ASSERT(g_hash_src == data && g_hash_size == 5, "sync hashes exactly the bytes read");
	VERIF_ASSERT(g_hash_kinds == (IN.rehash ? ((1u << HASH_SPOOKY2) | (1u << HASH_MURMUR3)) : (1u << HASH_MURMUR3)), "during a hash migration both kinds are computed, otherwise only the current one");
	if (IN.rehash)
		VERIF_ASSERT(rh[1].block == b && rh[1].hash[0] == IN.digest_cur[0] && rh[1].hash[HASH_MAX - 1] == IN.digest_cur[HASH_MAX - 1], "the new-kind digest is parked, not stored in the block");
	if (IN.one_state == BLOCK_STATE_CHG) {
		VERIF_ASSERT(!error_on && !silent_on && failed_count == 0, "a block without trusted hash cannot raise a hash error");
		VERIF_ASSERT(needs == ((IN.needs != 0) || !unique || mismatch), "parity is rewritten unless the fresh hash equals a unique recorded one");
		VERIF_ASSERT(b->state == BLOCK_STATE_CHG, "hashing does not record the block as synced");
	} else if (!mismatch) {
		VERIF_ASSERT(!error_on && !silent_on && failed_count == 0 && error == 0 && silent_error == 0, "matching data raises nothing");
	} else if (IN.one_state == BLOCK_STATE_REP) {
		VERIF_ASSERT(error_on == 1 && error == 1 && !silent_on && failed_count == 0, "a provisional (copied / moved) hash that does not match the data stops the stripe with an error; it is not 'repaired'");
	} else {
		VERIF_ASSERT(silent_on == 1 && silent_error == 1 && !error_on && failed_count == 1 && failed[0].index == 1 && failed[0].size == 5 && failed[0].block == b,
			"a synced block whose data no longer matches is a silent error, queued for in-memory repair");
	}
	if (IN.one_state != BLOCK_STATE_CHG) {
		VERIF_ASSERT(b->state == IN.one_state, "a hash comparison never changes the block state");
		for (k = 0; k < HASH_MAX; ++k)
			VERIF_ASSERT(b->hash[k] == IN.recorded[k], "a hash comparison never overwrites a trusted hash");
	}
	VERIF_CANARY();
}
#endif

/*
 * Region: after the in-memory repair of silent errors (raid_rec) - "check the result and prepare the data".
 *   every repaired BLK block must hash to its record, else the stripe is NOT declared fixed; a BLK block is zero
 *   padded beyond its size; every other failed block (CHG, REP, DELETED: their old contents are of no interest for the
 *   NEW parity) gets back exactly the bytes read before the repair - so that the parity computed next is the parity of
 *   what the array will record.
 */
#ifdef VERIF_FIXCHK_REGION
#include "region_sync_fixchk.c"

void h_sync_fixchk(void)
{
	static struct snapraid_state st;
	struct failed_struct failed[ND];
	void *buffer[ND + LEV_MAX], *copy[ND + LEV_MAX];
	/* separate 1-D objects: a row of a 2-D array addressed with a symbolic offset hits the cbmc defect of DESIGN 2.3 */
	static unsigned char B0[8], B1[8], B2[8], C0[8], C1[8], C2[8];
	unsigned char *const B[ND] = { B0, B1, B2 }, *const C[ND] = { C0, C1, C2 };
	unsigned j, upto;
	int k, all_ok = 1;
	VERIF_INPUTS();
	VERIF_ASSUME(IN.fcount >= 1 && IN.fcount <= ND);
	BLOCK_HASH_SIZE = 16;
	st.block_size = 8;
	st.hash = HASH_MURMUR3;
	st.prevhash = HASH_SPOOKY2;
	for (j = 0; j < ND; ++j) {
		struct snapraid_block *b = (struct snapraid_block *)BLKMEM[j];
		VERIF_ASSUME(IN.bstate[j] == BLOCK_STATE_BLK || IN.bstate[j] == BLOCK_STATE_CHG || IN.bstate[j] == BLOCK_STATE_REP || IN.bstate[j] == BLOCK_STATE_DELETED);
		VERIF_ASSUME(IN.fsize[j] <= 8);
		b->state = IN.bstate[j];
		for (k = 0; k < HASH_MAX; ++k)
			b->hash[k] = (unsigned char)(0x40 + j * 16 + k);
		for (k = 0; k < 8; ++k) {
			B[j][k] = IN.fbuf[j][k];
			C[j][k] = IN.fcopy[j][k];
		}
		failed[j].index = j;
		failed[j].size = IN.fsize[j];
		failed[j].block = b;
		buffer[j] = B[j];
		copy[j] = C[j];
		G_FIXBUF[j] = B[j];
		G_FIXOK[j] = IN.fixok[j] != 0;
	}
#ifdef VERIF_NATIVE
	exit(77);
#endif
	j = region_sync_fixchk(&st, IN.rehash != 0, failed, IN.fcount, buffer, copy);

	/* the entries are examined in order; the first repaired BLK block that does not hash to its record ends it */
	upto = IN.fcount;
	for (k = 0; k < ND; ++k)
		if ((unsigned)k < IN.fcount && all_ok && IN.bstate[k] == BLOCK_STATE_BLK && !IN.fixok[k]) {
			all_ok = 0;
			upto = k;
		}
	VERIF_ASSERT((j == IN.fcount) == all_ok, "the stripe counts as fixed iff every repaired synced block hashes to its record");
	for (k = 0; k < ND; ++k) {
		int q;
		if ((unsigned)k < upto) {
			if (IN.bstate[k] == BLOCK_STATE_BLK) {
				for (q = 0; q < 8; ++q)
					VERIF_ASSERT(B[k][q] == ((unsigned)q < IN.fsize[k] ? IN.fbuf[k][q] : 0), "a repaired block is kept and zero padded beyond its size");
			} else {
				for (q = 0; q < 8; ++q)
					VERIF_ASSERT(B[k][q] == IN.fcopy[k][q], "a pending / replaced / deleted block gets back exactly the bytes read before the repair");
			}
		}
	}
	VERIF_CANARY();
}
#endif

/*
 * Region of state_hash_process (the pre-hash pass, `sync -h`): a block whose hash is only provisional (REP) and does
 * not match the data ALWAYS blocks the following sync (*skip_sync = 1) - whatever the reason the hash was provisional -
 * is counted, and keeps state and hash; matching data raises nothing; a pending (CHG) block gets its hash and becomes
 * REP (hashed, parity still invalid).
 */
#ifdef VERIF_PREHASH_REGION
#include "region_sync_prehash.c"

void h_sync_prehash(void)
{
	static struct snapraid_state st;
	static struct snapraid_disk disk;
	static struct snapraid_file file;
	static struct snapraid_handle handle[1];
	/* a 1-D object of its own: memcpy with a symbolic length into a row of a 2-D array hits the cbmc defect of DESIGN 2.3 */
	static unsigned char ONEBLK[sizeof(struct snapraid_block) + HASH_MAX];
	struct snapraid_block *b = (struct snapraid_block *)ONEBLK;
	static unsigned char data[8];
	unsigned silent_error = 0;
	int skip_sync = 0, reached_end = 0, k, mismatch = 0;
	const unsigned char *cmp;
	VERIF_INPUTS();
	VERIF_ASSUME(IN.hash_size >= 2 && IN.hash_size <= HASH_MAX);
	VERIF_ASSUME(IN.one_state == BLOCK_STATE_CHG || IN.one_state == BLOCK_STATE_REP);
	BLOCK_HASH_SIZE = IN.hash_size;
	st.hash = HASH_MURMUR3;
	st.prevhash = HASH_SPOOKY2;
	st.need_write = 0;
	b->state = IN.one_state;
	for (k = 0; k < HASH_MAX; ++k) {
		b->hash[k] = IN.recorded[k];
		G_DIGEST_CUR[k] = IN.digest_cur[k];
		G_DIGEST_PREV[k] = IN.digest_prev[k];
	}
	file.flag = IN.is_copy ? FILE_IS_COPY : 0;
	file.sub = "f";
	cmp = IN.rehash ? IN.digest_prev : IN.digest_cur;
	for (k = 0; k < HASH_MAX; ++k)
		if (k < IN.hash_size && cmp[k] != IN.recorded[k])
			mismatch = 1;
#ifdef VERIF_NATIVE
	exit(77);
#endif
	region_sync_prehash(&st, IN.rehash != 0, data, 5, IN.one_state, b, IN.pos, &disk, &file, handle, 0, 0, &skip_sync, &silent_error, &reached_end);
	if (IN.one_state == BLOCK_STATE_REP) {
		VERIF_ASSERT(skip_sync == mismatch, "pre-hash: a provisional hash that does not match the data always blocks the sync that would follow (and only then)");
		VERIF_ASSERT(silent_error == (unsigned)mismatch && reached_end == !mismatch, "pre-hash: the mismatch is counted and the block is not counted as processed");
		VERIF_ASSERT(b->state == BLOCK_STATE_REP && st.need_write == 0, "pre-hash: a comparison changes nothing");
		for (k = 0; k < HASH_MAX; ++k)
			VERIF_ASSERT(b->hash[k] == IN.recorded[k], "pre-hash: a comparison never overwrites the hash");
	} else {
		VERIF_ASSERT(b->state == BLOCK_STATE_REP && st.need_write == 1 && !skip_sync && reached_end, "pre-hash: a pending block becomes hashed (REP), to be written");
		for (k = 0; k < HASH_MAX; ++k)
			if (k < IN.hash_size)
				VERIF_ASSERT(b->hash[k] == cmp[k], "pre-hash: the stored hash is the digest of the data just read");
	}
	VERIF_CANARY();
}
#endif

/*
 * Region: what sync does with the parity WRITE errors the I/O layer reports after a stripe.
 * From the property (C08): an I/O error while a parity block is written makes the command fail AND leaves the stripe
 * concerned unsynced or marked bad.  The code counts the error (so the command fails) but, the report being a bare
 * count without position, marks nothing: the last assertion is a KNOWN-FINDING (known_findings.txt).
 */
#ifdef VERIF_WERR_REGION
#include "region_sync_werr.c"

void h_sync_werr(void)
{
	static struct snapraid_state st;
	int werr[IO_WRITER_ERROR_MAX], bailed = 0, k;
	unsigned error = 0, io_error = 0;
	VERIF_INPUTS();
	VERIF_ASSUME(IN.io_limit >= 1);
	st.opt.io_error_limit = IN.io_limit;
	for (k = 0; k < IO_WRITER_ERROR_MAX; ++k) {
		VERIF_ASSUME(IN.werr[k] >= 0 && IN.werr[k] <= 3);
		werr[k] = IN.werr[k];
	}
	g_set_calls = 0;
#ifdef VERIF_NATIVE
	exit(77);
#endif
	region_sync_werr(&st, werr, IN.pos, &error, &io_error, &bailed);
	if (IN.werr[TASK_STATE_IOERROR - IO_WRITER_ERROR_BASE] || IN.werr[TASK_STATE_ERROR - IO_WRITER_ERROR_BASE])
		VERIF_ASSERT(bailed || (IN.werr[TASK_STATE_IOERROR_CONTINUE - IO_WRITER_ERROR_BASE] && bailed) || bailed, "a fatal parity write error stops the sync");
	if (!bailed) {
		VERIF_ASSERT((io_error != 0) == (IN.werr[TASK_STATE_IOERROR_CONTINUE - IO_WRITER_ERROR_BASE] != 0), "a parity write I/O error is counted (the command will end with a failing status)");
		VERIF_ASSERT((error != 0) == (IN.werr[TASK_STATE_ERROR_CONTINUE - IO_WRITER_ERROR_BASE] != 0), "a plain parity write error is counted");
	}
	if (IN.werr[TASK_STATE_IOERROR_CONTINUE - IO_WRITER_ERROR_BASE] && !bailed)
		VERIF_ASSERT(g_set_calls >= 1 && (g_set_info[g_set_calls - 1] & 1u), "a parity write I/O error leaves some stripe marked bad (so that status shows it and fix -e / the next sync repairs it)");
	VERIF_CANARY();
}
#endif

#include "verif_tail.h"
