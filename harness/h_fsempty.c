/*
 * fs_is_empty (cmdline/elem.c, the REAL function with its comparison callback, extracted verbatim on every run): the test
 * state_write_content uses to decide whether a disk is written to the content file at all (no index = no 'M', 'f', 's', 'a',
 * 'r', 'h' record for it).  A disk is empty only if it has no file, no link, no empty directory AND no block (deleted ones
 * included) below blockmax - otherwise whatever it holds would be lost by a save and reload (C10).
 * tommy_tree_search_compare by stub applying the REAL callback to one symbolic extent; fs_lock / fs_unlock by counting stubs.
 */
#include "portable.h"
#include "support.h"
#include "elem.h"
#include "state.h"
#include "verif.h"

struct verif_in {
	int has_file, has_link, has_dir, has_extent;
	block_off_t extent_pos, extent_count, blockmax;
};
VERIF_DECLARE_IN

static int g_lock;
static void fs_lock(struct snapraid_disk *disk) { (void)disk; ++g_lock; }
static void fs_unlock(struct snapraid_disk *disk) { (void)disk; --g_lock; }
static struct snapraid_extent EXT;
static unsigned g_search;
static void *v_tree_search(tommy_tree *tree, tommy_compare_func *cmp, const void *arg)
{
	(void)tree;
	++g_search;
	VERIF_ASSERT(g_lock == 1, "the block map is searched under its lock");
	if (IN.has_extent && cmp(arg, &EXT) == 0)
		return &EXT;
	return 0;
}
#define tommy_tree_search_compare v_tree_search
#include "region_fs_is_empty.c"
#undef tommy_tree_search_compare

void h_fs_is_empty(void)
{
	static struct snapraid_disk DK;
	static struct snapraid_file F;
	static struct snapraid_link L;
	static struct snapraid_dir R;
	int r, holds;
	VERIF_INPUTS();
	tommy_list_init(&DK.filelist);
	tommy_list_init(&DK.linklist);
	tommy_list_init(&DK.dirlist);
	if (IN.has_file)
		tommy_list_insert_tail(&DK.filelist, &F.nodelist, &F);
	if (IN.has_link)
		tommy_list_insert_tail(&DK.linklist, &L.nodelist, &L);
	if (IN.has_dir)
		tommy_list_insert_tail(&DK.dirlist, &R.nodelist, &R);
	VERIF_ASSUME(IN.extent_count >= 1);
	EXT.parity_pos = IN.extent_pos;
	EXT.count = IN.extent_count;
	g_lock = 0; g_search = 0;
	r = fs_is_empty(&DK, IN.blockmax);
	holds = IN.has_file || IN.has_link || IN.has_dir || (IN.has_extent && IN.extent_pos < IN.blockmax);
	VERIF_ASSERT(r == 0 || r == 1, "fs_is_empty returns 0 or 1");
	VERIF_ASSERT(!holds || r == 0, "a disk is empty only if it has no file, no link, no empty directory and no block below blockmax");
	VERIF_ASSERT(g_lock == 0, "the lock is released on every path");
	VERIF_CANARY();
}

#include "verif_tail.h"
