/*
 * Split parity (cmdline/parity.c, REAL code included below): address map and resize.
 *
 *   parity_split_find   contract (dfcc): the result is THE split k with  prefix(k) + *offset' == offset,
 *                       0 <= *offset' < size_k ; NULL iff offset < 0 or offset >= sum of sizes; assigns only *offset
 *   lemma (two calls)   the map position -> (split, offset) is injective; with block-aligned split sizes no stripe
 *                       straddles two files
 *   hbit_u64            contract (dfcc): highest set bit
 *   parity_handle_fill  contract (dfcc), parity_handle_grow / parity_handle_shrink replaced by contracts
 *   parity_chsize       contract (dfcc), parity_handle_chsize replaced by contract
 *   parity_write/read   the OS call receives exactly (fd of split k, offset', block_size)
 */
#include "portable.h"
#include "support.h"
#include "elem.h"
#include "state.h"
#include "parity.h"
#include "handle.h"
#include "verif.h"

/* ---------------------------------------------------------------- specification of the address map */
static inline int sizes_ok(const struct snapraid_parity_handle *h)
{
	unsigned s;
	if (h->split_mac > SPLIT_MAX)
		return 0;
	for (s = 0; s < SPLIT_MAX; ++s)
		if (s < h->split_mac && (h->split_map[s].size < 0 || h->split_map[s].size > ((data_off_t)1 << 56)))
			return 0;
	return 1;
}

/* index of the split containing `off`, or -1 */
static inline int spec_find_index(const struct snapraid_parity_handle *h, data_off_t off)
{
	unsigned s;
	data_off_t base = 0;
	if (off < 0)
		return -1;
	for (s = 0; s < SPLIT_MAX; ++s) {
		if (s >= h->split_mac)
			return -1;
		if (off - base < h->split_map[s].size)
			return (int)s;
		base += h->split_map[s].size;
	}
	return -1;
}

static inline data_off_t spec_prefix(const struct snapraid_parity_handle *h, int k)
{
	int s;
	data_off_t base = 0;
	for (s = 0; s < SPLIT_MAX; ++s)
		if (s < k)
			base += h->split_map[s].size;
	return base;
}

static inline data_off_t spec_total(const struct snapraid_parity_handle *h)
{
	return spec_prefix(h, (int)h->split_mac);
}

/* ---------------------------------------------------------------- contracts (forward declarations) */
struct snapraid_split_handle *parity_split_find(struct snapraid_parity_handle *handle, data_off_t *offset)
__CPROVER_requires(__CPROVER_r_ok(handle, sizeof(*handle)) && __CPROVER_w_ok(offset, sizeof(*offset)))
__CPROVER_requires(sizes_ok(handle))
__CPROVER_ensures(
	spec_find_index(handle, __CPROVER_old(*offset)) < 0
	? (__CPROVER_return_value == 0)
	: (__CPROVER_return_value == &handle->split_map[spec_find_index(handle, __CPROVER_old(*offset))]
	   && *offset == __CPROVER_old(*offset) - spec_prefix(handle, spec_find_index(handle, __CPROVER_old(*offset)))
	   && *offset >= 0 && *offset < __CPROVER_return_value->size))
__CPROVER_ensures((__CPROVER_return_value == 0) == (__CPROVER_old(*offset) < 0 || __CPROVER_old(*offset) >= spec_total(handle)))
__CPROVER_assigns(*offset);

uint64_t hbit_u64(uint64_t v)
__CPROVER_ensures(v == 0 ? __CPROVER_return_value == 1
	: ((__CPROVER_return_value & (__CPROVER_return_value - 1)) == 0 && __CPROVER_return_value <= v && (v >> 1) < __CPROVER_return_value))
__CPROVER_assigns();

/* ghost state observed through the replaced callees */
static data_off_t g_shrink_arg = -1;
static int g_grow_failed;
static data_off_t g_last_grow = -1;

static int parity_handle_grow(struct snapraid_split_handle *split, data_off_t previous_size, data_off_t size, int skip_fallocate)
__CPROVER_requires(size > previous_size && previous_size >= 0)
__CPROVER_ensures(__CPROVER_return_value == 0 || __CPROVER_return_value == -1)
__CPROVER_ensures(g_grow_failed == (__CPROVER_old(g_grow_failed) || __CPROVER_return_value != 0))
__CPROVER_ensures(g_last_grow == (__CPROVER_return_value == 0 ? size : __CPROVER_old(g_last_grow)))
__CPROVER_assigns(g_grow_failed, g_last_grow);

static int parity_handle_shrink(struct snapraid_split_handle *split, data_off_t size)
__CPROVER_requires(size >= 0)
__CPROVER_ensures(__CPROVER_return_value == 0 || __CPROVER_return_value == -1)
__CPROVER_ensures(g_shrink_arg == size)
__CPROVER_assigns(g_shrink_arg);

static int parity_handle_fill(struct snapraid_split_handle *split, data_off_t size, uint32_t block_size, int skip_fallocate, int skip_space_holder)
__CPROVER_requires(__CPROVER_r_ok(split, sizeof(*split)))
__CPROVER_requires(block_size >= 1 && (block_size & (block_size - 1)) == 0)
__CPROVER_requires(split->st.st_size >= 0 && split->st.st_size < size && size <= ((data_off_t)1 << 56))
__CPROVER_requires((size & ((data_off_t)block_size - 1)) == 0)
__CPROVER_requires(g_grow_failed == 0)
/* the file is finally truncated to a block aligned size that never exceeds the request ... */
__CPROVER_ensures((g_shrink_arg & ((data_off_t)block_size - 1)) == 0 && g_shrink_arg <= size)
/* ... never below the (aligned) size it had, and exactly the request when the OS granted every grow */
__CPROVER_ensures(g_shrink_arg >= (__CPROVER_old(split->st.st_size) & ~((data_off_t)block_size - 1)))
__CPROVER_ensures(g_grow_failed || g_shrink_arg == size)
__CPROVER_assigns(g_shrink_arg, g_grow_failed, g_last_grow);

/* ghost: what parity_chsize asked each split to become (recorded by the contract that replaces the callee) */
static data_off_t g_req[SPLIT_MAX];
static unsigned g_req_calls;
static struct snapraid_parity_handle PH;

static int parity_handle_chsize(struct snapraid_split_handle *split, data_off_t size, uint32_t block_size, int skip_fallocate, int skip_space_holder)
__CPROVER_requires(size >= 0 && block_size >= 1)
__CPROVER_requires(split >= &PH.split_map[0] && split <= &PH.split_map[SPLIT_MAX - 1])
__CPROVER_ensures(__CPROVER_return_value == 0 || __CPROVER_return_value == -1)
/* what the OS + parity_handle_fill/shrink contracts give: a block aligned, non negative size (possibly less than asked) */
__CPROVER_ensures(__CPROVER_return_value != 0 || (split->st.st_size >= 0 && (split->st.st_size & ((data_off_t)block_size - 1)) == 0))
__CPROVER_ensures(g_req[split - &PH.split_map[0]] == size && g_req_calls == __CPROVER_old(g_req_calls) + 1)
__CPROVER_assigns(split->st.st_size, split->valid_size, g_req_calls, g_req[split - &PH.split_map[0]]);

#ifdef VERIF_CBMC
/* external functions by assumed contract */
void log_tag(const char *format, ...) { (void)format; }
void log_fatal(const char *format, ...) { (void)format; }
void os_abort(void)
{
	VERIF_ASSERT(0, "os_abort() is unreachable (internal inconsistency branch)");
	__CPROVER_assume(0);
}
static int g_pw_fd = -1, g_pr_fd = -1;
static off_t g_pw_off = -1, g_pr_off = -1;
static size_t g_pw_n, g_pr_n;
ssize_t nondet_ssize(void);
int nondet_int(void);
ssize_t pwrite(int fd, const void *buf, size_t n, off_t off)
{
	ssize_t r = nondet_ssize();
	(void)buf;
	g_pw_fd = fd;
	g_pw_off = off;
	g_pw_n = n;
	__CPROVER_assume(r >= -1 && r <= (ssize_t)n);
	return r;
}
ssize_t pread(int fd, void *buf, size_t n, off_t off)
{
	ssize_t r = nondet_ssize();
	(void)buf;
	static int calls;
	if (g_pr_fd == -1) {
		g_pr_fd = fd;
		g_pr_off = off;
		g_pr_n = n;
	}
	/* short reads: at most 3 rounds are modelled (1 byte, then 1 byte or n-2, then the rest), or failure */
	++calls;
	__CPROVER_assume(r == -1 || r == 0 || r == (ssize_t)n || (calls <= 2 && n > 2 && (r == 1 || r == (ssize_t)n - 2)));
	return r;
}
void bw_limit(struct snapraid_bw *bw, unsigned bytes) { (void)bw; (void)bytes; }
int advise_write(struct advise_struct *advise, int f, data_off_t offset, data_off_t size) { (void)advise; (void)f; (void)offset; (void)size; return nondet_int(); }
int advise_read(struct advise_struct *advise, int f, data_off_t offset, data_off_t size) { (void)advise; (void)f; (void)offset; (void)size; return nondet_int(); }
#endif

/* the REAL translation unit */
#include "parity.c"

/* ---------------------------------------------------------------- drivers */
#ifndef BLOCK_SHIFT
#define BLOCK_SHIFT 10
#endif

struct verif_in {
	data_off_t size[SPLIT_MAX];
	unsigned split_mac;
	data_off_t off, off2;
	uint32_t block_size;
	block_off_t pos;
	uint64_t v;
	data_off_t st_size, want;
	data_off_t valid[SPLIT_MAX];
	data_off_t psize[SPLIT_MAX];
};
VERIF_DECLARE_IN

static void setup_handle(void)
{
	unsigned s;
	VERIF_ASSUME(IN.split_mac <= SPLIT_MAX);
	PH.split_mac = IN.split_mac;
	for (s = 0; s < SPLIT_MAX; ++s) {
		PH.split_map[s].size = IN.size[s];
		PH.split_map[s].valid_size = IN.valid[s];
		PH.split_map[s].f = 100 + (int)s;
	}
	VERIF_ASSUME(sizes_ok(&PH));
}

void h_split_find(void)
{
	data_off_t off;
	struct snapraid_split_handle *r;
	int k;
	VERIF_INPUTS();
	setup_handle();
	off = IN.off;
	r = parity_split_find(&PH, &off);
	k = spec_find_index(&PH, IN.off);
	VERIF_ASSERT((r == 0) == (k < 0), "parity_split_find: NULL iff outside the recorded sizes");
	if (r) {
		VERIF_ASSERT(r == &PH.split_map[k], "parity_split_find: split index");
		VERIF_ASSERT(off == IN.off - spec_prefix(&PH, k) && off >= 0 && off < r->size, "parity_split_find: residual offset");
	}
	VERIF_CANARY();
}

/* bijection + no straddling, stated over two calls of the real function */
void h_split_lemma(void)
{
	data_off_t o1, o2, mask;
	struct snapraid_split_handle *r1, *r2;
	unsigned s;
	VERIF_INPUTS();
	setup_handle();
	VERIF_ASSUME(IN.block_size >= 1 && (IN.block_size & (IN.block_size - 1)) == 0);
	mask = (data_off_t)IN.block_size - 1;
	o1 = IN.off;
	o2 = IN.off2;
	r1 = parity_split_find(&PH, &o1);
	r2 = parity_split_find(&PH, &o2);
	if (r1 && r2 && IN.off != IN.off2)
		VERIF_ASSERT(r1 != r2 || o1 != o2, "address map is injective");
	/* block aligned sizes and a block aligned position: the whole block lies inside one split */
	for (s = 0; s < SPLIT_MAX; ++s)
		if (s < PH.split_mac)
			VERIF_ASSUME((PH.split_map[s].size & mask) == 0);
	VERIF_ASSUME((IN.off & mask) == 0);
	if (r1)
		VERIF_ASSERT(o1 + (data_off_t)IN.block_size <= r1->size && (o1 & mask) == 0, "no stripe straddles two splits");
	VERIF_CANARY();
}

void h_hbit(void)
{
	uint64_t r;
	VERIF_INPUTS();
	r = hbit_u64(IN.v);
	if (IN.v != 0)
		VERIF_ASSERT((r & (r - 1)) == 0 && r <= IN.v && (IN.v >> 1) < r, "hbit_u64 is the highest set bit");
	VERIF_CANARY();
}

void h_fill(void)
{
	static struct snapraid_split_handle sp;
	int r;
	VERIF_INPUTS();
	sp.st.st_size = IN.st_size;
	sp.f = 7;
	VERIF_ASSUME(IN.block_size >= 1 && (IN.block_size & (IN.block_size - 1)) == 0);
	VERIF_ASSUME(IN.st_size >= 0 && IN.st_size < IN.want && IN.want <= ((data_off_t)1 << 56));
	VERIF_ASSUME((IN.want & ((data_off_t)IN.block_size - 1)) == 0);
	g_grow_failed = 0;
	r = parity_handle_fill(&sp, IN.want, IN.block_size, 0, 0);
	(void)r;
	VERIF_CANARY();
}

/*
 * parity_chsize: on success the split sizes add up to the request, every size is block aligned, a split that is
 * followed by a split in use is never asked to grow ("only the last used split grows"), the sizes are copied to the
 * parity description and is_modified is exact.
 */
void h_chsize(void)
{
	static struct snapraid_parity P;
	data_off_t old[SPLIT_MAX], oldp[SPLIT_MAX], sum, remaining, mask;
	int is_modified = 7, r, expect_mod = 0;
	unsigned s;
	VERIF_INPUTS();
	setup_handle();
	VERIF_ASSUME(IN.block_size >= 1 && (IN.block_size & (IN.block_size - 1)) == 0);
	mask = (data_off_t)IN.block_size - 1;
	VERIF_ASSUME(IN.want >= 0 && IN.want <= ((data_off_t)1 << 56) && (IN.want & mask) == 0);
	VERIF_ASSUME(IN.split_mac >= 1);
	for (s = 0; s < SPLIT_MAX; ++s) {
		old[s] = PH.split_map[s].size;
		PH.split_map[s].st.st_size = IN.valid[s]; /* whatever the file size is now */
		oldp[s] = P.split_map[s].size = IN.psize[s];
		g_req[s] = -1;
		if (s < PH.split_mac)
			VERIF_ASSUME((old[s] & mask) == 0);
	}
	g_req_calls = 0;
#ifdef VERIF_NATIVE
	exit(77); /* parity_handle_chsize is replaced by its contract under cbmc only */
#endif
	r = parity_chsize(&PH, &P, &is_modified, IN.want, IN.block_size, 0, 0);
	if (r == 0) {
		sum = 0;
		remaining = IN.want;
		for (s = 0; s < SPLIT_MAX; ++s)
			if (s < PH.split_mac) {
				int next_in_use = s + 1 < PH.split_mac && old[s + 1] != 0;
				if (next_in_use && remaining > old[s])
					VERIF_ASSERT(g_req[s] == old[s], "parity_chsize never asks a split that is followed by a used split to grow");
				VERIF_ASSERT(g_req[s] <= remaining && g_req[s] >= 0, "parity_chsize never asks a split for more than what remains");
				VERIF_ASSERT((PH.split_map[s].size & mask) == 0 && PH.split_map[s].size >= 0, "parity_chsize leaves every split block aligned");
				VERIF_ASSERT(PH.split_map[s].size <= g_req[s], "parity_chsize never records more than it asked for");
				VERIF_ASSERT(P.split_map[s].size == PH.split_map[s].size, "parity_chsize copies the sizes to the parity description");
				expect_mod |= oldp[s] != PH.split_map[s].size;
				sum += PH.split_map[s].size;
				remaining -= PH.split_map[s].size;
			} else {
				VERIF_ASSERT(PH.split_map[s].size == old[s] && g_req[s] == -1, "parity_chsize does not touch unconfigured splits");
			}
		VERIF_ASSERT(sum == IN.want, "parity_chsize: the split sizes add up to the requested size");
		VERIF_ASSERT(is_modified == expect_mod, "parity_chsize reports is_modified exactly");
		VERIF_ASSERT(g_req_calls == PH.split_mac, "parity_chsize resizes every configured split once");
	}
	VERIF_CANARY();
}

void h_parity_write(void)
{
	unsigned char buf[4];
	data_off_t off;
	int k, r;
	unsigned s;
	VERIF_INPUTS();
	setup_handle();
	/* the block size is a concrete parameter of the obligation (a symbolic 32x32 multiplication is out of reach
	 * of every installed back end); it is a power of two between 1 KiB and 16 MiB in any configuration */
	VERIF_ASSUME(IN.block_size == (1u << BLOCK_SHIFT));
	VERIF_ASSUME(IN.pos < (1u << 31));
	PH.bw = 0;
	off = (data_off_t)IN.pos * IN.block_size;
	k = spec_find_index(&PH, off);
	r = parity_write(&PH, IN.pos, buf, IN.block_size);
	if (k < 0) {
		VERIF_ASSERT(r == -1, "parity_write fails outside the recorded sizes");
#ifdef VERIF_CBMC
		VERIF_ASSERT(g_pw_fd == -1, "parity_write does not touch any file outside the recorded sizes");
#endif
	} else {
#ifdef VERIF_CBMC
		VERIF_ASSERT(g_pw_fd == 100 + k && g_pw_off == off - spec_prefix(&PH, k) && g_pw_n == IN.block_size,
			"parity_write hands (fd of split k, residual offset, block_size) to pwrite");
#endif
		for (s = 0; s < SPLIT_MAX; ++s) {
			if ((int)s == k)
				VERIF_ASSERT(PH.split_map[s].valid_size >= IN.valid[s] && PH.split_map[s].valid_size >= off - spec_prefix(&PH, k) + IN.block_size,
					"parity_write extends valid_size monotonically over the written block");
			else
				VERIF_ASSERT(PH.split_map[s].valid_size == IN.valid[s], "parity_write leaves the other splits' valid_size alone");
		}
	}
	VERIF_CANARY();
}

static void out_stub(const char *format, ...) { (void)format; }

void h_parity_read(void)
{
	unsigned char buf[4];
	data_off_t off;
	int k, r;
	VERIF_INPUTS();
	setup_handle();
	VERIF_ASSUME(IN.block_size == (1u << BLOCK_SHIFT));
	VERIF_ASSUME(IN.pos < (1u << 31));
	PH.bw = 0;
	off = (data_off_t)IN.pos * IN.block_size;
	k = spec_find_index(&PH, off);
	r = parity_read(&PH, IN.pos, buf, IN.block_size, out_stub);
	if (k < 0 || off - spec_prefix(&PH, k) >= IN.valid[k]) {
		VERIF_ASSERT(r == -1, "parity_read fails outside the recorded / valid sizes");
#ifdef VERIF_CBMC
		VERIF_ASSERT(g_pr_fd == -1, "parity_read does not read any file there");
#endif
	} else {
#ifdef VERIF_CBMC
		VERIF_ASSERT(g_pr_fd == 100 + k && g_pr_off == off - spec_prefix(&PH, k) && g_pr_n == IN.block_size,
			"parity_read hands (fd of split k, residual offset, block_size) to pread");
#endif
		VERIF_ASSERT(r == -1 || r == (int)IN.block_size, "parity_read returns block_size or -1");
	}
	VERIF_CANARY();
}

#include "verif_tail.h"
