/*
 * CRC-32C seal of the content file (cmdline/util.c, util.h), REAL code.
 *   CRC32C_0..3 are the slicing-by-4 tables of the reflected Castagnoli polynomial 0x82F63B78 (all 256 entries, symbolic index)
 *   crc32c_gen_plain(crc, p, n) == bit-by-bit CRC for every initial value and every content, n = CRC_LEN (concrete)
 *   crc32c_gen applies the IV on both sides
 */
#include "portable.h"
#include "support.h"
#include "util.h"
#include "verif.h"

#ifndef CRC_LEN
#define CRC_LEN 5
#endif

static inline uint32_t spec_crc_byte(uint32_t crc, unsigned char b)
{
	int k;
	crc ^= b;
	for (k = 0; k < 8; ++k)
		crc = (crc >> 1) ^ (0x82F63B78u & (0u - (crc & 1u)));
	return crc;
}

/* four zero-extended steps of the bitwise definition: what one 32-bit word of the fast path must compute */
static inline uint32_t spec_crc_4zero(uint32_t crc)
{
	return spec_crc_byte(spec_crc_byte(spec_crc_byte(spec_crc_byte(crc, 0), 0), 0), 0);
}

/*
 * Slicing-by-4 form of the SAME function, used to state crc32c_gen_plain's contract for whole words:
 *   crc' = T3[x0] ^ T2[x1] ^ T1[x2] ^ T0[x3],  x = crc ^ le32(word)
 * It equals spec_crc_4zero(x) == four bitwise byte steps by lemmas CRC-L1 (each table column is spec_crc_4zero of that
 * byte lane) and CRC-L2 (spec_crc_4zero is GF(2)-linear), both discharged below; stated in this form because no
 * installed SAT back end proves "xor of four table lookups == shift register" directly (same obstacle as DESIGN 2.2).
 */
static inline uint32_t spec_crc_word(uint32_t crc, unsigned char b0, unsigned char b1, unsigned char b2, unsigned char b3)
{
	crc ^= b0 | (uint32_t)b1 << 8 | (uint32_t)b2 << 16 | (uint32_t)b3 << 24;
	return CRC32C_3[crc & 0xff] ^ CRC32C_2[(crc >> 8) & 0xff] ^ CRC32C_1[(crc >> 16) & 0xff] ^ CRC32C_0[crc >> 24];
}

static inline uint32_t spec_crc_buf(uint32_t crc, const unsigned char *p, int n)
{
	int k = 0;
	for (; n - k >= 4; k += 4)
		crc = spec_crc_word(crc, p[k], p[k + 1], p[k + 2], p[k + 3]);
	for (; k < n; ++k)
		crc = spec_crc_byte(crc, p[k]);
	return crc;
}

struct verif_in {
	uint32_t x, y;
	unsigned char i;
	uint32_t crc;
	unsigned char buf[CRC_LEN + 1];
};
VERIF_DECLARE_IN

void h_crc_tables(void)
{
	uint32_t t0, t1, t2, t3;
	VERIF_INPUTS();
	t0 = CRC32C_0[IN.i];
	t1 = CRC32C_1[IN.i];
	t2 = CRC32C_2[IN.i];
	t3 = CRC32C_3[IN.i];
	VERIF_ASSERT(t0 == spec_crc_byte(0, IN.i), "CRC32C_0[i] is the reflected 0x82F63B78 byte table");
	VERIF_ASSERT(t1 == ((t0 >> 8) ^ CRC32C_0[t0 & 0xff]), "CRC32C_1[i] == one more zero byte after CRC32C_0[i]");
	VERIF_ASSERT(t2 == ((t1 >> 8) ^ CRC32C_0[t1 & 0xff]), "CRC32C_2[i] == one more zero byte after CRC32C_1[i]");
	VERIF_ASSERT(t3 == ((t2 >> 8) ^ CRC32C_0[t2 & 0xff]), "CRC32C_3[i] == one more zero byte after CRC32C_2[i]");
	VERIF_CANARY();
}

/* CRC-L1: each slicing table is the bitwise definition applied to its byte lane followed by zero bytes */
void h_crc_l1(void)
{
	VERIF_INPUTS();
	VERIF_ASSERT(CRC32C_3[IN.i] == spec_crc_4zero((uint32_t)IN.i), "CRC-L1 T3[x] == spec4(x)");
	VERIF_ASSERT(CRC32C_2[IN.i] == spec_crc_4zero((uint32_t)IN.i << 8), "CRC-L1 T2[x] == spec4(x<<8)");
	VERIF_ASSERT(CRC32C_1[IN.i] == spec_crc_4zero((uint32_t)IN.i << 16), "CRC-L1 T1[x] == spec4(x<<16)");
	VERIF_ASSERT(CRC32C_0[IN.i] == spec_crc_4zero((uint32_t)IN.i << 24), "CRC-L1 T0[x] == spec4(x<<24)");
	VERIF_CANARY();
}

/* CRC-L2: the bitwise definition is linear over GF(2) (statement about the specification only) */
void h_crc_l2(void)
{
	VERIF_INPUTS();
	VERIF_ASSERT(spec_crc_4zero(IN.x ^ IN.y) == (spec_crc_4zero(IN.x) ^ spec_crc_4zero(IN.y)), "CRC-L2 spec4(x^y) == spec4(x)^spec4(y)");
	VERIF_ASSERT(spec_crc_byte(IN.x, IN.i) == spec_crc_byte(IN.x ^ IN.i, 0), "CRC-L2 data byte enters by xor");
	VERIF_CANARY();
}

void h_crc_gen(void)
{
	uint32_t e, r;
	int k;
	VERIF_INPUTS();
#if HAVE_SSE42
	crc_x86 = 0;
#endif
	e = spec_crc_buf(IN.crc, IN.buf, CRC_LEN);
	r = crc32c_gen_plain(IN.crc, IN.buf, CRC_LEN);
	VERIF_ASSERT(r == e, "crc32c_gen_plain == bitwise CRC-32C");
	/* crc32c_gen: the IV is xored in before and after */
	e = spec_crc_buf(IN.crc ^ CRC_IV, IN.buf, CRC_LEN);
	(void)k;
	r = crc32c_gen(IN.crc, IN.buf, CRC_LEN);
	VERIF_ASSERT(r == (e ^ CRC_IV), "crc32c_gen == IV ^ bitwise CRC-32C(IV ^ crc, data)");
	VERIF_CANARY();
}

#include "verif_tail.h"
