/*
 * ssync (cmdline/stream.c, REAL translation unit included below; fsync routed to a recording stub), property C09 "flushed ...
 * before it atomically replaces the old copy": all content copies are written through ONE multi-handle stream, and ssync is
 * the only place where they are flushed to the disk.  ssync(s) flushes EVERY handle of the stream, each exactly once, and
 * returns 0 only if every flush succeeded; a failing flush puts the stream in the error state pointing at that copy.
 * Bounded: at most 4 content copies.
 */
#include "portable.h"
#include "support.h"
#include "util.h"
#include "stream.h"
#include "verif.h"

#define NH 4

struct verif_in {
	unsigned nh;
	int fsync_ret[NH];
	int writer_failed, flush_ret, sync_ret, close_ret;
};
VERIF_DECLARE_IN

#ifdef VERIF_CBMC
void log_fatal(const char *format, ...) { (void)format; }
void *malloc_nofail(size_t size) { void *q = malloc(size); __CPROVER_assume(q != 0); return q; }
#endif

static unsigned g_fsync_calls[NH], g_total;
static int v_fsync(int fd)
{
	++g_total;
	if (fd >= 10 && fd < 10 + NH) {
		++g_fsync_calls[fd - 10];
		return IN.fsync_ret[fd - 10] ? -1 : 0;
	}
	VERIF_ASSERT(0, "fsync of a descriptor that does not belong to the stream");
	return -1;
}
#define fsync v_fsync
#include "cmdline/stream.c"
#undef fsync

void h_ssync(void)
{
	static struct stream S;
	static struct stream_handle H[NH];
	unsigned k, first_fail = NH;
	int r;
	VERIF_INPUTS();
	VERIF_ASSUME(IN.nh >= 1 && IN.nh <= NH);
	S.handle = H;
	S.handle_size = IN.nh;
	S.state = STREAM_STATE_WRITE;
	for (k = 0; k < NH; ++k) {
		H[k].f = 10 + (int)k;
		g_fsync_calls[k] = 0;
		if (k < IN.nh && IN.fsync_ret[k] && first_fail == NH)
			first_fail = k;
	}
	g_total = 0;
	r = ssync(&S);
	if (first_fail == NH) {
		VERIF_ASSERT(r == 0, "ssync succeeds when every flush succeeded");
		for (k = 0; k < NH; ++k)
			VERIF_ASSERT(g_fsync_calls[k] == (k < IN.nh ? 1u : 0u), "every copy of the stream is flushed to the disk, each exactly once");
	} else {
		VERIF_ASSERT(r == -1 && S.state == STREAM_STATE_ERROR && S.state_index == first_fail, "a failing flush makes ssync fail and names the copy");
		for (k = 0; k < NH; ++k)
			if (k <= first_fail)
				VERIF_ASSERT(g_fsync_calls[k] == 1, "every copy up to the failing one was flushed");
	}
	VERIF_CANARY();
}


/*
 * The save sequence of state_write_content (single-stream build: HAVE_MT_WRITE is off), region after the writer returned up to
 * the point where the checksum is taken over: a failed writer stops the command; then flush -> fsync -> close, in this order,
 * each exactly once, and a failure of any of them stops the command with a failing status BEFORE the later steps (and before
 * the verification / rename that follow the region).
 */
static unsigned w_ord, w_flush, w_sync, w_close;
static int w_exit_due, w_exited;
static void w_exit(int code)
{
	w_exited = 1;
	VERIF_ASSERT(w_exit_due && code != 0, "the save stops, with a failing status, only when a step failed");
#ifdef VERIF_CBMC
	__CPROVER_assume(0);
#else
	_exit(0);
#endif
}
static int w_sflush(STREAM *f) { (void)f; w_flush = ++w_ord; return IN.flush_ret ? -1 : 0; }
static int w_ssync(STREAM *f) { (void)f; w_sync = ++w_ord; return IN.sync_ret ? -1 : 0; }
static int w_sclose(STREAM *f) { (void)f; w_close = ++w_ord; return IN.close_ret ? -1 : 0; }
static const char *w_serrorfile(STREAM *f) { (void)f; return "content"; }
#ifdef VERIF_CBMC
int exit_success = 0, exit_failure = 1, exit_sync_needed = 2;
#endif
#define exit w_exit
#define sflush w_sflush
#define ssync w_ssync
#define sclose w_sclose
#define serrorfile w_serrorfile
#include "region_write_flush.c"
#undef exit
#undef sflush
#undef ssync
#undef sclose
#undef serrorfile

void h_write_flush(void)
{
	VERIF_INPUTS();
	w_ord = w_flush = w_sync = w_close = 0;
	w_exit_due = IN.writer_failed || IN.flush_ret || IN.sync_ret || IN.close_ret;
	region_write_flush(0, IN.writer_failed ? (void *)1 : (void *)0);
	VERIF_ASSERT(!w_exit_due, "a failing writer, flush, fsync or close stops the save");
	VERIF_ASSERT(w_flush == 1 && w_sync == 2 && w_close == 3, "the content copies are flushed, then fsync()ed, then closed - before they are verified and renamed");
	VERIF_CANARY();
}

#include "verif_tail.h"
