/*
 * pool (cmdline/pool.c): clean_dir, the step that removes the directories left empty in the pool tree after the stale links
 * were deleted (property C20: "pool ... removes stale links and empty directories").  The REAL function, extracted whole and
 * verbatim on every run, runs over a small symbolic directory tree served by opendir / readdir / lstat / rmdir / closedir
 * stubs:
 *       root -+- 1 --- 4      (4: absent or a non-directory)
 *             +- 2 --- 5      (5: absent or a non-directory)
 *             +- 3
 * every node is absent, a non-directory (link, foreign file) or a directory - in every combination, hence in every relative
 * order of links and directories within a directory; "." and ".." are served first.
 *   - every directory other than the root that holds nothing but (recursively) empty directories is removed, exactly once,
 *     and only after the directories inside it
 *   - nothing else is removed, non-directories are never touched
 *   - the result says whether something is left in the root
 * Paths are abstracted to the node they name (pathprint / pathslash by stub: the string is one letter per node).
 */
#include "portable.h"
#include "support.h"
#include "elem.h"
#include "state.h"
#include "verif.h"

#define NN 6
struct verif_in {
	unsigned char kind[NN];          /* 0 absent, 1 non-directory, 2 directory */
	int rmdir_fails;
};
VERIF_DECLARE_IN

#ifdef VERIF_CBMC
int exit_success = 0, exit_failure = 1, exit_sync_needed = 2;
void log_fatal(const char *format, ...) { (void)format; }
#endif

static const unsigned char PARENT[NN] = { 0, 0, 0, 0, 1, 2 };
static const unsigned char FIRST[NN] = { 1, 4, 5, 0, 0, 0 };    /* first child slot, 0 none */
static const unsigned char COUNT[NN] = { 3, 1, 1, 0, 0, 0 };

static unsigned char g_removed[NN], g_rmdir_calls[NN], g_open[NN], g_opened_total, g_closed_total;
static int g_refused;

/* a DIR handle is the address of the cursor of its node; readdir returns the one static entry POSIX allows */
static unsigned char g_cursor[NN];
static struct dirent g_ent;

static unsigned node_of(const char *path) { unsigned n = (unsigned)(path[0] - 'A'); VERIF_ASSERT(n < NN && path[1] == 0, "a path names a node of the tree"); return n; }

static void v_pathprint(char *dst, size_t size, const char *format, const char *dir, const char *name)
{
	(void)format;
	VERIF_ASSERT(size >= 2, "path buffer");
	/* the entry `name` of the directory `dir`: names are the letters of the nodes */
	VERIF_ASSERT(PARENT[node_of(name)] == node_of(dir) && node_of(name) != 0, "the path is built from the directory being read and an entry it returned");
	dst[0] = name[0];
	dst[1] = 0;
}
static void v_pathslash(char *dst, size_t size) { (void)dst; (void)size; }

static DIR *v_opendir(const char *path)
{
	unsigned n = node_of(path);
	VERIF_ASSERT(IN.kind[n] == 2 && !g_removed[n], "only existing directories are opened");
	VERIF_ASSERT(!g_open[n], "a directory is read once");
	g_open[n] = 1;
	++g_opened_total;
	g_cursor[n] = 0;
	return (DIR *)&g_cursor[n];
}
static struct dirent *v_readdir(DIR *d)
{
	unsigned char *cur = (unsigned char *)d;
	unsigned node = (unsigned)(cur - g_cursor), c, k;
	errno = 0;
	/* ".", "..", then the children that exist */
	if (*cur == 0) { *cur = 1; g_ent.d_name[0] = '.'; g_ent.d_name[1] = 0; return &g_ent; }
	if (*cur == 1) { *cur = 2; g_ent.d_name[0] = '.'; g_ent.d_name[1] = '.'; g_ent.d_name[2] = 0; return &g_ent; }
	for (k = 0; k < 3; ++k) {
		if ((unsigned)(*cur - 2) >= COUNT[node])
			break;
		c = FIRST[node] + (unsigned)(*cur - 2);
		++*cur;
		if (IN.kind[c] != 0) {
			g_ent.d_name[0] = (char)('A' + c);
			g_ent.d_name[1] = 0;
			return &g_ent;
		}
	}
	return 0;
}
static int v_closedir(DIR *d) { (void)d; ++g_closed_total; return 0; }
static int v_lstat(const char *path, struct stat *st)
{
	unsigned n = node_of(path);
	VERIF_ASSERT(IN.kind[n] != 0 && !g_removed[n], "lstat of an existing entry");
	st->st_mode = IN.kind[n] == 2 ? S_IFDIR | 0755 : S_IFLNK | 0777;
	return 0;
}
static int v_rmdir(const char *path)
{
	unsigned n = node_of(path), k;
	VERIF_ASSERT(n != 0 && IN.kind[n] == 2, "only directories of the pool tree are removed, never a link or a foreign file");
	for (k = 0; k < COUNT[n]; ++k)
		VERIF_ASSERT(IN.kind[FIRST[n] + k] == 0 || g_removed[FIRST[n] + k], "a directory is removed only when nothing is left inside it");
	++g_rmdir_calls[n];
	if (IN.rmdir_fails)
		return -1;
	g_removed[n] = 1;
	return 0;
}
static void v_exit(int code)
{
	(void)code;
	VERIF_ASSERT(IN.rmdir_fails, "pool stops only when the file system reports an error");
#ifdef VERIF_NATIVE
	printf("VERIF-REACHED-END\n");
	exit(0);
#else
	__CPROVER_assume(0);
#endif
}

#define pathprint v_pathprint
#define pathslash v_pathslash
#define opendir v_opendir
#define readdir v_readdir
#define closedir v_closedir
#undef lstat
#define lstat v_lstat
#define rmdir v_rmdir
#define exit v_exit
#include "region_pool_clean_dir.c"
#undef pathprint
#undef pathslash
#undef opendir
#undef readdir
#undef closedir
#undef lstat
#undef rmdir
#undef exit

/* nothing but (recursively) empty directories below: computed bottom-up over the fixed shape */
static int is_empty(unsigned n, const unsigned char *e)
{
	unsigned k;
	if (IN.kind[n] != 2)
		return 0;
	for (k = 0; k < COUNT[n]; ++k)
		if (IN.kind[FIRST[n] + k] != 0 && !e[FIRST[n] + k])
			return 0;
	return 1;
}

void h_pool_clean_dir(void)
{
	static char ROOT[2] = "A";
	unsigned char e[NN];
	unsigned n;
	int n_i, full, left = 0;
	VERIF_INPUTS();
	for (n = 0; n < NN; ++n) {
		VERIF_ASSUME(IN.kind[n] <= 2);
		/* an entry exists only inside an existing directory */
		VERIF_ASSUME(n == 0 || IN.kind[n] == 0 || IN.kind[PARENT[n]] == 2);
		g_removed[n] = g_rmdir_calls[n] = g_open[n] = 0;
	}
	VERIF_ASSUME(IN.kind[0] == 2 && IN.kind[4] != 2 && IN.kind[5] != 2);
	g_opened_total = g_closed_total = 0;
	for (n_i = NN - 1; n_i >= 0; --n_i)
		e[n_i] = (unsigned char)is_empty((unsigned)n_i, e);
	full = clean_dir(ROOT);
	for (n = 1; n < NN; ++n)
		VERIF_ASSERT(!(IN.rmdir_fails && g_rmdir_calls[n]), "a failed removal stops the command");
	for (n = 1; n < NN; ++n) {
		VERIF_ASSERT(!(e[n] && IN.kind[n] == 2) || g_removed[n], "every directory left empty in the pool tree is removed, wherever it sits among links and files");
		VERIF_ASSERT(g_rmdir_calls[n] == (e[n] ? 1 : 0), "exactly the empty directories are removed, each once");
		if (PARENT[n] == 0 && IN.kind[n] != 0 && !e[n])
			left = 1;
	}
	VERIF_ASSERT((full != 0) == left, "the result says whether something is left");
	VERIF_ASSERT(g_opened_total == g_closed_total, "every directory opened is closed");
	VERIF_CANARY();
}

#include "verif_tail.h"
