/*
 * Past hashes of deleted and pending blocks (cmdline/scan.c), property C06 / C05: whole bodies of scan_file_deallocate and
 * scan_file_allocate, extracted mechanically, callees routed to stubs.
 *   scan_file_deallocate  every block of a removed file becomes DELETED; the hash it carries from then on must describe what
 *                         the PARITY still contains, or be the INVALID marker: a synced (BLK) block keeps its hash; a replaced
 *                         (REP) block - hash of data that never reached the parity - gets INVALID; a pending (CHG) block keeps
 *                         its past hash only when past hashes were sanitised at load time (clear_past_hash), else INVALID
 *   scan_file_allocate    every block of a new file takes the lowest position, from the first free one upwards, that holds no
 *                         file block; a deleted occupant is released first; a block with an inherited hash (REP) and no
 *                         rehash pending stays REP; any other becomes CHG whose past hash is ZERO over an empty position, the
 *                         hash of the deleted occupant over a deleted one (INVALID unless sanitised at load time)
 * Bounded: files of at most 2 blocks, 5 positions; hash size 16.
 */
#include "portable.h"
#include "support.h"
#include "elem.h"
#include "state.h"
#include "verif.h"

#define NB 2
#define NPOS 5

struct verif_in {
	block_off_t blockmax, first_free;
	unsigned st[NB];
	unsigned char hash[NB * 16];
	int clear_past_hash;
	/* allocate */
	unsigned pst[NPOS];          /* state of the occupant of each position: 0 empty, DELETED, or a file block (BLK) */
	unsigned char phash[NPOS * 16];
	int prehash[NPOS];
};
VERIF_DECLARE_IN

#ifdef VERIF_CBMC
int BLOCK_HASH_SIZE = 16;
void log_fatal(const char *format, ...) { (void)format; }
void log_tag(const char *format, ...) { (void)format; }
void os_abort(void) { VERIF_ASSERT(0, "internal-inconsistency branch reached"); __CPROVER_assume(0); }
void *malloc_nofail(size_t size) { void *q = malloc(size); __CPROVER_assume(q != 0); return q; }
#include "tommyds/tommyhash.c"
#endif

#include "cmdline/scan.c"

static struct snapraid_state ST;
static struct snapraid_disk DK;
static struct snapraid_scan SC;
static struct snapraid_file FL;
static unsigned char FB0[64], FB1[64];
static unsigned char *const FBLK[NB] = { FB0, FB1 };
static unsigned char PB0[64], PB1[64], PB2[64], PB3[64], PB4[64];
static unsigned char *const PBLK[NPOS] = { PB0, PB1, PB2, PB3, PB4 };

static unsigned g_list_remove, g_list_insert;
static tommy_list *g_insert_list, *g_remove_list;
static void a_list_remove(tommy_list *list, tommy_node *node) { (void)node; ++g_list_remove; g_remove_list = list; }
static void a_list_insert(tommy_list *list, tommy_node *node, void *data) { (void)node; (void)data; ++g_list_insert; g_insert_list = list; }
static struct snapraid_block *a_file2block(struct snapraid_file *file, block_off_t pos) { VERIF_ASSERT(file == &FL && pos < NB, "block of the file at hand"); return (struct snapraid_block *)FBLK[pos]; }
static int g_released[NPOS];
static int g_newat[NPOS];     /* 1 + index of the block of the new file placed at this position */
static struct snapraid_block *a_par2block(struct snapraid_disk *disk, block_off_t pos)
{
	(void)disk;
	VERIF_ASSERT(pos < NPOS, "position inside the modelled array");
	if (g_newat[pos])
		return (struct snapraid_block *)FBLK[g_newat[pos] - 1]; /* the map now holds the block just placed */
	if (IN.pst[pos] == 0 || g_released[pos])
		return BLOCK_NULL;
	return (struct snapraid_block *)PBLK[pos];
}
static unsigned g_dealloc_calls;
static void a_deallocate(struct snapraid_disk *disk, block_off_t pos) { (void)disk; VERIF_ASSERT(pos < NPOS && IN.pst[pos] == BLOCK_STATE_DELETED, "only a deleted occupant is released"); ++g_dealloc_calls; g_released[pos] = 1; }
static block_off_t g_alloc_pos[NB];
static unsigned g_alloc_calls;
static void a_allocate(struct snapraid_disk *disk, block_off_t pos, struct snapraid_file *file, block_off_t file_pos)
{ (void)disk; VERIF_ASSERT(file == &FL && file_pos < NB && pos < NPOS, "the block allocated belongs to the new file"); g_alloc_pos[file_pos] = pos; g_newat[pos] = (int)file_pos + 1; ++g_alloc_calls; }
static snapraid_info a_info_get(tommy_arrayblkof *a, block_off_t pos) { (void)a; VERIF_ASSERT(pos < NPOS, "info inside the array"); return info_make(8, 0, IN.prehash[pos] != 0, 0); }

#define tommy_list_remove_existing a_list_remove
#define tommy_list_insert_tail a_list_insert
#define fs_file2block_get a_file2block
#define fs_par2block_find a_par2block
#define fs_deallocate a_deallocate
#define fs_allocate a_allocate
#define info_get a_info_get
#include "region_scan_file_deallocate.c"
#include "region_scan_file_allocate.c"
#undef tommy_list_remove_existing
#undef tommy_list_insert_tail
#undef fs_file2block_get
#undef fs_par2block_find
#undef fs_deallocate
#undef fs_allocate
#undef info_get

/* the two markers as documented in cmdline/elem.h: INVALID = all bytes 0x00, ZERO block = all bytes 0xFF */
static int is_invalid16(const unsigned char *h) { int k, r = 1; for (k = 0; k < 16; ++k) if (h[k] != 0x00) r = 0; return r; }
static int is_zero16(const unsigned char *h) { int k, r = 1; for (k = 0; k < 16; ++k) if (h[k] != 0xff) r = 0; return r; }

static void common(void)
{
	unsigned i, k;
	VERIF_ASSUME(IN.blockmax >= 1 && IN.blockmax <= NB);
	ST.clear_past_hash = IN.clear_past_hash != 0;
	SC.state = &ST;
	SC.disk = &DK;
	SC.need_write = 0;
	FL.blockmax = IN.blockmax;
	FL.sub = "f";
	FL.flag = 0;
	for (i = 0; i < NB; ++i) {
		block_state_set((struct snapraid_block *)FBLK[i], IN.st[i]);
		for (k = 0; k < 16; ++k)
			((struct snapraid_block *)FBLK[i])->hash[k] = IN.hash[i * 16 + k];
	}
	g_list_remove = g_list_insert = 0;
}

void h_scan_file_deallocate(void)
{
	unsigned i, k;
	VERIF_INPUTS();
	for (i = 0; i < NB; ++i)
		VERIF_ASSUME(IN.st[i] == BLOCK_STATE_BLK || IN.st[i] == BLOCK_STATE_CHG || IN.st[i] == BLOCK_STATE_REP);
	common();
	DK.first_free_block = 0;
	region_scan_file_deallocate(&SC, &FL);
	VERIF_ASSERT(g_list_remove == 1 && g_remove_list == &DK.filelist && g_list_insert == 1 && g_insert_list == &DK.deletedlist && (FL.flag & FILE_IS_DELETED) && SC.need_write,
		"the removed file moves from the file list to the list of deleted files, flagged deleted; the state must be saved");
	for (i = 0; i < NB; ++i)
		if (i < IN.blockmax) {
			struct snapraid_block *b = (struct snapraid_block *)FBLK[i];
			int keep = IN.st[i] == BLOCK_STATE_BLK || (IN.st[i] == BLOCK_STATE_CHG && IN.clear_past_hash);
			VERIF_ASSERT(block_state_get(b) == BLOCK_STATE_DELETED, "every block of a removed file becomes a deleted block (its parity stays allocated)");
			if (keep) {
				for (k = 0; k < 16; ++k)
					VERIF_ASSERT(b->hash[k] == IN.hash[i * 16 + k], "a block whose hash describes what the parity contains keeps it as past hash");
			} else {
				VERIF_ASSERT(is_invalid16(b->hash), "a hash that does not describe what the parity contains (replaced data; an unsanitised pending block) is replaced by the INVALID marker");
			}
		}
	VERIF_CANARY();
}

void h_scan_file_allocate(void)
{
	unsigned i, k, p;
	block_off_t expect_pos[NB];
	block_off_t cur;
	int fits = 1;
	VERIF_INPUTS();
	for (i = 0; i < NB; ++i)
		VERIF_ASSUME(IN.st[i] == BLOCK_STATE_CHG || IN.st[i] == BLOCK_STATE_REP); /* a new file: no hash, or an inherited one */
	common();
	VERIF_ASSUME(IN.first_free < NPOS);
	DK.first_free_block = IN.first_free;
	for (p = 0; p < NPOS; ++p) {
		VERIF_ASSUME(IN.pst[p] == 0 || IN.pst[p] == BLOCK_STATE_DELETED || IN.pst[p] == BLOCK_STATE_BLK);
		g_released[p] = 0;
		g_newat[p] = 0;
		if (IN.pst[p]) {
			block_state_set((struct snapraid_block *)PBLK[p], IN.pst[p]);
			for (k = 0; k < 16; ++k)
				((struct snapraid_block *)PBLK[p])->hash[k] = IN.phash[p * 16 + k];
		}
	}
	/* the positions the documentation prescribes; the model must be large enough to hold the file */
	cur = IN.first_free;
	for (i = 0; i < NB; ++i)
		if (i < IN.blockmax) {
			while (cur < NPOS && IN.pst[cur] == BLOCK_STATE_BLK)
				++cur;
			if (cur >= NPOS)
				fits = 0;
			expect_pos[i] = cur;
			++cur;
		}
	VERIF_ASSUME(fits);
	g_dealloc_calls = g_alloc_calls = 0;

	region_scan_file_allocate(&SC, &FL);

	VERIF_ASSERT(g_alloc_calls == IN.blockmax && SC.need_write && g_list_insert == 1 && g_insert_list == &DK.filelist, "every block of the new file gets a position; the file joins the file list");
	for (i = 0; i < NB; ++i)
		if (i < IN.blockmax) {
			struct snapraid_block *b = (struct snapraid_block *)FBLK[i];
			block_off_t pos = expect_pos[i];
			VERIF_ASSERT(g_alloc_pos[i] == pos, "blocks take, in order, the lowest positions from the first free one that hold no file block");
			VERIF_ASSERT((g_released[pos] != 0) == (IN.pst[pos] == BLOCK_STATE_DELETED), "a deleted occupant is released before its position is reused");
			if (IN.st[i] == BLOCK_STATE_REP && !IN.prehash[pos]) {
				VERIF_ASSERT(block_state_get(b) == BLOCK_STATE_REP, "a block with an inherited hash stays provisional (REP)");
				for (k = 0; k < 16; ++k)
					VERIF_ASSERT(b->hash[k] == IN.hash[i * 16 + k], "and keeps that hash");
			} else {
				VERIF_ASSERT(block_state_get(b) == BLOCK_STATE_CHG, "any other new block is pending (CHG)");
				if (IN.pst[pos] == 0)
					VERIF_ASSERT(is_zero16(b->hash), "over an empty position the past hash is the ZERO marker (the parity holds zeros there)");
				else if (!IN.clear_past_hash)
					VERIF_ASSERT(is_invalid16(b->hash), "over a deleted block whose past hash was not sanitised at load time the past hash is INVALID");
				else
					for (k = 0; k < 16; ++k)
						VERIF_ASSERT(b->hash[k] == IN.phash[pos * 16 + k], "over a deleted block the past hash is the hash of that block: what the parity still contains");
			}
		}
	VERIF_ASSERT(DK.first_free_block == expect_pos[IN.blockmax - 1] + 1, "the first free position moves past the last block placed");
	VERIF_CANARY();
}

#include "verif_tail.h"
