/*
 * Atomic replacement of the content files, top level (cmdline/state.c state_write, REAL code included below):
 * the new copies are written, THEN verified against the checksum computed while writing, THEN renamed over the old
 * ones - in this order, each exactly once, the rename never without a preceding successful verification.
 * The three steps are replaced by typestate contracts (goto-instrument --dfcc); what each step does inside
 * (O_EXCL creation, flush, fsync, re-read, rename of every copy) and process death between them is NOT covered.
 */
#include "portable.h"
#include "support.h"
#include "elem.h"
#include "state.h"
#include "verif.h"

struct verif_in {
	uint32_t crc;
	int need_write, checked_read;
};
VERIF_DECLARE_IN

/* ghost typestate: 0 old copies only, 1 .tmp copies written, 2 .tmp copies verified, 3 renamed */
static int g_phase;
static uint32_t g_crc_written;

#include "cmdline/state.c"

static void state_write_content(struct snapraid_state *state, uint32_t *out_crc)
__CPROVER_requires(g_phase == 0)
__CPROVER_ensures(g_phase == 1 && *out_crc == g_crc_written)
__CPROVER_assigns(g_phase, *out_crc);

static void state_verify_content(struct snapraid_state *state, uint32_t crc)
__CPROVER_requires(g_phase == 1 && crc == g_crc_written)
__CPROVER_ensures(g_phase == 2)
__CPROVER_assigns(g_phase);

static void state_rename_content(struct snapraid_state *state)
__CPROVER_requires(g_phase == 2)
__CPROVER_ensures(g_phase == 3)
__CPROVER_assigns(g_phase);

void h_state_write(void)
{
	static struct snapraid_state st;
	VERIF_INPUTS();
	g_phase = 0;
	g_crc_written = IN.crc;
	st.need_write = IN.need_write;
	st.checked_read = IN.checked_read;
#ifdef VERIF_NATIVE
	exit(77);
#endif
	state_write(&st);
	VERIF_ASSERT(g_phase == 3, "state_write: written, then verified with the checksum computed while writing, then renamed");
	VERIF_ASSERT(st.need_write == 0 && st.checked_read == 0, "state_write clears need_write");
	VERIF_CANARY();
}

#include "verif_tail.h"
