/*
 * Atomic replacement of the content files, top level (cmdline/state.c state_write, REAL code included below):
 * the new copies are written, THEN verified against the checksum computed while writing, THEN renamed over the old
 * ones - in this order, each exactly once, the rename never without a preceding successful verification.
 * The three steps are replaced by typestate contracts (goto-instrument --dfcc); what each step does inside
 * (O_EXCL creation, flush, fsync, re-read, rename of every copy) and process death between them is NOT covered.
 */
#include "portable.h"
#include "support.h"
#include "elem.h"
#include "state.h"
#include "util.h"
#include "stream.h"
#include "verif.h"

struct verif_in {
	uint32_t crc;
	int need_write, checked_read;
	/* state_filter */
	int has_file_rules, has_disk_rules, filter_missing, filter_error;
	int by_disk[3], by_file[3], missing[3], incorrect; /* verdicts for the file, the link, the dir */
	int par_by_disk[2];
	unsigned level;
	/* state_verify_content */
	int ncopies, verdict[3];
};
VERIF_DECLARE_IN

/* ghost typestate: 0 old copies only, 1 .tmp copies written, 2 .tmp copies verified, 3 renamed */
static int g_phase;
static uint32_t g_crc_written;

static unsigned g_created, g_joined, g_closed;
static STREAM G_STREAMS[3];
#ifdef VERIF_CBMC
/* callees of state_verify_content by assumed contract: the k-th verification thread answers IN.verdict[k] */
STREAM *sopen_read(const char *file) { (void)file; return &G_STREAMS[g_created < 3 ? g_created : 2]; }
int sclose(STREAM *s) { (void)s; ++g_closed; return 0; }
void thread_create(thread_id_t *thread, void *(*func)(void *), void *arg) { (void)func; (void)arg; *thread = (thread_id_t)(g_created + 1); ++g_created; }
void thread_join(thread_id_t thread, void **retval) { unsigned k = (unsigned)thread - 1; ++g_joined; *retval = IN.verdict[k < 3 ? k : 2] ? (void *)-1 : (void *)0; }
void *malloc_nofail(size_t size) { void *p = malloc(size); __CPROVER_assume(p != 0); return p; }
void pathprint(char *dst, size_t size, const char *format, ...) { (void)format; if (size) dst[0] = 0; }
void log_fatal(const char *format, ...) { (void)format; }
void exit(int code) { (void)code; __CPROVER_assume(0); }
void msg_progress(const char *format, ...) { (void)format; }
void msg_verbose(const char *format, ...) { (void)format; }
#endif

#include "cmdline/state.c"

static void state_write_content(struct snapraid_state *state, uint32_t *out_crc)
__CPROVER_requires(g_phase == 0)
__CPROVER_ensures(g_phase == 1 && *out_crc == g_crc_written)
__CPROVER_assigns(g_phase, *out_crc);

static void state_verify_content(struct snapraid_state *state, uint32_t crc)
__CPROVER_requires(g_phase == 1 && crc == g_crc_written)
__CPROVER_ensures(g_phase == 2)
__CPROVER_assigns(g_phase);

static void state_rename_content(struct snapraid_state *state)
__CPROVER_requires(g_phase == 2)
__CPROVER_ensures(g_phase == 3)
__CPROVER_assigns(g_phase);

/* ---------------------------------------------------------------- state_filter (C18: -f / -d / -m / -e selection) */
static tommy_list FL_FILE, FL_DISK;
static struct snapraid_filter FF, FD;
static struct snapraid_disk SD;
static struct snapraid_file SF;
static struct snapraid_link SL;
static struct snapraid_dir SDIR;
static const char *const SUBS[3] = { "file", "link", "dir" };

static int which_sub(const char *sub)
{
	return sub == SUBS[0] ? 0 : sub == SUBS[1] ? 1 : 2;
}

int filter_path(tommy_list *filterlist, struct snapraid_filter **reason, const char *disk, const char *sub)
__CPROVER_requires(filterlist == &FL_FILE || filterlist == &FL_DISK)
__CPROVER_ensures(__CPROVER_return_value == (sub == 0
	? (IN.par_by_disk[disk == lev_config_name(0) ? 0 : 1] ? -1 : 0)
	/* an empty rule list includes everything (filter_element, unit filter.rule_list.*.nf0) */
	: ((filterlist == &FL_DISK ? (IN.has_disk_rules && IN.by_disk[which_sub(sub)]) : (IN.has_file_rules && IN.by_file[which_sub(sub)])) ? -1 : 0)))
__CPROVER_assigns();

int filter_emptydir(tommy_list *filterlist, struct snapraid_filter **reason, const char *disk, const char *sub)
__CPROVER_requires(filterlist == &FL_FILE || filterlist == &FL_DISK)
__CPROVER_ensures(__CPROVER_return_value == ((filterlist == &FL_DISK ? (IN.has_disk_rules && IN.by_disk[2]) : (IN.has_file_rules && IN.by_file[2])) ? -1 : 0))
__CPROVER_assigns();

int filter_existence(int filter_missing, const char *dir, const char *sub)
__CPROVER_ensures(__CPROVER_return_value == (filter_missing && IN.missing[which_sub(sub)] ? 1 : 0))
__CPROVER_assigns();

int filter_correctness(int filter_error, tommy_arrayblkof *infoarr, struct snapraid_disk *disk, struct snapraid_file *file)
__CPROVER_ensures(__CPROVER_return_value == (filter_error && IN.incorrect ? 1 : 0))
__CPROVER_assigns();

void h_state_filter(void)
{
	static struct snapraid_state st;
	static tommy_node dn;
	int any, e[3];
	unsigned l;
	VERIF_INPUTS();
	VERIF_ASSUME(IN.level >= 1 && IN.level <= 2);
	tommy_list_init(&FL_FILE);
	tommy_list_init(&FL_DISK);
	if (IN.has_file_rules)
		tommy_list_insert_tail(&FL_FILE, &FF.node, &FF);
	if (IN.has_disk_rules)
		tommy_list_insert_tail(&FL_DISK, &FD.node, &FD);
	FD.is_disk = 1;
	tommy_list_init(&st.disklist);
	tommy_list_insert_tail(&st.disklist, &dn, &SD);
	tommy_list_init(&SD.filelist);
	tommy_list_init(&SD.linklist);
	tommy_list_init(&SD.dirlist);
	SF.sub = (char *)SUBS[0];
	SL.sub = (char *)SUBS[1];
	SDIR.sub = (char *)SUBS[2];
	tommy_list_insert_tail(&SD.filelist, &SF.nodelist, &SF);
	tommy_list_insert_tail(&SD.linklist, &SL.nodelist, &SL);
	tommy_list_insert_tail(&SD.dirlist, &SDIR.nodelist, &SDIR);
	st.level = IN.level;
	/* goto-instrument --dfcc leaves statics nondeterministic: every field that matters is set here */
	SF.flag = SL.flag = SDIR.flag = 0;
	st.parity[0].is_excluded_by_filter = st.parity[1].is_excluded_by_filter = 0;
#ifdef VERIF_NATIVE
	exit(77);
#endif
	state_filter(&st, &FL_FILE, &FL_DISK, IN.filter_missing != 0, IN.filter_error != 0);

	any = IN.filter_missing || IN.filter_error || IN.has_file_rules || IN.has_disk_rules;
	e[0] = any && ((IN.has_disk_rules && IN.by_disk[0]) || (IN.has_file_rules && IN.by_file[0]) || (IN.filter_missing && IN.missing[0]) || (IN.filter_error && IN.incorrect));
	e[1] = any && ((IN.has_disk_rules && IN.by_disk[1]) || (IN.has_file_rules && IN.by_file[1]) || (IN.filter_missing && IN.missing[1]));
	e[2] = any && ((IN.has_disk_rules && IN.by_disk[2]) || (IN.has_file_rules && IN.by_file[2]) || (IN.filter_missing && IN.missing[2]));
	VERIF_ASSERT(file_flag_has(&SF, FILE_IS_EXCLUDED) == e[0], "a file is excluded from check/fix iff the disk rules, the file rules, -m or -e say so");
	VERIF_ASSERT(link_flag_has(&SL, FILE_IS_EXCLUDED) == e[1], "a link is excluded iff the disk rules, the file rules or -m say so");
	VERIF_ASSERT(dir_flag_has(&SDIR, FILE_IS_EXCLUDED) == e[2], "an empty directory is excluded iff the disk rules, the file rules or -m say so");
	for (l = 0; l < 2; ++l)
		if (l < IN.level) {
			int ex = !any ? 0 : IN.has_disk_rules ? (IN.par_by_disk[l] != 0) : (IN.filter_missing || IN.has_file_rules);
			VERIF_ASSERT(st.parity[l].is_excluded_by_filter == ex, "parity is touched only when selected by a disk rule, or when no file/missing selection is active");
		}
	VERIF_CANARY();
}

/*
 * state_verify_content (REAL body): it returns - letting state_write go on to the rename - ONLY when the verification
 * of EVERY content copy succeeded; one failing copy, whichever it is, stops the process before any rename.
 */
void h_verify_all(void)
{
	static struct snapraid_state st;
	static struct snapraid_content C[3];
	int k, allok = 1;
	VERIF_INPUTS();
	VERIF_ASSUME(IN.ncopies >= 1 && IN.ncopies <= 3);
	tommy_list_init(&st.contentlist);
	for (k = 0; k < 3; ++k)
		if (k < IN.ncopies) {
			C[k].content[0] = 'c';
			C[k].content[1] = 0;
			tommy_list_insert_tail(&st.contentlist, &C[k].node, &C[k]);
			allok &= !IN.verdict[k];
		}
	g_created = g_joined = g_closed = 0;
#ifdef VERIF_NATIVE
	exit(77);
#endif
	state_verify_content(&st, IN.crc);
	/* reached only if the function returned */
	VERIF_ASSERT(allok, "state_verify_content returns only when every content copy passed its verification");
	VERIF_ASSERT(g_created == (unsigned)IN.ncopies && g_joined == (unsigned)IN.ncopies && g_closed == (unsigned)IN.ncopies, "every copy is re-read, joined and closed exactly once");
	VERIF_CANARY(); /* reachable exactly in the all-ok case */
}

void h_state_write(void)
{
	static struct snapraid_state st;
	VERIF_INPUTS();
	g_phase = 0;
	g_crc_written = IN.crc;
	st.need_write = IN.need_write;
	st.checked_read = IN.checked_read;
#ifdef VERIF_NATIVE
	exit(77);
#endif
	state_write(&st);
	VERIF_ASSERT(g_phase == 3, "state_write: written, then verified with the checksum computed while writing, then renamed");
	VERIF_ASSERT(st.need_write == 0 && st.checked_read == 0, "state_write clears need_write");
	VERIF_CANARY();
}

#include "verif_tail.h"
