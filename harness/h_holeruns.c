/*
 * 'h' (hole) record of the content file (cmdline/state.c): the blocks of DELETED files are kept, with their hashes, until
 * the parity no longer depends on them - an interrupted sync is recoverable only because of them.  The writer loop of
 * state_write_thread and the reader loop of state_read_content are extracted mechanically and connected through a recorded
 * event stream.
 *   decode(encode(disk)): exactly the parity positions that held a deleted block hold one again, with the hash that was
 *   saved (or the INVALID marker when sync loads the state: clear_past_hash), in state DELETED, owned by a fake file that is
 *   flagged deleted, sized by its run and linked in the list of deleted files; the other positions are left alone;
 *   the runs written partition 0..blockmax in order.
 * Bounded: NP (3) parity positions, hash size 4.  fs_is_block_deleted / fs_par2block_get / file_alloc / fs_file2block_get /
 * fs_allocate by stub over a small model of the disk; list functions and flags are the real ones.
 */
#include "portable.h"
#include "support.h"
#include "elem.h"
#include "state.h"
#include "stream.h"
#include "verif.h"

#define NP 3
#define HS 4
#define NEV 12

struct verif_in {
	block_off_t blockmax;
	int del[NP];
	unsigned char hash[NP * HS];
	int clear_past_hash;
	unsigned mapping_idx;
};
VERIF_DECLARE_IN

#ifdef VERIF_CBMC
int BLOCK_HASH_SIZE = HS;
void log_fatal(const char *format, ...) { (void)format; }
void log_tag(const char *format, ...) { (void)format; }
#endif
static void v_abort(void)
{
	VERIF_ASSERT(0, "the reader accepts what the writer wrote");
#ifdef VERIF_NATIVE
	exit(1);
#else
	__CPROVER_assume(0);
#endif
}

static unsigned g_n, g_r;
static unsigned char g_kind[NEV];
static uint32_t g_val[NEV];
static unsigned char g_raw[NEV * HS];

static int w_putc(int c, STREAM *s) { (void)s; VERIF_ASSERT(g_n < NEV, "event log large enough"); g_kind[g_n] = 1; g_val[g_n] = (unsigned char)c; ++g_n; return 0; }
static int w_putb32(uint32_t v, STREAM *s) { (void)s; VERIF_ASSERT(g_n < NEV, "event log large enough"); g_kind[g_n] = 2; g_val[g_n] = v; ++g_n; return 0; }
static int w_write(const void *data, unsigned size, STREAM *s)
{
	(void)s;
	VERIF_ASSERT(g_n < NEV && size == HS, "a hash is written with the configured hash size");
	g_kind[g_n] = 3;
	memcpy(&g_raw[g_n * HS], data, HS);
	++g_n;
	return 0;
}
static int w_error(STREAM *s) { (void)s; return 0; }
static const char *w_errorfile(STREAM *s) { (void)s; return "content"; }
static int r_getc(STREAM *s) { (void)s; VERIF_ASSERT(g_r < g_n && g_kind[g_r] == 1, "the reader asks for a byte where the writer put one"); return (int)g_val[g_r++]; }
static int r_getb32(STREAM *s, uint32_t *v) { (void)s; VERIF_ASSERT(g_r < g_n && g_kind[g_r] == 2, "the reader asks for an integer where the writer put one"); *v = g_val[g_r++]; return 0; }
static int r_read(STREAM *s, void *data, unsigned size)
{
	(void)s;
	VERIF_ASSERT(g_r < g_n && g_kind[g_r] == 3 && size == HS, "the reader asks for a hash where the writer put one");
	memcpy(data, &g_raw[g_r * HS], HS);
	++g_r;
	return 0;
}
static void decoding_error(const char *path, STREAM *f) { (void)path; (void)f; }

/* the disk written: one block per parity position; the disk rebuilt: up to two fake files (runs of deleted blocks) */
static unsigned char WV[NP * 64];
static unsigned char RV0[NP * 64], RV1[NP * 64];
static struct snapraid_file RF0, RF1;
static struct snapraid_file *const RF[2] = { &RF0, &RF1 };
static struct snapraid_disk WD, RD;
static unsigned g_files;
static int g_pos_file[NP], g_pos_idx[NP];
static unsigned g_alloc_calls;

static int h_is_deleted(struct snapraid_disk *disk, block_off_t pos) { VERIF_ASSERT(disk == &WD && pos < IN.blockmax && pos < NP, "a position of the array"); return IN.del[pos] != 0; }
static struct snapraid_block *h_par2block(struct snapraid_disk *disk, block_off_t pos)
{
	VERIF_ASSERT(disk == &WD && pos < IN.blockmax && pos < NP && IN.del[pos], "the hash of a deleted block is taken from that block");
	return (struct snapraid_block *)(WV + pos * 64);
}
static struct snapraid_file *h_file_alloc(unsigned block_size, const char *sub, data_off_t size, int64_t mtime_sec, int mtime_nsec, uint64_t inode, uint64_t physical)
{
	(void)sub; (void)mtime_sec; (void)mtime_nsec; (void)inode; (void)physical;
	VERIF_ASSERT(g_files < 2, "one fake file per run of deleted blocks");
	RF[g_files]->size = size;
	RF[g_files]->blockmax = (block_off_t)(size / block_size);
	RF[g_files]->flag = 0;
	return RF[g_files++];
}
static struct snapraid_block *h_file2block(struct snapraid_file *file, block_off_t pos)
{
	VERIF_ASSERT(pos < file->blockmax && pos < NP, "block index inside the fake file");
	return (struct snapraid_block *)((file == &RF0 ? RV0 : RV1) + pos * 64);
}
static void h_allocate(struct snapraid_disk *disk, block_off_t parity_pos, struct snapraid_file *file, block_off_t file_pos)
{
	VERIF_ASSERT(disk == &RD && parity_pos < NP && parity_pos < IN.blockmax, "a position of the array");
	VERIF_ASSERT(g_pos_file[parity_pos] < 0, "a position is given one block");
	g_pos_file[parity_pos] = file == &RF0 ? 0 : 1;
	g_pos_idx[parity_pos] = (int)file_pos;
	++g_alloc_calls;
}

#define sputc w_putc
#define sputb32 w_putb32
#define swrite w_write
#define serror w_error
#define serrorfile w_errorfile
#define sgetc r_getc
#define sgetb32 r_getb32
#define sread r_read
#define os_abort v_abort
#define fs_is_block_deleted h_is_deleted
#define fs_par2block_get h_par2block
#define file_alloc h_file_alloc
#define fs_file2block_get h_file2block
#define fs_allocate h_allocate
#include "region_hole_write.c"
#include "region_hole_read.c"
#undef sputc
#undef sputb32
#undef swrite
#undef serror
#undef serrorfile
#undef sgetc
#undef sgetb32
#undef sread
#undef os_abort
#undef fs_is_block_deleted
#undef fs_par2block_get
#undef file_alloc
#undef fs_file2block_get
#undef fs_allocate

void h_holeruns(void)
{
	static struct snapraid_state ST;
	block_off_t p;
	unsigned e, covered = 0, k, nlist = 0;
	tommy_node *node;
	VERIF_INPUTS();
	VERIF_ASSUME(IN.blockmax <= NP);
	ST.block_size = 256;
	ST.clear_past_hash = IN.clear_past_hash != 0;
	WD.mapping_idx = (int)(IN.mapping_idx & 0xff);
	tommy_list_init(&RD.deletedlist);
	for (p = 0; p < NP; ++p) {
		block_state_set((struct snapraid_block *)(WV + p * 64), BLOCK_STATE_DELETED);
		memcpy(((struct snapraid_block *)(WV + p * 64))->hash, &IN.hash[p * HS], HS);
		g_pos_file[p] = -1;
		g_pos_idx[p] = -1;
	}
	g_n = g_r = g_files = g_alloc_calls = 0;

	VERIF_ASSERT(region_hole_write(&WD, 0, IN.blockmax, (void *)1) == 0, "the writer completes");

	VERIF_ASSERT(g_n >= 2 && g_kind[0] == 1 && g_val[0] == 'h' && g_kind[1] == 2 && g_val[1] == (IN.mapping_idx & 0xff), "the record starts with its letter and the index of the disk");
	e = 2;
	for (k = 0; k < NP; ++k)
		if (e < g_n) {
			unsigned cnt;
			VERIF_ASSERT(g_kind[e] == 2 && g_kind[e + 1] == 1, "a run is a count and a kind letter");
			cnt = g_val[e];
			VERIF_ASSERT(cnt >= 1 && covered + cnt <= IN.blockmax, "runs are not empty and stay inside the array");
			VERIF_ASSERT(g_val[e + 1] == (IN.del[covered] ? 'o' : 'O'), "the kind of a run is the one of its first position");
			e += 2 + (IN.del[covered] ? cnt : 0);
			covered += cnt;
		}
	VERIF_ASSERT(e == g_n && covered == IN.blockmax, "the runs cover every position of the array exactly once, in order");

	g_r = 2; /* letter and disk index are consumed by the dispatcher and the mapping guard (unit state.h_record.mapping_guard) */
	region_hole_read(&ST, &RD, 0, "content", IN.blockmax);

	VERIF_ASSERT(g_r == g_n, "the reader consumes exactly what the writer produced");
	for (p = 0; p < NP; ++p)
		if (p < IN.blockmax) {
			if (!IN.del[p]) {
				VERIF_ASSERT(g_pos_file[p] < 0, "a position without a deleted block stays without one");
			} else {
				struct snapraid_block *b;
				unsigned char expect[HS];
				VERIF_ASSERT(g_pos_file[p] >= 0, "a deleted block is still there after a save and reload");
				b = (struct snapraid_block *)((g_pos_file[p] == 0 ? RV0 : RV1) + g_pos_idx[p] * 64);
				VERIF_ASSERT(block_state_get(b) == BLOCK_STATE_DELETED, "it is in state DELETED");
				if (IN.clear_past_hash) memset(expect, 0, HS); else memcpy(expect, &IN.hash[p * HS], HS);
				VERIF_ASSERT(memcmp(b->hash, expect, HS) == 0, "with the hash that was saved (the INVALID marker when sync loads the state)");
				VERIF_ASSERT(file_flag_has(RF[g_pos_file[p]], FILE_IS_DELETED), "owned by a file flagged as deleted");
				/* consecutive deleted positions share a file, consecutive indexes */
				if (p > 0 && IN.del[p - 1])
					VERIF_ASSERT(g_pos_file[p] == g_pos_file[p - 1] && g_pos_idx[p] == g_pos_idx[p - 1] + 1, "a run of deleted blocks is one fake file");
				else
					VERIF_ASSERT(g_pos_idx[p] == 0, "a run starts a new fake file");
			}
		}
	for (node = tommy_list_head(&RD.deletedlist); node != 0 && nlist < 3; node = node->next)
		++nlist;
	VERIF_ASSERT(nlist == g_files, "every fake file is linked in the list of deleted files of the disk");
	for (k = 0; k < 2; ++k)
		if (k < g_files)
			VERIF_ASSERT(RF[k]->size == (data_off_t)RF[k]->blockmax * 256 && RF[k]->blockmax >= 1, "the fake file is sized by its run");
	VERIF_CANARY();
}

#include "verif_tail.h"
