/*
 * state_check (cmdline/check.c): the step that decides whether the stripes AND the file-level pass (empty files, links,
 * empty directories - they live at the end of state_check_process) are processed at all.  Region extracted mechanically.
 * Property C01 / C05: fix restores every file, link and empty directory recorded by the sync - also in an array that has
 * no data block at all (only empty files, links and directories: the parity is empty, blockmax == 0).
 *   - a command over the whole array (no -B range) always runs the processing step, whatever the size of the parity
 *   - the step receives the range asked for; its failure is counted
 */
#include "portable.h"
#include "support.h"
#include "elem.h"
#include "state.h"
#include "parity.h"
#include "verif.h"

struct verif_in {
	block_off_t blockstart, blockmax;
	int fix, process_ret;
};
VERIF_DECLARE_IN

static unsigned g_calls;
static block_off_t g_start, g_max;
static int g_fix;
static int v_process(struct snapraid_state *state, int fix, struct snapraid_parity_handle **parity, block_off_t blockstart, block_off_t blockmax)
{
	(void)state; (void)parity;
	++g_calls; g_fix = fix; g_start = blockstart; g_max = blockmax;
	return IN.process_ret ? -1 : 0;
}

#define state_check_process v_process
#include "region_check_gate.c"
#undef state_check_process

void h_check_gate(void)
{
	static struct snapraid_state ST;
	static struct snapraid_parity_handle *PP[LEV_MAX];
	unsigned error = 0;
	VERIF_INPUTS();
	/* state_check stops before this point when the start lies beyond the end */
	VERIF_ASSUME(IN.blockstart <= IN.blockmax);
	g_calls = 0;
	region_check_gate(&ST, IN.fix, PP, IN.blockstart, IN.blockmax, &error);
	VERIF_ASSERT(g_calls <= 1, "the processing step runs at most once");
	if (IN.blockstart == 0)
		VERIF_ASSERT(g_calls == 1, "a check / fix over the whole array always runs the processing step: an array without data blocks still has its empty files, links and directories to restore");
	if (IN.blockstart < IN.blockmax)
		VERIF_ASSERT(g_calls == 1, "a non-empty range is processed");
	if (g_calls) {
		VERIF_ASSERT(g_start == IN.blockstart && g_max == IN.blockmax && g_fix == IN.fix, "the step receives the range and the mode asked for");
		VERIF_ASSERT((error != 0) == (IN.process_ret != 0), "a failure of the step is counted");
	} else
		VERIF_ASSERT(error == 0, "no error without processing");
	VERIF_CANARY();
}

#include "verif_tail.h"
