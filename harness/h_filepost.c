/*
 * file_post() (cmdline/check.c): what check / fix do when the LAST block of a file has been processed - as a mechanically
 * extracted copy of the whole function body, callees routed to recording stubs; one disk slot.
 *   - check (no fix flag): nothing is renamed, no time-stamp is set
 *   - fix, file excluded by the filters (or unsynced with syncedonly), or block not the last of its file: nothing
 *   - fix, file DAMAGED (some reconstruction was not trustworthy / a write failed): renamed to <name>.unrecoverable, the
 *     time-stamp is NOT restored
 *   - fix, file FIXED and not damaged: the synced modification time is restored - unless another recorded file has the
 *     inode the fixed file now has AND the same size and full time-stamp (then the time alone is left unset)
 *   - fix, file untouched: nothing
 */
#include "portable.h"
#include "support.h"
#include "elem.h"
#include "state.h"
#include "parity.h"
#include "handle.h"
#include "verif.h"

struct verif_in {
	int fix, syncedonly, auditonly;
	int has_disk, block_state, is_last;
	unsigned fflag;
	int handle_has_file;           /* the handle currently holds: 0 nothing, 1 this file, 2 another file */
	int collide;                   /* 0 none, 1 same name, 2 another file */
	int64_t c_size, c_mtime, f_size, f_mtime;
	int c_nsec, f_nsec;
	int close_ret, rename_ret, open_ret, utime_ret;
	/* open region */
	int create_ret, created, truncate_ret, expected_missing;
	unsigned oflag;
	int64_t o_size, o_mtime; int o_nsec;
	unsigned of0, oe0, ou0, or0;
};
VERIF_DECLARE_IN

#ifdef VERIF_CBMC
int msg_level = 0;
void log_tag(const char *format, ...) { (void)format; }
void log_fatal(const char *format, ...) { (void)format; }
void log_error(const char *format, ...) { (void)format; }
void msg_info(const char *format, ...) { (void)format; }
void os_abort(void) { __CPROVER_assume(0); }
void *malloc_nofail(size_t size) { void *q = malloc(size); __CPROVER_assume(q != 0); return q; }
void pathprint(char *dst, size_t size, const char *format, ...) { (void)format; if (size) dst[0] = 0; }
#include "tommyds/tommyhash.c"
#endif

#include "cmdline/check.c"

/* handle_close is the REAL one (cmdline/handle.c); only the close() system call under it is a stub */
static unsigned g_sysclose;
static int p_sysclose(int fd);
#define close p_sysclose
#include "cmdline/handle.c"
#undef close

static struct snapraid_disk DK;
static struct snapraid_file FL, OTHER, COLL;
static struct snapraid_handle HANDLE[1];
static unsigned char BLKMEM[64];
static char NAME[] = "f", NAME2[] = "g";

static unsigned g_rename, g_utime, g_close, g_open;
static struct snapraid_block *p_par2block_find(struct snapraid_disk *disk, block_off_t pos) { (void)disk; (void)pos; return IN.block_state ? (struct snapraid_block *)BLKMEM : BLOCK_NULL; }
static struct snapraid_file *p_par2file_get(struct snapraid_disk *disk, block_off_t pos, block_off_t *file_pos) { (void)disk; (void)pos; *file_pos = 3; return &FL; }
static int p_is_last(struct snapraid_file *file, block_off_t file_pos) { (void)file; VERIF_ASSERT(file_pos == 3, "the position inside the file is the one of the stripe"); return IN.is_last != 0; }
static int p_sysclose(int fd) { (void)fd; ++g_sysclose; return IN.close_ret ? -1 : 0; }
static int p_open(struct snapraid_handle *h, struct snapraid_file *file, int mode, fptr *out, fptr *out_missing)
{ (void)mode; (void)out; (void)out_missing; ++g_open; if (IN.open_ret) return -1; h->file = file; h->f = 5; h->st.st_ino = 77; return 0; }
static int p_utime(struct snapraid_handle *h) { VERIF_ASSERT(h->file == &FL, "the time is set on the file just finished"); ++g_utime; return IN.utime_ret ? -1 : 0; }
static int p_rename(const char *from, const char *to) { (void)from; (void)to; ++g_rename; return IN.rename_ret ? -1 : 0; }
static void *p_search(tommy_hashdyn *h, tommy_search_func *cmp, const void *arg, tommy_hash_t hash)
{ (void)cmp; (void)arg; (void)hash; VERIF_ASSERT(h == &DK.inodeset, "the inode index of the disk"); return IN.collide == 0 ? 0 : IN.collide == 1 ? (void *)&FL : (void *)&COLL; }
static const char *p_esc(const char *str, char *buffer) { (void)buffer; return str; }
static const char *p_fmt(const struct snapraid_disk *disk, const char *str, char *buffer) { (void)disk; (void)buffer; return str; }

#define fs_par2block_find p_par2block_find
#define fs_par2file_get p_par2file_get
#define file_block_is_last p_is_last
#define handle_open p_open
#define handle_utime p_utime
#define rename p_rename
#define tommy_hashdyn_search p_search
#define esc_tag p_esc
#define fmt_term p_fmt
#include "region_file_post.c"
#undef fs_par2block_find
#undef fs_par2file_get
#undef file_block_is_last
#undef handle_open
#undef handle_utime
#undef rename
#undef tommy_hashdyn_search
#undef esc_tag
#undef fmt_term

void h_file_post(void)
{
	static struct snapraid_state ST;
	int r, active, excluded, damaged, fixed, same_stamp;
	VERIF_INPUTS();
	ST.opt.syncedonly = IN.syncedonly != 0;
	ST.opt.auditonly = IN.auditonly != 0;
	VERIF_ASSUME(IN.block_state == 0 || IN.block_state == BLOCK_STATE_BLK || IN.block_state == BLOCK_STATE_CHG || IN.block_state == BLOCK_STATE_REP || IN.block_state == BLOCK_STATE_DELETED);
	if (IN.block_state)
		block_state_set((struct snapraid_block *)BLKMEM, IN.block_state);
	VERIF_ASSUME(IN.handle_has_file >= 0 && IN.handle_has_file <= 2 && IN.collide >= 0 && IN.collide <= 2);
	FL.sub = NAME; FL.flag = IN.fflag & (FILE_IS_EXCLUDED | FILE_IS_UNSYNCED | FILE_IS_DAMAGED | FILE_IS_FIXED);
	FL.size = IN.f_size; FL.mtime_sec = IN.f_mtime; FL.mtime_nsec = IN.f_nsec;
	COLL.sub = NAME2; COLL.size = IN.c_size; COLL.mtime_sec = IN.c_mtime; COLL.mtime_nsec = IN.c_nsec;
	OTHER.sub = NAME2;
	HANDLE[0].disk = IN.has_disk ? &DK : 0;
	HANDLE[0].file = IN.handle_has_file == 1 ? &FL : IN.handle_has_file == 2 ? &OTHER : 0;
	HANDLE[0].f = IN.handle_has_file ? 5 : -1;
	HANDLE[0].st.st_ino = 77;
	g_rename = g_utime = g_close = g_open = g_sysclose = 0;

	r = region_file_post(&ST, IN.fix, 9, HANDLE, 1);

	active = IN.has_disk && (IN.block_state == BLOCK_STATE_BLK || IN.block_state == BLOCK_STATE_CHG || IN.block_state == BLOCK_STATE_REP) && IN.is_last;
	excluded = (FL.flag & FILE_IS_EXCLUDED) || (IN.syncedonly && (IN.fflag & FILE_IS_UNSYNCED));
	damaged = (IN.fflag & FILE_IS_DAMAGED) != 0;
	fixed = (IN.fflag & FILE_IS_FIXED) != 0;
	same_stamp = IN.c_size == IN.f_size && IN.c_mtime == IN.f_mtime && IN.c_nsec == IN.f_nsec;
	if (!IN.fix || !active || excluded) {
		VERIF_ASSERT(g_rename == 0 && g_utime == 0, "check, an excluded file, or a block that does not end its file: nothing is renamed, no time-stamp is set");
	} else if (damaged) {
		VERIF_ASSERT(g_utime == 0, "a damaged file never gets the synced time-stamp");
		if (r == 0)
			VERIF_ASSERT(g_rename == 1, "a file that could not be restored for sure is renamed to .unrecoverable");
		else
			VERIF_ASSERT(g_rename <= 1, "at most one rename");
	} else if (fixed) {
		VERIF_ASSERT(g_rename == 0, "a recovered file keeps its name");
		if (r == 0)
			VERIF_ASSERT(g_utime == ((IN.collide == 2 && same_stamp) ? 0u : 1u),
				"a recovered file gets its synced modification time back, unless another recorded file with the same size and time-stamp holds its inode");
	} else {
		VERIF_ASSERT(g_rename == 0 && g_utime == 0, "an untouched file is left alone");
	}
	if (r == 0 && IN.has_disk && active)
		VERIF_ASSERT(HANDLE[0].file != &FL, "the file is closed once its last block is done");
	VERIF_CANARY();
}


/*
 * Opening the file of a block in check / fix (state_check_process, region "if the file is closed or different than the current
 * one" up to "read from the file"; REAL handle_close, everything else routed to recording stubs):
 *   - only fix, and only for a file NOT excluded by the filters, opens for writing / creates (handle_create); every other case
 *     opens read-only, and a file already known to be missing is not opened at all
 *   - a file that cannot be opened enters the failed set as bad and is remembered as missing
 *   - at its first open a file whose size or time-stamp differs from the record is flagged unsynced
 *   - a file larger than recorded is an error; it is cut to the recorded size only by fix, only if selected
 *   - no step touches memory it does not own (a failing close of ANOTHER file included)
 */
#ifdef VERIF_OPEN_REGION
static unsigned g_create, g_trunc, g_open2;
static int o_create(struct snapraid_handle *h, struct snapraid_file *file, int mode)
{
	(void)mode; ++g_create;
	if (IN.create_ret) return -1;
	h->file = file; h->f = 5; h->created = IN.created != 0;
	h->st.st_size = IN.o_size; h->st.st_mtime = IN.o_mtime; h->st.st_mtim.tv_nsec = IN.o_nsec;
	return 0;
}
static int o_open(struct snapraid_handle *h, struct snapraid_file *file, int mode, fptr *out, fptr *out_missing)
{
	(void)mode; (void)out; (void)out_missing; ++g_open2;
	if (IN.open_ret) return -1;
	h->file = file; h->f = 5; h->created = 0;
	h->st.st_size = IN.o_size; h->st.st_mtime = IN.o_mtime; h->st.st_mtim.tv_nsec = IN.o_nsec;
	return 0;
}
static int o_truncate(struct snapraid_handle *h, struct snapraid_file *file) { (void)h; (void)file; ++g_trunc; return IN.truncate_ret ? -1 : 0; }
static void o_log(const char *format, ...) { (void)format; }
#define handle_create o_create
#define handle_open o_open
#define handle_truncate o_truncate
#define esc_tag p_esc
#define log_expected o_log
#include "region_check_open.c"
#undef handle_create
#undef handle_open
#undef handle_truncate
#undef esc_tag
#undef log_expected

void h_check_open(void)
{
	static struct snapraid_state ST;
	static struct failed_struct FAILED[4];
	static unsigned char BLK[64];
	unsigned failed_count, error, unrec, recov;
	int bailed = 0, skipped = 0, excluded, writable, differs, larger, selected;
	VERIF_INPUTS();
	VERIF_ASSUME(IN.of0 <= 2 && IN.oe0 < 100000 && IN.ou0 < 100000 && IN.or0 < 100000);
	VERIF_ASSUME(IN.handle_has_file >= 0 && IN.handle_has_file <= 2);
	VERIF_ASSUME(IN.o_nsec >= 0 && IN.o_nsec < 1000000000 && IN.o_size >= 0 && IN.f_size >= 0);
	ST.opt.syncedonly = IN.syncedonly != 0;
	ST.opt.expected_missing = IN.expected_missing != 0;
	FL.sub = NAME; OTHER.sub = NAME2;
	FL.flag = IN.oflag & (FILE_IS_EXCLUDED | FILE_IS_MISSING | FILE_IS_OPENED | FILE_IS_UNSYNCED);
	FL.size = IN.f_size; FL.mtime_sec = IN.f_mtime; FL.mtime_nsec = IN.f_nsec;
	HANDLE[0].disk = &DK;
	HANDLE[0].file = IN.handle_has_file == 1 ? &FL : IN.handle_has_file == 2 ? &OTHER : 0;
	HANDLE[0].f = IN.handle_has_file ? 5 : -1;
	if (IN.handle_has_file == 1) { HANDLE[0].st.st_size = IN.o_size; HANDLE[0].st.st_mtime = IN.o_mtime; HANDLE[0].st.st_mtim.tv_nsec = IN.o_nsec; }
	g_create = g_trunc = g_open2 = g_sysclose = 0;
	failed_count = IN.of0; error = IN.oe0; unrec = IN.ou0; recov = IN.or0;

	region_check_open(&ST, IN.fix, 9, 0, HANDLE, &DK, &FL, 3, (struct snapraid_block *)BLK, FAILED, &failed_count, &error, &unrec, &recov, &bailed, &skipped);

	excluded = (IN.oflag & FILE_IS_EXCLUDED) != 0;
	writable = IN.fix && !excluded;
	if (IN.handle_has_file == 1) {
		VERIF_ASSERT(g_create == 0 && g_open2 == 0 && g_trunc == 0 && !bailed && !skipped && failed_count == IN.of0, "a file that is already open is used as it is");
	} else {
		VERIF_ASSERT(g_create == ((writable && !(IN.handle_has_file == 2 && IN.close_ret)) ? 1u : 0u), "only fix, and only for a file selected by the filters, opens for writing or creates a file");
		if (!writable)
			VERIF_ASSERT(g_create == 0 && g_trunc == 0, "check, and fix on an excluded file, never create or resize a data file");
		if (!writable && !(IN.handle_has_file == 2 && IN.close_ret)) {
			VERIF_ASSERT(g_open2 == ((IN.oflag & FILE_IS_MISSING) ? 0u : 1u), "a file already known to be missing is not opened again");
			if ((IN.oflag & FILE_IS_MISSING) || IN.open_ret) {
				VERIF_ASSERT(skipped && failed_count == IN.of0 + 1 && FAILED[IN.of0].is_bad == 1 && FAILED[IN.of0].file == &FL && FAILED[IN.of0].file_pos == 3 && FAILED[IN.of0].index == 0 && (FL.flag & FILE_IS_MISSING) && error == IN.oe0 + 1,
					"a block of a file that cannot be opened enters the failed set as bad, is counted, and the file is remembered as missing");
			}
		}
		if (!bailed && !skipped) {
			differs = IN.o_size != IN.f_size || IN.o_mtime != IN.f_mtime || IN.o_nsec != IN.f_nsec;
			if (!(IN.oflag & FILE_IS_OPENED) && !excluded)
				VERIF_ASSERT(((FL.flag & FILE_IS_UNSYNCED) != 0) == (differs || (IN.oflag & FILE_IS_UNSYNCED)), "at its first open a file whose size or time-stamp differs from the record is flagged unsynced");
			selected = !excluded && !(IN.syncedonly && (FL.flag & FILE_IS_UNSYNCED));
			larger = !(IN.oflag & FILE_IS_OPENED) && selected && IN.o_size > IN.f_size;
			VERIF_ASSERT(g_trunc == ((larger && IN.fix) ? 1u : 0u), "a file is cut to its recorded size only by fix, only at its first open, only if selected and larger than recorded");
			VERIF_ASSERT(FL.flag & FILE_IS_OPENED, "the file is remembered as opened");
		}
	}
	VERIF_CANARY();
}
#endif

#include "verif_tail.h"
