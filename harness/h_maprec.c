/*
 * Disk map records of the content file (cmdline/state.c).  Every 'f' / 'h' / 's' / 'a' / 'r' record names its disk by an index
 * into the sequence of 'M' records; the index is assigned by state_write_content ("map disks"), the records are written by
 * state_write_thread ("for each map") and read back by the 'M' branch of state_read_content.  The three pieces are extracted
 * mechanically and connected through a TYPED event stream:
 *   - every disk that holds something gets an index; the indexes handed out are 0, 1, 2 ... in list order
 *   - exactly the disks with an index are written, in that order
 *   - the reader rebuilds the mapping vector so that entry k IS the disk that was given index k (a file can never move to
 *     another disk through a save and reload), and name / position / total / free blocks / uuid of every map survive
 *   - an 'm' record (written by versions before 7.0: no block counts) is read with zero counts (C16)
 * find_disk_by_name, fs_is_empty, map_alloc, tommy_array_grow / set by stub (recording); the list functions are the real ones.
 */
#include "portable.h"
#include "support.h"
#include "elem.h"
#include "state.h"
#include "stream.h"
#include "verif.h"

#define NM 3
struct verif_in {
	unsigned n;
	int empty[NM];
	unsigned position[NM];
	block_off_t total[NM], free_[NM];
	char uuid[NM];
	block_off_t blockmax;
	int old_format;
};
VERIF_DECLARE_IN

#ifdef VERIF_CBMC
int exit_success = 0, exit_failure = 1, exit_sync_needed = 2;
void log_fatal(const char *format, ...) { (void)format; }
void log_tag(const char *format, ...) { (void)format; }
#endif

static struct snapraid_state ST;
static struct snapraid_map M0, M1, M2;
static struct snapraid_map *const MAP[NM] = { &M0, &M1, &M2 };
static struct snapraid_disk D0, D1, D2;
static struct snapraid_disk *const DSK[NM] = { &D0, &D1, &D2 };
static struct snapraid_map N0, N1, N2;
static struct snapraid_map *const NEWMAP[NM] = { &N0, &N1, &N2 };

static void v_stop(void)
{
	VERIF_ASSERT(0, "the reader accepts what the writer wrote");
#ifdef VERIF_NATIVE
	exit(1);
#else
	__CPROVER_assume(0);
#endif
}
static void v_abort(void) { v_stop(); }
static void v_exit(int code) { (void)code; v_stop(); }

static struct snapraid_disk *v_find_by_name(struct snapraid_state *state, const char *name)
{
	(void)state;
	if (name[0] >= 'a' && name[0] < 'a' + NM && name[1] == 0)
		return DSK[name[0] - 'a'];
	return 0;
}
static struct snapraid_disk *v_find_by_uuid(struct snapraid_state *state, const char *uuid) { (void)state; (void)uuid; return 0; }
static int v_fs_is_empty(struct snapraid_disk *disk, block_off_t blockmax)
{
	unsigned k;
	VERIF_ASSERT(blockmax == IN.blockmax, "emptiness is judged over the whole array");
	for (k = 0; k < NM; ++k)
		if (disk == DSK[k])
			return IN.empty[k] != 0;
	VERIF_ASSERT(0, "a disk of the array");
	return 1;
}

static unsigned g_alloc;
static char g_a_name[NM], g_a_uuid[NM];
static unsigned g_a_pos[NM];
static block_off_t g_a_total[NM], g_a_free[NM];
static struct snapraid_map *v_map_alloc(const char *name, unsigned position, block_off_t total_blocks, block_off_t free_blocks, const char *uuid)
{
	VERIF_ASSERT(g_alloc < NM, "one map per record");
	g_a_name[g_alloc] = name[0]; g_a_uuid[g_alloc] = uuid[0];
	g_a_pos[g_alloc] = position; g_a_total[g_alloc] = total_blocks; g_a_free[g_alloc] = free_blocks;
	return NEWMAP[g_alloc++];
}
static unsigned g_set;
static void *g_vec[NM];
static void v_array_grow(tommy_array *a, unsigned size) { (void)a; VERIF_ASSERT(size == g_set + 1, "the mapping vector grows by one per record"); }
static void v_array_set(tommy_array *a, unsigned pos, void *element) { (void)a; VERIF_ASSERT(pos == g_set && pos < NM, "the next entry of the mapping vector is set"); g_vec[pos] = element; ++g_set; }

#define NEV 24
static unsigned g_n, g_r;
static unsigned char g_kind[NEV];      /* 1 byte, 2 32-bit, 4 string */
static uint32_t g_val[NEV];
static char g_chr[NEV];                /* first character of a string (names and uuids are one character here) */

static int w_putc(int c, STREAM *s) { (void)s; VERIF_ASSERT(g_n < NEV, "event log"); g_kind[g_n] = 1; g_val[g_n] = (unsigned char)c; ++g_n; return 0; }
static int w_putb32(uint32_t v, STREAM *s) { (void)s; VERIF_ASSERT(g_n < NEV, "event log"); g_kind[g_n] = 2; g_val[g_n] = v; ++g_n; return 0; }
static int w_putbs(const char *str, STREAM *s) { (void)s; VERIF_ASSERT(g_n < NEV, "event log"); g_kind[g_n] = 4; g_chr[g_n] = str[0]; ++g_n; return 0; }
static int w_error(STREAM *s) { (void)s; return 0; }
static const char *w_errorfile(STREAM *s) { (void)s; return "content"; }
static int r_getb32(STREAM *s, uint32_t *v) { (void)s; VERIF_ASSERT(g_r < g_n && g_kind[g_r] == 2, "the reader takes a 32-bit field where the writer put a 32-bit field"); *v = g_val[g_r++]; return 0; }
static int r_getbs(STREAM *s, char *str, int size)
{
	(void)s;
	VERIF_ASSERT(g_r < g_n && g_kind[g_r] == 4 && size >= 2, "the reader takes a string where the writer put one");
	str[0] = g_chr[g_r++];
	str[1] = 0;
	return 0;
}
static void decoding_error(const char *path, STREAM *f) { (void)path; (void)f; }

#define sputc w_putc
#define sputb32 w_putb32
#define sputbs w_putbs
#define serror w_error
#define serrorfile w_errorfile
#define sgetb32 r_getb32
#define sgetbs r_getbs
#define exit v_exit
#define os_abort v_abort
#define find_disk_by_name v_find_by_name
#define find_disk_by_uuid v_find_by_uuid
#define fs_is_empty v_fs_is_empty
#define map_alloc v_map_alloc
#define tommy_array_grow v_array_grow
#define tommy_array_set v_array_set
#include "region_map_assign.c"
#include "region_map_write.c"
#include "region_map_read.c"
#undef sputc
#undef sputb32
#undef sputbs
#undef serror
#undef serrorfile
#undef sgetb32
#undef sgetbs
#undef exit
#undef os_abort
#undef find_disk_by_name
#undef find_disk_by_uuid
#undef fs_is_empty
#undef map_alloc
#undef tommy_array_grow
#undef tommy_array_set

static void setup(void)
{
	unsigned k;
	VERIF_ASSUME(IN.n >= 1 && IN.n <= NM);
	tommy_list_init(&ST.maplist);
	for (k = 0; k < NM; ++k) {
		MAP[k]->name[0] = (char)('a' + k); MAP[k]->name[1] = 0;
		DSK[k]->name[0] = (char)('a' + k); DSK[k]->name[1] = 0;
		VERIF_ASSUME(IN.uuid[k] != 0);
		MAP[k]->uuid[0] = IN.uuid[k]; MAP[k]->uuid[1] = 0;
		MAP[k]->position = IN.position[k];
		MAP[k]->total_blocks = IN.total[k];
		MAP[k]->free_blocks = IN.free_[k];
		DSK[k]->mapping_idx = 77;
		if (k < IN.n)
			tommy_list_insert_tail(&ST.maplist, &MAP[k]->node, MAP[k]);
	}
	g_n = g_r = g_alloc = g_set = 0;
}

void h_map_records(void)
{
	unsigned k, next = 0, rounds;
	uint32_t mapping_max = 0;
	VERIF_INPUTS();
	setup();
	region_map_assign(&ST, IN.blockmax);
	for (k = 0; k < NM; ++k)
		if (k < IN.n) {
			VERIF_ASSERT(IN.empty[k] || DSK[k]->mapping_idx != -1, "every disk that holds something gets an index");
			if (DSK[k]->mapping_idx != -1) {
				VERIF_ASSERT(DSK[k]->mapping_idx == (int)next, "indexes are handed out in list order: 0 1 2 ...");
				++next;
			}
		}
	VERIF_ASSERT(region_map_write(&ST, 0, (void *)1) == 0, "the map writer completes");
	VERIF_ASSERT(g_n == 6 * next, "one M record of six fields per disk with an index, none for the others");
	tommy_list_init(&ST.maplist);
	for (rounds = 0; rounds < NM; ++rounds)
		if (g_r < g_n) {
			VERIF_ASSERT(g_kind[g_r] == 1 && g_val[g_r] == 'M', "a map record starts with M");
			++g_r;
			region_map_read(&ST, 0, "content", 'M', &mapping_max);
		}
	VERIF_ASSERT(g_r == g_n, "the reader consumes exactly what the writer produced");
	VERIF_ASSERT(mapping_max == next && g_set == next && g_alloc == next, "one entry of the mapping vector per record");
	for (k = 0; k < NM; ++k)
		if (k < IN.n && DSK[k]->mapping_idx != -1) {
			unsigned idx = (unsigned)DSK[k]->mapping_idx;
			VERIF_ASSERT(idx < next && g_vec[idx] == DSK[k], "entry k of the rebuilt mapping vector is the disk that was given index k: records keep their disk through a save and reload");
			VERIF_ASSERT(g_a_name[idx] == 'a' + (int)k && g_a_pos[idx] == IN.position[k] && g_a_total[idx] == IN.total[k] && g_a_free[idx] == IN.free_[k] && g_a_uuid[idx] == IN.uuid[k],
				"name, parity position, total and free blocks and uuid of a disk map survive a save and reload");
		}
	VERIF_CANARY();
}

/* an 'm' record as written before version 7.0: name, position, uuid */
void h_map_old_record(void)
{
	uint32_t mapping_max = 0;
	VERIF_INPUTS();
	setup();
	tommy_list_init(&ST.maplist);
	w_putbs(MAP[1]->name, 0);
	w_putb32(IN.position[1], 0);
	w_putbs(MAP[1]->uuid, 0);
	region_map_read(&ST, 0, "content", 'm', &mapping_max);
	VERIF_ASSERT(g_r == g_n && mapping_max == 1 && g_alloc == 1 && g_vec[0] == DSK[1], "the old record is consumed and maps its disk");
	VERIF_ASSERT(g_a_name[0] == 'b' && g_a_pos[0] == IN.position[1] && g_a_uuid[0] == IN.uuid[1] && g_a_total[0] == 0 && g_a_free[0] == 0, "an m record of the reference format gives name, position and uuid, with no block counts");
	VERIF_CANARY();
}

#include "verif_tail.h"
