/*
 * The lock that keeps two commands off the same array (cmdline/util.c, REAL lock_lock / lock_unlock; open / flock / close by
 * recording stubs).  Property C14: "... or when another command is already running on the same array" - main() refuses when
 * lock_lock returns -1 (region main.config.region).
 *   lock_lock: asks for an EXCLUSIVE, NON-BLOCKING lock on the lock file (a second command is refused at once, not queued and
 *   not admitted); returns -1 exactly when the file cannot be opened or the lock is held by someone else - and then leaves no
 *   descriptor open; otherwise returns the descriptor that holds the lock, still open.  lock_unlock releases it by closing.
 */
#include "portable.h"
#include "support.h"
#include "util.h"
#include "verif.h"
#include <sys/file.h>

struct verif_in {
	int open_fails, flock_fails, close_fails;
};
VERIF_DECLARE_IN

static unsigned g_open, g_flock, g_close;
static int g_open_flags, g_flock_fd, g_flock_op, g_close_fd;
#ifdef VERIF_CBMC
int open(const char *path, int flags, ...) { (void)path; ++g_open; g_open_flags = flags; return IN.open_fails ? -1 : 7; }
int flock(int fd, int op) { ++g_flock; g_flock_fd = fd; g_flock_op = op; return IN.flock_fails ? -1 : 0; }
int close(int fd) { ++g_close; g_close_fd = fd; return IN.close_fails ? -1 : 0; }
#endif

void h_lock_lock(void)
{
	int f, r;
	VERIF_INPUTS();
#ifdef VERIF_NATIVE
	exit(77);
#endif
	g_open = g_flock = g_close = 0;
	f = lock_lock("lock");
	VERIF_ASSERT(g_open == 1 && (g_open_flags & O_CREAT), "the lock file is opened (created if missing)");
	if (IN.open_fails) {
		VERIF_ASSERT(f == -1 && g_flock == 0 && g_close == 0, "no lock file, no lock");
	} else {
		VERIF_ASSERT(g_flock == 1 && g_flock_fd == 7 && g_flock_op == (LOCK_EX | LOCK_NB), "an exclusive, non-blocking lock is asked for on the lock file");
		if (IN.flock_fails) {
			VERIF_ASSERT(f == -1, "a lock held by another command makes lock_lock fail");
			VERIF_ASSERT(g_close == 1 && g_close_fd == 7, "and the descriptor is not left open");
		} else {
			VERIF_ASSERT(f == 7 && g_close == 0, "otherwise the open descriptor that holds the lock is returned");
			r = lock_unlock(f);
			VERIF_ASSERT(g_close == 1 && g_close_fd == 7 && (r == -1) == (IN.close_fails != 0), "lock_unlock releases the lock by closing it and reports a failure");
		}
	}
	VERIF_CANARY();
}

#include "verif_tail.h"
