/*
 * dup (cmdline/dup.c, REAL code included below), property C20 "dup reports exactly the duplicates":
 *   hash_alloc    the digest that represents a file is memhash(best hash kind) over the concatenation, in order, of the recorded
 *                 hashes of ALL its blocks (blockmax * hash size bytes); a file with a block whose hash is not up to date (pending
 *                 or deleted) has no digest and is never reported
 *   hash_compare  two digests are the same iff all HASH_MAX bytes agree
 *   dup loop      (state_dup, per-file body extracted): empty files are skipped; a file is reported as duplicate of the FIRST file
 *                 met with the same digest, counted once, the size added is that file's size; otherwise it is remembered
 * Bounded: files of at most 3 blocks, hash size 4 / 16.
 */
#include "portable.h"
#include "support.h"
#include "elem.h"
#include "state.h"
#include "verif.h"

#define NB 3
#ifndef HS
#define HS 4
#endif

struct verif_in {
	block_off_t blockmax;
	unsigned st[NB];
	unsigned char bh[NB * 16];
	unsigned char digest[HASH_MAX], other[HASH_MAX];
	/* loop */
	int64_t fsize, found_size;
	int has_digest, found;
	unsigned count0;
	int64_t size0;
};
VERIF_DECLARE_IN

static unsigned g_mh_calls, g_mh_kind;
static size_t g_mh_len;
static unsigned char g_mh_seen[NB * 16];
#ifdef VERIF_CBMC
int BLOCK_HASH_SIZE = HS;
void log_tag(const char *format, ...) { (void)format; }
void log_fatal(const char *format, ...) { (void)format; }
void msg_progress(const char *format, ...) { (void)format; }
void msg_status(const char *format, ...) { (void)format; }
void os_abort(void) { __CPROVER_assume(0); }
void *malloc_nofail(size_t size) { void *q = malloc(size); __CPROVER_assume(q != 0); return q; }
void memhash(unsigned kind, const unsigned char *seed, void *digest, const void *src, size_t size)
{
	unsigned k;
	(void)seed;
	++g_mh_calls; g_mh_kind = kind; g_mh_len = size;
	for (k = 0; k < NB * 16; ++k)
		if (k < size)
			g_mh_seen[k] = ((const unsigned char *)src)[k];
	for (k = 0; k < HASH_MAX; ++k)
		((unsigned char *)digest)[k] = IN.digest[k];
}
#include "tommyds/tommyhash.c"
#endif

static unsigned char BV[NB * 64];
static struct snapraid_file FL, FOUNDF;
static struct snapraid_disk DK, DK2;
static struct snapraid_block *d_file2block(struct snapraid_file *file, block_off_t pos) { VERIF_ASSERT(file == &FL && pos < NB, "block of the file"); return (struct snapraid_block *)(BV + pos * 64); }
#define fs_file2block_get d_file2block
#include "cmdline/dup.c"
#undef fs_file2block_get

/* per-file body of the loop of state_dup */
static struct snapraid_hash HNEW, HFOUND;
static unsigned g_insert, g_free, g_alloc;
static struct snapraid_hash *l_hash_alloc(struct snapraid_state *state, struct snapraid_disk *disk, struct snapraid_file *file) { (void)state; (void)disk; (void)file; ++g_alloc; HNEW.disk = disk; HNEW.file = file; return IN.has_digest ? &HNEW : 0; }
static void l_hash_free(struct snapraid_hash *h) { VERIF_ASSERT(h == &HNEW, "only the digest of the file at hand is dropped"); ++g_free; }
static void *l_search(tommy_hashdyn *h, tommy_search_func *cmp, const void *arg, tommy_hash_t hash) { (void)h; (void)hash; VERIF_ASSERT(cmp == hash_compare && arg == (const void *)HNEW.hash, "the set is searched for the digest of this file"); return IN.found ? &HFOUND : 0; }
static void l_insert(tommy_hashdyn *h, tommy_hashdyn_node *node, void *data, tommy_hash_t hash) { (void)h; (void)node; (void)hash; VERIF_ASSERT(data == (void *)&HNEW, "the digest remembered is the one of this file"); ++g_insert; }
static const char *l_esc(const char *str, char *buffer) { (void)buffer; return str; }
static const char *l_fmt(const struct snapraid_disk *disk, const char *str, char *buffer) { (void)disk; (void)buffer; return str; }
static int l_printf(const char *format, ...) { (void)format; return 0; }
#define hash_alloc l_hash_alloc
#define hash_free l_hash_free
#define tommy_hashdyn_search l_search
#define tommy_hashdyn_insert l_insert
#define esc_tag l_esc
#define fmt_term l_fmt
#define printf l_printf
#include "region_dup_file.c"
#undef hash_alloc
#undef hash_free
#undef tommy_hashdyn_search
#undef tommy_hashdyn_insert
#undef esc_tag
#undef fmt_term
#undef printf

void h_dup_hash_alloc(void)
{
	static struct snapraid_state ST;
	struct snapraid_hash *h;
	unsigned i, k;
	int all = 1;
	VERIF_INPUTS();
	VERIF_ASSUME(IN.blockmax >= 1 && IN.blockmax <= NB);
	ST.besthash = HASH_SPOOKY2;
	FL.blockmax = IN.blockmax;
	for (i = 0; i < NB; ++i) {
		VERIF_ASSUME(IN.st[i] == BLOCK_STATE_BLK || IN.st[i] == BLOCK_STATE_CHG || IN.st[i] == BLOCK_STATE_REP || IN.st[i] == BLOCK_STATE_DELETED);
		block_state_set((struct snapraid_block *)(BV + i * 64), IN.st[i]);
		for (k = 0; k < 16; ++k)
			((struct snapraid_block *)(BV + i * 64))->hash[k] = IN.bh[i * 16 + k];
		if (i < IN.blockmax && !(IN.st[i] == BLOCK_STATE_BLK || IN.st[i] == BLOCK_STATE_REP))
			all = 0;
	}
	g_mh_calls = 0;
	h = hash_alloc(&ST, &DK, &FL);
	VERIF_ASSERT((h != 0) == all, "a file has a digest iff every one of its blocks has an up-to-date hash");
	if (h) {
		VERIF_ASSERT(g_mh_calls == 1 && g_mh_kind == HASH_SPOOKY2 && g_mh_len == IN.blockmax * HS && h->disk == &DK && h->file == &FL, "the digest is taken with the best hash kind over blockmax * hash size bytes");
		for (i = 0; i < NB; ++i)
			for (k = 0; k < HS; ++k)
				if (i < IN.blockmax)
					VERIF_ASSERT(g_mh_seen[i * HS + k] == IN.bh[i * 16 + k], "over the recorded hashes of all blocks, in order");
		for (k = 0; k < HASH_MAX; ++k)
			VERIF_ASSERT(h->hash[k] == IN.digest[k], "and stored whole");
	} else {
		VERIF_ASSERT(g_mh_calls == 0, "no digest is computed for a file with a block without hash");
	}
	VERIF_CANARY();
}

void h_dup_compare(void)
{
	static struct snapraid_hash H;
	int k, eq = 1, r;
	VERIF_INPUTS();
	for (k = 0; k < HASH_MAX; ++k) {
		H.hash[k] = IN.other[k];
		if (IN.other[k] != IN.digest[k])
			eq = 0;
	}
	r = hash_compare(IN.digest, &H);
	VERIF_ASSERT((r == 0) == eq, "two files are duplicates only if their digests agree in all HASH_MAX bytes");
	VERIF_CANARY();
}

void h_dup_file(void)
{
	static struct snapraid_state ST;
	static tommy_hashdyn SET;
	unsigned count;
	data_off_t size;
	VERIF_INPUTS();
	VERIF_ASSUME(IN.fsize >= 0 && IN.found_size >= 0 && IN.found_size < ((int64_t)1 << 50) && IN.size0 >= 0 && IN.size0 < ((int64_t)1 << 50) && IN.count0 < 100000);
	FL.size = IN.fsize; FL.sub = "f";
	FOUNDF.size = IN.found_size; FOUNDF.sub = "g";
	HFOUND.file = &FOUNDF; HFOUND.disk = &DK2;
	count = IN.count0; size = IN.size0;
	g_insert = g_free = g_alloc = 0;
	region_dup_file(&ST, &SET, &DK, &FL, &count, &size);
	if (IN.fsize == 0) {
		VERIF_ASSERT(g_alloc == 0 && count == IN.count0 && size == IN.size0 && g_insert == 0, "empty files are never duplicates");
	} else if (!IN.has_digest) {
		VERIF_ASSERT(count == IN.count0 && size == IN.size0 && g_insert == 0, "a file without a complete set of hashes is skipped");
	} else if (IN.found) {
		VERIF_ASSERT(count == IN.count0 + 1 && size == IN.size0 + IN.found_size && g_insert == 0 && g_free == 1, "a file whose digest was already met is reported once, with the size of the file it duplicates");
	} else {
		VERIF_ASSERT(count == IN.count0 && size == IN.size0 && g_insert == 1 && g_free == 0, "a first occurrence is remembered, not reported");
	}
	VERIF_CANARY();
}

#include "verif_tail.h"
