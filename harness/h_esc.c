/*
 * Escaping of names in reports (cmdline/support.c esc_tag, esc_shell_multi), REAL code (linked, not copied).
 *   esc_tag    is reversible: unesc(esc_tag(s)) == s for EVERY string (<= ESCLEN bytes, all byte values); the output never
 *              contains a raw newline, carriage return or colon, and every backslash starts one of \n \r \d \\
 *   esc_shell  the output, read back under POSIX shell quoting rules, is the single word s
 */
#include "portable.h"
#include "support.h"
#include "verif.h"

#ifndef ESCLEN
#define ESCLEN 5
#endif

struct verif_in {
	char s[ESCLEN + 1];
};
VERIF_DECLARE_IN

#ifdef VERIF_CBMC
void log_fatal(const char *format, ...) { (void)format; }
#endif

void h_esc_tag(void)
{
	static char buffer[ESC_MAX];
	const char *o;
	char back[ESCLEN + 1];
	int n, k, j, ok = 1;
	VERIF_INPUTS();
	IN.s[ESCLEN] = 0;
	for (n = 0; IN.s[n]; ++n)
		;
	o = esc_tag(IN.s, buffer);
	VERIF_ASSERT(o == buffer, "esc_tag returns the buffer");
	/* decode */
	j = 0;
	for (k = 0; k < 2 * ESCLEN + 1 && o[k]; ++k) {
		char c = o[k];
		VERIF_ASSERT(c != '\n' && c != '\r' && c != ':', "esc_tag output has no raw newline, carriage return or colon");
		if (c == '\\') {
			++k;
			c = o[k];
			VERIF_ASSERT(c == 'n' || c == 'r' || c == 'd' || c == '\\', "esc_tag emits only the escapes \\n \\r \\d \\\\");
			c = c == 'n' ? '\n' : c == 'r' ? '\r' : c == 'd' ? ':' : '\\';
		}
		if (j < ESCLEN)
			back[j] = c;
		else
			ok = 0;
		++j;
	}
	VERIF_ASSERT(ok && j == n, "esc_tag output decodes to a string of the same length");
	for (k = 0; k < ESCLEN; ++k)
		if (k < n)
			VERIF_ASSERT(back[k] == IN.s[k], "unesc(esc_tag(s)) == s");
	VERIF_CANARY();
}

/* POSIX shell: outside quotes a backslash preserves the next character, except that backslash-newline vanishes;
 * blank / newline separate words; the characters below have a special meaning when unquoted */
static int sh_special(char c)
{
	return c == '|' || c == '&' || c == ';' || c == '<' || c == '>' || c == '(' || c == ')' || c == '$' || c == '`'
		|| c == '"' || c == '\'' || c == '*' || c == '?' || c == '[' || c == '#' || c == '~' || c == '{' || c == '}' || c == ']';
}

void h_esc_shell(void)
{
	static char buffer[ESC_MAX];
	const char *o;
	int n, k, j, has_ws = 0;
	VERIF_INPUTS();
	IN.s[ESCLEN] = 0;
	for (n = 0; IN.s[n]; ++n)
		has_ws |= IN.s[n] == '\n' || IN.s[n] == '\t';
	o = esc_shell(IN.s, buffer);
	j = 0;
	for (k = 0; k < 2 * ESCLEN + 1 && o[k]; ++k) {
		char c = o[k];
		if (c == '\\') {
			++k;
			c = o[k];
			VERIF_ASSERT(c != 0 && c != '\n', "esc_shell never ends in a backslash nor emits backslash-newline");
		} else {
			VERIF_ASSERT(c != ' ' && !sh_special(c), "esc_shell leaves no blank or shell metacharacter unquoted");
			if (!has_ws)
				VERIF_ASSERT(c != '\t' && c != '\n', "unreachable: no tab/newline in the input");
			else
				VERIF_ASSERT(c != '\t' && c != '\n', "esc_shell leaves no TAB or NEWLINE unquoted (word/line separators)");
		}
		if (j < n)
			VERIF_ASSERT(c == IN.s[j], "the shell reads the escaped text back as s");
		++j;
	}
	VERIF_ASSERT(j == n, "the shell reads the escaped text back as a word of the same length");
	VERIF_CANARY();
}

#include "verif_tail.h"
