/*
 * pool (cmdline/pool.c): make_link, the step that gives every recorded file its link in the pool tree (property C20: "exactly
 * one symbolic link per recorded file ... resolving to it").  The REAL function and the pool record type are extracted
 * verbatim on every run; the file system and the index of the links already present are recording stubs.
 *   after make_link the link of the file exists and points to the recorded location:
 *   - a link already there is kept only if BOTH its time-stamp and its target are the recorded ones
 *   - otherwise it is removed first, then a link to the recorded location is created (after its ancestor directories) and
 *     given the time-stamp of the file (links of links have none)
 *   - the entry is taken out of the index in both cases, so that it is not deleted as stale afterwards
 * Paths are abstracted to tags (pathprint / pathexport by stub): 'P' the link, 'S' the target through the share directory,
 * 'D' the target on the local disk.
 */
#include "portable.h"
#include "support.h"
#include "elem.h"
#include "state.h"
#include "verif.h"

struct verif_in {
	int found, share;
	int64_t found_sec, mtime_sec;
	int found_nsec, mtime_nsec;
	char found_linkto;
	int remove_ret, mkancestor_ret, symlink_ret, symlink_eexist, lmtime_ret;
};
VERIF_DECLARE_IN

#ifdef VERIF_CBMC
int exit_success = 0, exit_failure = 1, exit_sync_needed = 2;
void log_fatal(const char *format, ...) { (void)format; }
#endif

#include "region_pool_struct.c"

static struct snapraid_pool POOL;
static unsigned g_pp, g_order, g_removed_idx, g_freed, g_remove, g_remove_when, g_mk, g_mk_when, g_sym, g_sym_when, g_lm, g_lm_when, g_stopped;
static char g_sym_to, g_sym_path, g_remove_path, g_lm_path;
static int64_t g_lm_sec;
static int g_lm_nsec;

static void v_pathprint(char *dst, size_t size, const char *format, ...)
{
	(void)format;
	VERIF_ASSERT(size >= 2, "path buffer");
	dst[0] = g_pp == 0 ? 'P' : (IN.share ? 'S' : 'D');
	dst[1] = 0;
	++g_pp;
}
static void v_pathexport(char *dst, size_t size, const char *src) { VERIF_ASSERT(size >= 2, "path buffer"); dst[0] = src[0]; dst[1] = 0; }
static void *v_search(tommy_hashdyn *set, const void *arg) { (void)set; (void)arg; return IN.found ? &POOL : 0; }
static void v_remove_existing(tommy_hashdyn *set, tommy_hashdyn_node *node) { (void)set; VERIF_ASSERT(node == &POOL.node, "the entry found"); ++g_removed_idx; }
static void v_pool_free(struct snapraid_pool *pool) { VERIF_ASSERT(pool == &POOL, "the entry found"); ++g_freed; }
static int v_remove(const char *path) { ++g_remove; g_remove_when = ++g_order; g_remove_path = path[0]; return IN.remove_ret ? -1 : 0; }
static int v_mkancestor(const char *path) { (void)path; ++g_mk; g_mk_when = ++g_order; return IN.mkancestor_ret ? -1 : 0; }
static int v_symlink(const char *to, const char *path)
{
	++g_sym; g_sym_when = ++g_order; g_sym_to = to[0]; g_sym_path = path[0];
	if (IN.symlink_ret) { errno = IN.symlink_eexist ? EEXIST : EACCES; return -1; }
	return 0;
}
static int v_lmtime(const char *path, int64_t sec, int nsec) { ++g_lm; g_lm_when = ++g_order; g_lm_path = path[0]; g_lm_sec = sec; g_lm_nsec = nsec; return IN.lmtime_ret ? -1 : 0; }
static void v_exit(int code)
{
	(void)code;
	VERIF_ASSERT(IN.remove_ret || IN.mkancestor_ret || (IN.symlink_ret && !IN.symlink_eexist) || IN.lmtime_ret, "pool stops only when the file system reports an error");
#ifdef VERIF_NATIVE
	printf("VERIF-REACHED-END\n");
	exit(0);
#else
	__CPROVER_assume(0);
#endif
}

#define pathprint v_pathprint
#define pathexport v_pathexport
#define tommy_hashdyn_search(set, cmp, arg, hash) v_search(set, arg)
#define tommy_hashdyn_remove_existing v_remove_existing
#define pool_free v_pool_free
#define remove v_remove
#define mkancestor v_mkancestor
#define symlink v_symlink
#define lmtime v_lmtime
#define exit v_exit
#include "region_pool_make_link.c"
#undef pathprint
#undef pathexport
#undef tommy_hashdyn_search
#undef tommy_hashdyn_remove_existing
#undef pool_free
#undef remove
#undef mkancestor
#undef symlink
#undef lmtime
#undef exit

void h_pool_make_link(void)
{
	static struct snapraid_disk DK;
	static tommy_hashdyn SET;
	char want;
	int keep;
	VERIF_INPUTS();
	VERIF_ASSUME(IN.found_linkto != 0);
	POOL.mtime_sec = IN.found_sec; POOL.mtime_nsec = IN.found_nsec;
	POOL.linkto[0] = IN.found_linkto; POOL.linkto[1] = 0;
	g_pp = g_order = g_removed_idx = g_freed = g_remove = g_mk = g_sym = g_lm = 0;
	want = IN.share ? 'S' : 'D';
	keep = IN.found && IN.found_sec == IN.mtime_sec && IN.found_nsec == IN.mtime_nsec && IN.found_linkto == want;

	make_link(&SET, "p", IN.share ? "s" : "", &DK, "f", IN.mtime_sec, IN.mtime_nsec);

	VERIF_ASSERT(g_removed_idx == (IN.found ? 1u : 0u) && g_freed == g_removed_idx, "an entry found is taken out of the index of existing links and released, once");
	if (keep) {
		VERIF_ASSERT(g_remove == 0 && g_sym == 0 && g_lm == 0, "a link with the recorded time-stamp AND the recorded target is left alone");
	} else {
		VERIF_ASSERT(g_remove == (IN.found ? 1u : 0u), "a link that does not point to the recorded location, or has another time-stamp, is removed");
		VERIF_ASSERT(g_sym == 1 && g_sym_to == want && g_sym_path == 'P', "a link to the recorded location of the file is created in the pool");
		VERIF_ASSERT(g_mk == 1 && g_mk_when < g_sym_when && (!g_remove || (g_remove_path == 'P' && g_remove_when < g_sym_when)), "after removing the old link and creating the ancestor directories");
		if (IN.mtime_sec != 0)
			VERIF_ASSERT(g_lm == 1 && g_lm_path == 'P' && g_lm_sec == IN.mtime_sec && g_lm_nsec == IN.mtime_nsec && g_sym_when < g_lm_when, "the link gets the time-stamp of the file");
		else
			VERIF_ASSERT(g_lm == 0, "no time-stamp for the link of a link");
		VERIF_ASSERT(!(IN.remove_ret && IN.found) && !IN.mkancestor_ret && !(IN.symlink_ret && !IN.symlink_eexist) && !(IN.lmtime_ret && IN.mtime_sec != 0), "an error of the file system stops the command");
	}
	VERIF_CANARY();
}

#include "verif_tail.h"
