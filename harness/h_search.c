/*
 * Data taken from moved / duplicate files found on the data disks during check/fix (cmdline/search.c, REAL code below).
 *   search_file_compare(arg, candidate) == 0  ==> the candidate has the size and full time-stamp of the missing file,
 *        the bytes now in arg->buffer were read from it and hashed IN THIS CALL, their digest equals the recorded hash of the
 *        block being replaced over BLOCK_HASH_SIZE bytes - whatever the state of that block (BLK, REP, CHG ...) -
 *        and the rest of the block is zero
 *   state_search_fetch: 0 iff the index search (which applies search_file_compare to each candidate) found one; the
 *        offset and length read are those of the missing block; the previous hash kind is used exactly during a migration
 * tommy_hashdyn_search, open, pread, close, memhash by assumed contract (stubs below).
 */
#include "portable.h"
#include "support.h"
#include "elem.h"
#include "state.h"
#include "search.h"
#include "verif.h"

#define BS 8

struct verif_in {
	int prevhash, hash_size;
	unsigned read_size;
	unsigned char filedata[BS], digest[HASH_MAX], recorded[HASH_MAX], before[BS];
	int pread_ret_delta;
	unsigned bstate;
	int64_t m_size, m_mtime, c_size, c_mtime;
	int m_nsec, c_nsec;
	/* state_search_fetch */
	int found;
	block_off_t file_pos;
};
VERIF_DECLARE_IN

static unsigned g_pread_calls, g_hash_calls, g_order, g_pread_when, g_hash_when;
static const void *g_hash_src;
static size_t g_hash_size, g_pread_n;
static off_t g_pread_off;
static unsigned g_hash_kind;
static struct snapraid_search_file CAND;
static int g_search_calls;
static const void *g_search_arg;
static tommy_search_func *g_search_cmp;

#ifdef VERIF_CBMC
int BLOCK_HASH_SIZE = 16;
int exit_success = 0, exit_failure = 1, exit_sync_needed = 2;
void *malloc_nofail(size_t size) { void *q = malloc(size); __CPROVER_assume(q != 0); return q; }
void *tommy_hashdyn_search(tommy_hashdyn *hashdyn, tommy_search_func *cmp, const void *cmp_arg, tommy_hash_t hash)
{
	(void)hashdyn; (void)hash;
	++g_search_calls;
	g_search_cmp = cmp;
	g_search_arg = cmp_arg;
	/* the index returns an element only if cmp(arg, element) == 0: here one candidate */
	if (IN.found && cmp(cmp_arg, &CAND) == 0)
		return &CAND;
	return 0;
}
int open(const char *path, int flags, ...) { (void)path; (void)flags; return 5; }
int close(int fd) { (void)fd; return 0; }
ssize_t pread(int fd, void *buf, size_t n, off_t off)
{
	unsigned k;
	(void)fd;
	++g_pread_calls;
	g_pread_when = ++g_order;
	g_pread_n = n;
	g_pread_off = off;
	for (k = 0; k < BS; ++k)
		if (k < n)
			((unsigned char *)buf)[k] = IN.filedata[k];
	return (ssize_t)n + IN.pread_ret_delta;
}
void memhash(unsigned kind, const unsigned char *seed, void *digest, const void *src, size_t size)
{
	int k;
	(void)seed;
	++g_hash_calls;
	g_hash_when = ++g_order;
	g_hash_src = src;
	g_hash_size = size;
	g_hash_kind = kind;
	for (k = 0; k < HASH_MAX; ++k)
		((unsigned char *)digest)[k] = IN.digest[k];
}
void log_fatal(const char *format, ...) { (void)format; }
void exit(int code) { (void)code; __CPROVER_assume(0); }
unsigned file_block_size(struct snapraid_file *file, block_off_t file_pos, unsigned block_size) { (void)file; (void)file_pos; (void)block_size; return IN.read_size; }
#endif

#include "cmdline/search.c"

static struct snapraid_state ST;
static struct snapraid_file MISSING;
static unsigned char blkmem[sizeof(struct snapraid_block) + HASH_MAX];
static unsigned char BUFFER[BS];
static char PATHBUF[] = "/p";

static int setup(void)
{
	struct snapraid_block *b = (struct snapraid_block *)blkmem;
	int k, eq = 1;
	VERIF_ASSUME(IN.hash_size >= 2 && IN.hash_size <= HASH_MAX);
	VERIF_ASSUME(IN.read_size >= 1 && IN.read_size <= BS);
	VERIF_ASSUME(IN.pread_ret_delta >= -2 && IN.pread_ret_delta <= 0);
	VERIF_ASSUME(IN.bstate == BLOCK_STATE_BLK || IN.bstate == BLOCK_STATE_REP || IN.bstate == BLOCK_STATE_CHG || IN.bstate == BLOCK_STATE_DELETED);
	BLOCK_HASH_SIZE = IN.hash_size;
	ST.block_size = BS;
	ST.hash = HASH_MURMUR3;
	ST.prevhash = HASH_SPOOKY2;
	block_state_set(b, IN.bstate);
	MISSING.size = IN.m_size; MISSING.mtime_sec = IN.m_mtime; MISSING.mtime_nsec = IN.m_nsec;
	CAND.size = IN.c_size; CAND.mtime_sec = IN.c_mtime; CAND.mtime_nsec = IN.c_nsec; CAND.path = PATHBUF;
	for (k = 0; k < HASH_MAX; ++k) {
		b->hash[k] = IN.recorded[k];
		if (k < IN.hash_size)
			eq &= IN.recorded[k] == IN.digest[k];
	}
	for (k = 0; k < BS; ++k)
		BUFFER[k] = IN.before[k];
	g_pread_calls = g_hash_calls = g_order = 0;
	return eq;
}

static void check_accepted(int eq, int prevhash)
{
	int k;
	VERIF_ASSERT(IN.m_size == IN.c_size && IN.m_mtime == IN.c_mtime && IN.m_nsec == IN.c_nsec, "a candidate is used only if it has the size and the full time-stamp of the missing file");
	VERIF_ASSERT(eq, "data from a moved or duplicate file is accepted only when its digest equals the recorded hash of the block it replaces (whatever the state of that block)");
	VERIF_ASSERT(g_pread_calls == 1 && g_hash_calls == 1 && g_pread_when < g_hash_when, "the data is hashed after it was read, in this call");
	VERIF_ASSERT(g_hash_src == BUFFER && g_hash_size == IN.read_size && g_pread_n == IN.read_size, "exactly the bytes placed in the buffer are hashed");
	VERIF_ASSERT(g_hash_kind == (prevhash ? HASH_SPOOKY2 : HASH_MURMUR3), "the previous hash kind is used exactly during a migration");
	for (k = 0; k < BS; ++k)
		VERIF_ASSERT(BUFFER[k] == ((unsigned)k < IN.read_size ? IN.filedata[k] : 0), "the buffer holds the bytes read, zero padded to the block size");
}

void h_search_compare(void)
{
	struct search_file_compare_arg arg;
	int r, eq;
	VERIF_INPUTS();
	eq = setup();
	arg.state = &ST;
	arg.block = (struct snapraid_block *)blkmem;
	arg.file = &MISSING;
	arg.buffer = BUFFER;
	arg.offset = 0;
	arg.read_size = IN.read_size;
	arg.prevhash = IN.prevhash;
#ifdef VERIF_NATIVE
	exit(77);
#endif
	r = search_file_compare(&arg, &CAND);
	VERIF_ASSERT(r == 0 || r == -1, "search_file_compare returns 0 or -1");
	if (r == 0)
		check_accepted(eq, IN.prevhash);
	else
		VERIF_ASSERT(!(IN.m_size == IN.c_size && IN.m_mtime == IN.c_mtime && IN.m_nsec == IN.c_nsec) || !eq, "a candidate with the right stamp and the right data is not rejected");
	VERIF_CANARY();
}

void h_search_fetch(void)
{
	int r, eq;
	VERIF_INPUTS();
	eq = setup();
	VERIF_ASSUME(IN.file_pos <= 0xffff);
#ifdef VERIF_NATIVE
	exit(77);
#endif
	r = state_search_fetch(&ST, IN.prevhash, &MISSING, IN.file_pos, (struct snapraid_block *)blkmem, BUFFER);
	VERIF_ASSERT(r == 0 || r == -1, "state_search_fetch returns 0 or -1");
	VERIF_ASSERT(g_search_calls == 1 && g_search_cmp == search_file_compare, "the index is searched with the verifying comparison");
	if (r == 0) {
		VERIF_ASSERT(IN.found, "0 only with a candidate");
		check_accepted(eq, IN.prevhash);
		VERIF_ASSERT(g_pread_off == (off_t)BS * (off_t)IN.file_pos, "the block is read at the offset of the missing block");
	}
	VERIF_CANARY();
}

#include "verif_tail.h"
