/*
 * Header of an 'f' (file) record of the content file (cmdline/state.c): the fields written by state_write_content and read
 * back by state_read_content, both extracted mechanically and connected through a TYPED stream of events - the reader must
 * ask for each field with the codec the writer used (a 64-bit field written through the 32-bit codec would be truncated,
 * and the varint reader would not notice) - and every value must come back: size, modification time (seconds, all 64 bits,
 * negative included; nanoseconds incl. the "invalid" marker), inode and path.  The byte codecs themselves are units stream.rt*.
 */
#include "portable.h"
#include "support.h"
#include "elem.h"
#include "state.h"
#include "stream.h"
#include "verif.h"

struct verif_in {
	uint64_t size, inode;
	int64_t mtime_sec;
	int32_t mtime_nsec;
	uint32_t mapping_idx;
	block_off_t blockmax;
};
VERIF_DECLARE_IN

#ifdef VERIF_CBMC
int exit_success = 0, exit_failure = 1, exit_sync_needed = 2;
void log_fatal(const char *format, ...) { (void)format; }
void log_tag(const char *format, ...) { (void)format; }
void os_abort(void) { VERIF_ASSERT(0, "the reader accepts what the writer wrote"); __CPROVER_assume(0); }
#endif
static void f_exit(int code) { (void)code; VERIF_ASSERT(0, "the reader accepts what the writer wrote"); }

#define NEV 8
static unsigned g_n, g_r;
static unsigned char g_kind[NEV];      /* 1 byte, 2 32-bit, 3 64-bit, 4 string */
static uint64_t g_val[NEV];
static const char *g_str[NEV];
static char NAME[] = "a/b";

static int w_putc(int c, STREAM *s) { (void)s; VERIF_ASSERT(g_n < NEV, "event log"); g_kind[g_n] = 1; g_val[g_n] = (unsigned char)c; ++g_n; return 0; }
static int w_putb32(uint32_t v, STREAM *s) { (void)s; VERIF_ASSERT(g_n < NEV, "event log"); g_kind[g_n] = 2; g_val[g_n] = v; ++g_n; return 0; }
static int w_putb64(uint64_t v, STREAM *s) { (void)s; VERIF_ASSERT(g_n < NEV, "event log"); g_kind[g_n] = 3; g_val[g_n] = v; ++g_n; return 0; }
static int w_putbs(const char *str, STREAM *s) { (void)s; VERIF_ASSERT(g_n < NEV, "event log"); g_kind[g_n] = 4; g_str[g_n] = str; ++g_n; return 0; }
static int w_error(STREAM *s) { (void)s; return 0; }
static const char *w_errorfile(STREAM *s) { (void)s; return "content"; }
static int r_getb32(STREAM *s, uint32_t *v) { (void)s; VERIF_ASSERT(g_r < g_n && g_kind[g_r] == 2, "the reader takes a 32-bit field where the writer put a 32-bit field"); *v = (uint32_t)g_val[g_r++]; return 0; }
static int r_getb64(STREAM *s, uint64_t *v) { (void)s; VERIF_ASSERT(g_r < g_n && g_kind[g_r] == 3, "the reader takes a 64-bit field where the writer put a 64-bit field"); *v = g_val[g_r++]; return 0; }
static int r_getbs(STREAM *s, char *str, int size)
{
	int k;
	(void)s;
	VERIF_ASSERT(g_r < g_n && g_kind[g_r] == 4 && size >= 4, "the reader takes a string where the writer put one");
	for (k = 0; k < 4; ++k)
		str[k] = g_str[g_r][k];
	++g_r;
	return 0;
}
static void decoding_error(const char *path, STREAM *f) { (void)path; (void)f; }

#define sputc w_putc
#define sputb32 w_putb32
#define sputb64 w_putb64
#define sputbs w_putbs
#define serror w_error
#define serrorfile w_errorfile
#define sgetb32 r_getb32
#define sgetb64 r_getb64
#define sgetbs r_getbs
#define exit f_exit
#include "region_frec_write.c"
#include "region_frec_read.c"
#undef sputc
#undef sputb32
#undef sputb64
#undef sputbs
#undef serror
#undef serrorfile
#undef sgetb32
#undef sgetb64
#undef sgetbs
#undef exit

void h_frecord(void)
{
	static struct snapraid_state ST;
	static struct snapraid_disk DK;
	static struct snapraid_file FL;
	uint64_t v_size = 1, v_mtime_sec = 1, v_inode = 1;
	uint32_t v_mtime_nsec = 1;
	char sub[PATH_MAX];
	VERIF_INPUTS();
	VERIF_ASSUME((IN.mtime_nsec >= 0 && IN.mtime_nsec < 1000000000) || IN.mtime_nsec == STAT_NSEC_INVALID);
	ST.block_size = 256;
	/* the reader refuses sizes that cannot belong to the array */
	VERIF_ASSUME(IN.size / 256 <= IN.blockmax);
	DK.mapping_idx = (int)(IN.mapping_idx & 0xffff);
	FL.size = (data_off_t)IN.size; FL.mtime_sec = IN.mtime_sec; FL.mtime_nsec = IN.mtime_nsec; FL.inode = IN.inode; FL.sub = NAME;
	VERIF_ASSUME((data_off_t)IN.size >= 0);
	g_n = g_r = 0;
	VERIF_ASSERT(region_frec_write(&DK, &FL, 0, (void *)1) == 0, "the writer completes");
	VERIF_ASSERT(g_n == 7 && g_kind[0] == 1 && g_val[0] == 'f' && g_kind[1] == 2 && g_val[1] == (uint64_t)(IN.mapping_idx & 0xffff), "an f record starts with its letter and the disk mapping index");
	g_r = 2; /* letter and mapping index are consumed by the dispatcher and the mapping guard (units state.f_record.mapping_guard) */
	region_frec_read(&ST, 0, "content", IN.blockmax, &v_size, &v_mtime_sec, &v_mtime_nsec, &v_inode, sub);
	VERIF_ASSERT(g_r == g_n, "the reader consumes exactly what the writer produced");
	VERIF_ASSERT(v_size == IN.size, "the size of a file survives a save and reload");
	VERIF_ASSERT((int64_t)v_mtime_sec == IN.mtime_sec, "the modification time survives a save and reload: all 64 bits, dates before 1970 and after 2106 included");
	VERIF_ASSERT((int32_t)v_mtime_nsec == IN.mtime_nsec, "the nanoseconds survive, the missing-nanoseconds marker included");
	VERIF_ASSERT(v_inode == IN.inode, "the inode survives");
	VERIF_ASSERT(sub[0] == 'a' && sub[1] == '/' && sub[2] == 'b' && sub[3] == 0, "the path survives");
	VERIF_CANARY();
}

#include "verif_tail.h"
