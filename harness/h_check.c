/*
 * Recovery decisions of check/fix (cmdline/check.c, REAL code included below).
 *
 *  blockcmp          0 iff hash(buffer[0..pos_size)) equals the recorded hash over BLOCK_HASH_SIZE bytes AND the rest of
 *                    the block is zero; the hash kind/seed is the previous one exactly during a hash migration
 *                    (memhash by contract: an arbitrary digest)
 *  is_hash_matching  1 iff at least one failed block could be checked and every checkable one matched; parity is
 *                    recomputed exactly then (blockcmp, file_block_size, raid_gen replaced by contracts - dfcc)
 *  repair_step       returns 0 ONLY after an attempt that was validated - by the hashes of the failed blocks when one of
 *                    them has an up-to-date hash, else by a spare parity -; tries every combination of readable
 *                    parities of the right size exactly once; returns -1 iff no attempt was possible
 *                    (raid_data, raid_gen, is_hash_matching, is_parity_matching replaced by contracts - dfcc)
 */
#include "portable.h"
#include "support.h"
#include "elem.h"
#include "state.h"
#include "parity.h"
#include "handle.h"
#include "raid/raid.h"
#include "raid/combo.h"
#include "verif.h"

#define BS 8 /* block size of the drivers (the decisions do not depend on it) */
#ifndef NFAIL
#define NFAIL 3
#endif
#ifndef REPAIR_LEVEL_MAX
#define REPAIR_LEVEL_MAX 4
#endif
#ifndef NATT
#define NATT 24 /* upper bound on reconstruction attempts: C(levels, failed) */
#endif

struct verif_in {
	/* blockcmp */
	unsigned char digest[HASH_MAX];
	unsigned char recorded[HASH_MAX];
	unsigned char buf[BS], zero[BS];
	unsigned pos_size;
	int hash_size, rehash;
	/* is_hash_matching / repair_step */
	unsigned failed_count;
	int outofdate[NFAIL];
	unsigned bstate[NFAIL];
	int cmp[NFAIL];          /* what blockcmp answers for entry j */
	unsigned level;
	int readable[LEV_MAX];   /* buffer_recov[l] != 0 */
	int verdict[NATT];         /* what the k-th validation answers */
	int hkind[3];            /* repair_chg: 0 invalid, 1 zero, 2 ordinary recorded hash */
	unsigned char slot[3][BS];
};
VERIF_DECLARE_IN

/* ---- ghost state written by the contracts that replace the callees ---- */
static unsigned g_memhash_kind;
static const unsigned char *g_memhash_seed;
static const void *g_memhash_src;
static size_t g_memhash_size;
static unsigned g_memhash_calls;

static unsigned g_gen_calls, g_data_calls, g_valid_calls, g_last_valid_result, g_last_valid_kind;
static unsigned g_data_r[NATT];
static int g_data_ip[NATT][LEV_MAX];
static unsigned g_cmp_calls;
static unsigned g_valid_arg[NATT];  /* parity level handed to is_parity_matching at validation k */
static const unsigned char *g_cmp_buf[4];
static const struct snapraid_block *g_cmp_blk[4];

#ifdef VERIF_CBMC
void memhash(unsigned kind, const unsigned char *seed, void *digest, const void *src, size_t size)
{
	int k;
	g_memhash_kind = kind;
	g_memhash_seed = seed;
	g_memhash_src = src;
	g_memhash_size = size;
	++g_memhash_calls;
	for (k = 0; k < HASH_MAX; ++k)
		((unsigned char *)digest)[k] = IN.digest[k];
}
void log_tag(const char *format, ...) { (void)format; }
void log_fatal(const char *format, ...) { (void)format; }
void os_abort(void) { __CPROVER_assume(0); }
const char *lev_config_name(unsigned l) { (void)l; return "p"; }
#endif

/* the REAL translation unit */
#include "cmdline/check.c"

/* contracts of the callees of is_hash_matching / repair_step (used with --replace-call-with-contract) */
static int blockcmp(struct snapraid_state *state, int rehash, struct snapraid_block *block, unsigned pos_size, unsigned char *buffer, unsigned char *buffer_zero)
__CPROVER_requires(g_cmp_calls < 4)
__CPROVER_ensures(__CPROVER_return_value == IN.cmp[g_cmp_calls - 1 < NFAIL ? g_cmp_calls - 1 : NFAIL - 1] && g_cmp_calls == __CPROVER_old(g_cmp_calls) + 1)
__CPROVER_ensures(g_cmp_buf[__CPROVER_old(g_cmp_calls)] == buffer && g_cmp_blk[__CPROVER_old(g_cmp_calls)] == block)
__CPROVER_assigns(g_cmp_calls, g_cmp_buf[g_cmp_calls], g_cmp_blk[g_cmp_calls]);

unsigned file_block_size(struct snapraid_file *file, block_off_t file_pos, unsigned block_size)
__CPROVER_ensures(__CPROVER_return_value <= block_size)
__CPROVER_assigns();

void raid_gen(int nd, int np, size_t size, void **v)
__CPROVER_ensures(g_gen_calls == __CPROVER_old(g_gen_calls) + 1)
__CPROVER_assigns(g_gen_calls);

void raid_data(int nr, int *id, int *ip, int nd, size_t size, void **v)
__CPROVER_requires(nr >= 1 && nr <= LEV_MAX && g_data_calls < NATT)
__CPROVER_ensures(g_data_calls == __CPROVER_old(g_data_calls) + 1)
__CPROVER_ensures(g_data_r[__CPROVER_old(g_data_calls)] == (unsigned)nr)
__CPROVER_ensures(g_data_ip[__CPROVER_old(g_data_calls)][0] == ip[0] && (nr < 2 || g_data_ip[__CPROVER_old(g_data_calls)][1] == ip[1]) && (nr < 3 || g_data_ip[__CPROVER_old(g_data_calls)][2] == ip[2]))
__CPROVER_assigns(g_data_calls, g_data_r[g_data_calls], g_data_ip[g_data_calls][0], g_data_ip[g_data_calls][1], g_data_ip[g_data_calls][2]);

static int is_hash_matching(struct snapraid_state *state, int rehash, unsigned diskmax, struct failed_struct *failed, unsigned *failed_map, unsigned failed_count, void **buffer, void *buffer_zero)
__CPROVER_requires(g_valid_calls < NATT)
__CPROVER_ensures(g_valid_calls == __CPROVER_old(g_valid_calls) + 1 && g_last_valid_kind == 1)
__CPROVER_ensures(__CPROVER_return_value == (IN.verdict[__CPROVER_old(g_valid_calls)] != 0) && g_last_valid_result == (unsigned)__CPROVER_return_value)
__CPROVER_assigns(g_valid_calls, g_last_valid_kind, g_last_valid_result);

static int is_parity_matching(struct snapraid_state *state, unsigned diskmax, unsigned i, void **buffer, void **buffer_recov)
__CPROVER_requires(g_valid_calls < NATT)
__CPROVER_ensures(g_valid_calls == __CPROVER_old(g_valid_calls) + 1 && g_last_valid_kind == 2)
__CPROVER_ensures(__CPROVER_return_value == (IN.verdict[__CPROVER_old(g_valid_calls)] != 0) && g_last_valid_result == (unsigned)__CPROVER_return_value)
__CPROVER_ensures(g_valid_arg[__CPROVER_old(g_valid_calls)] == i)
__CPROVER_assigns(g_valid_calls, g_last_valid_kind, g_last_valid_result, g_valid_arg[g_valid_calls]);


static struct snapraid_state ST;

/* ---------------------------------------------------------------- blockcmp */
void h_blockcmp(void)
{
	static struct snapraid_block *blk;
	static unsigned char blkmem[sizeof(struct snapraid_block) + HASH_MAX];
	unsigned char buf[BS], zero[BS];
	int r, k, eq_hash = 1, eq_tail = 1;
	VERIF_INPUTS();
	VERIF_ASSUME(IN.hash_size >= 2 && IN.hash_size <= HASH_MAX);
	VERIF_ASSUME(IN.pos_size <= BS);
	BLOCK_HASH_SIZE = IN.hash_size;
	ST.block_size = BS;
	ST.hash = HASH_MURMUR3;
	ST.prevhash = HASH_SPOOKY2;
	blk = (struct snapraid_block *)blkmem;
	for (k = 0; k < HASH_MAX; ++k) {
		blk->hash[k] = IN.recorded[k];
		if (k < IN.hash_size)
			eq_hash &= IN.recorded[k] == IN.digest[k];
	}
	for (k = 0; k < BS; ++k) {
		buf[k] = IN.buf[k];
		zero[k] = IN.zero[k];
		if ((unsigned)k >= IN.pos_size)
			eq_tail &= IN.buf[k] == IN.zero[k];
	}
#ifdef VERIF_NATIVE
	exit(77); /* memhash is replaced by its contract under cbmc only */
#endif
	r = blockcmp(&ST, IN.rehash, blk, IN.pos_size, buf, zero);
	VERIF_ASSERT((r == 0) == (eq_hash && eq_tail), "blockcmp: 0 iff the digest matches over BLOCK_HASH_SIZE bytes and the padding equals the zero block");
	VERIF_ASSERT(r == 0 || r == -1, "blockcmp returns 0 or -1");
	VERIF_ASSERT(g_memhash_calls == 1 && g_memhash_src == buf && g_memhash_size == IN.pos_size, "blockcmp hashes exactly the valid part of the block");
	VERIF_ASSERT(g_memhash_kind == (IN.rehash ? ST.prevhash : ST.hash) && g_memhash_seed == (IN.rehash ? ST.prevhashseed : ST.hashseed),
		"blockcmp uses the previous hash kind and seed exactly during a hash migration");
	VERIF_CANARY();
}

/* ---------------------------------------------------------------- is_hash_matching */
static struct failed_struct FAILED[NFAIL];
/* separate 1-D objects, never rows of a 2-D array (cbmc defect of DESIGN 2.3; also far cheaper) */
#define BLKSZ (sizeof(struct snapraid_block) + HASH_MAX)
static unsigned char BLK_0[BLKSZ], BLK_1[BLKSZ], BLK_2[BLKSZ];
static unsigned char *const BLK[3] = { BLK_0, BLK_1, BLK_2 };
static struct snapraid_file FILES[NFAIL];
static unsigned char DATA_0[BS], DATA_1[BS], DATA_2[BS], DATA_3[BS], DATA_4[BS], DATA_5[BS], DATA_6[BS], DATA_7[BS], DATA_8[BS];
static unsigned char *const DATA[9] = { DATA_0, DATA_1, DATA_2, DATA_3, DATA_4, DATA_5, DATA_6, DATA_7, DATA_8 };

static void setup_failed(void)
{
	unsigned j;
	VERIF_ASSUME(IN.failed_count <= NFAIL);
	for (j = 0; j < NFAIL; ++j) {
		struct snapraid_block *b = (struct snapraid_block *)BLK[j];
		VERIF_ASSUME(IN.bstate[j] == BLOCK_STATE_BLK || IN.bstate[j] == BLOCK_STATE_CHG || IN.bstate[j] == BLOCK_STATE_REP || IN.bstate[j] == BLOCK_STATE_DELETED);
		block_state_set(b, IN.bstate[j]);
		FAILED[j].is_bad = 1;
		FAILED[j].is_outofdate = IN.outofdate[j] != 0;
		FAILED[j].index = j;
		FAILED[j].block = b;
		FAILED[j].file = &FILES[j];
		FAILED[j].file_pos = 0;
	}
	ST.block_size = BS;
}

void h_is_hash_matching(void)
{
	unsigned map[NFAIL], j;
	void *buffer[NFAIL + LEV_MAX];
	int r, checked = 0, all = 1;
	VERIF_INPUTS();
	setup_failed();
	VERIF_ASSUME(IN.level >= 1 && IN.level <= LEV_MAX);
	ST.level = IN.level;
	for (j = 0; j < NFAIL; ++j)
		map[j] = j;
	for (j = 0; j < NFAIL + LEV_MAX; ++j)
		buffer[j] = DATA[j];
#ifdef VERIF_NATIVE
	exit(77);
#endif
	g_cmp_calls = 0;
	g_gen_calls = 0;
	r = is_hash_matching(&ST, IN.rehash, NFAIL, FAILED, map, IN.failed_count, buffer, IN.zero);
	/* specification: the entries are examined in order; the first mismatch ends the check */
	for (j = 0; j < NFAIL; ++j)
		if (j < IN.failed_count && all && !IN.outofdate[j] && (IN.bstate[j] == BLOCK_STATE_BLK || IN.bstate[j] == BLOCK_STATE_REP)) {
			if (IN.cmp[checked < NFAIL ? checked : NFAIL - 1] != 0)
				all = 0;
			++checked;
		}
	VERIF_ASSERT(r == (checked > 0 && all), "is_hash_matching: 1 iff at least one block could be checked and none mismatched");
	VERIF_ASSERT(g_gen_calls == (unsigned)(r != 0), "is_hash_matching recomputes the parity exactly when it accepts");
	VERIF_CANARY();
}

/*
 * Region of repair(): after a validated reconstruction, decide for every bad block WITHOUT an up-to-date hash (CHG)
 * whether what was rebuilt may be the old version: hash unknown -> unsure; recorded past hash "zero" and the rebuilt
 * block of THAT entry all zero -> unsure; recorded past hash equal to the hash of the rebuilt block of THAT entry ->
 * unsure; otherwise it is the new version. "Unsure" entries end as .unrecoverable, never as recovered (C05).
 */
#ifdef VERIF_CHG_REGION
#include "region_repair_chg.c"

void h_repair_chg(void)
{
	void *buffer[NFAIL + LEV_MAX];
	static unsigned char R0[BS], R1[BS], R2[BS], Z[BS];
	unsigned char *const R[3] = { R0, R1, R2 };
	unsigned j, calls = 0;
	int k;
	VERIF_INPUTS();
	setup_failed();
	VERIF_ASSUME(IN.failed_count <= 3);
	BLOCK_HASH_SIZE = 16;
	for (j = 0; j < NFAIL + LEV_MAX; ++j)
		buffer[j] = DATA[j];
	for (j = 0; j < 3 && j < NFAIL; ++j) {
		struct snapraid_block *b = (struct snapraid_block *)BLK[j];
		/* entry j lives in data slot 2-j: position in failed[] and disk slot differ */
		FAILED[j].index = 2 - j;
		FAILED[j].is_bad = IN.readable[j] != 0;
		VERIF_ASSUME(!(FAILED[j].is_bad && IN.bstate[j] == BLOCK_STATE_DELETED)); /* repair() asserts this before the region */
		FAILED[j].is_outofdate = 0;
		for (k = 0; k < HASH_MAX; ++k)
			b->hash[k] = IN.hkind[j] == 0 ? 0xff : IN.hkind[j] == 1 ? 0 : (unsigned char)(k + 1); /* invalid / zero / ordinary (elem.h conventions, checked below) */
		for (k = 0; k < BS; ++k)
			R[2 - j][k] = IN.slot[2 - j][k];
		buffer[2 - j] = R[2 - j];
	}
	for (k = 0; k < BS; ++k)
		Z[k] = 0;
#ifdef VERIF_NATIVE
	exit(77);
#endif
	g_cmp_calls = 0;
	region_repair_chg(&ST, IN.rehash, FAILED, IN.failed_count, buffer, Z);

	for (j = 0; j < 3 && j < NFAIL; ++j) {
		struct snapraid_block *b = (struct snapraid_block *)BLK[j];
		int expect = 0;
		if (j < IN.failed_count && FAILED[j].is_bad && IN.bstate[j] == BLOCK_STATE_CHG) {
			if (hash_is_invalid(b->hash)) {
				expect = 1;
			} else if (hash_is_zero(b->hash)) {
				int allzero = 1;
				for (k = 0; k < BS; ++k)
					allzero &= IN.slot[2 - j][k] == 0;
				expect = allzero;
			} else {
				VERIF_ASSERT(calls < 4 && g_cmp_buf[calls] == R[2 - j] && g_cmp_blk[calls] == b, "the rebuilt block compared with a recorded past hash is the one of the same entry");
				expect = IN.cmp[calls < NFAIL ? calls : NFAIL - 1] == 0;
				++calls;
			}
		}
		if (j < IN.failed_count)
			VERIF_ASSERT(FAILED[j].is_outofdate == expect, "a rebuilt pending block is trusted only when it provably is the new version");
	}
	VERIF_ASSERT(g_cmp_calls == calls, "blockcmp is consulted only for pending blocks with an ordinary past hash");
	VERIF_CANARY();
}
#endif

/* ---------------------------------------------------------------- repair_step */
static unsigned choose(unsigned m, unsigned r)
{
	unsigned k, c = 1;
	if (r > m)
		return 0;
	for (k = 0; k < r; ++k)
		c = c * (m - k) / (k + 1);
	return c;
}

void h_repair_step(void)
{
	unsigned map[NFAIL], j, l, m, has_hash = 0, r_expect, attempts_expect, k, first_ok;
	void *buffer[NFAIL + LEV_MAX];
	void *recov[LEV_MAX];
	static unsigned char RECOV_0[BS], RECOV_1[BS], RECOV_2[BS], RECOV_3[BS], RECOV_4[BS], RECOV_5[BS];
	unsigned char *const RECOV[LEV_MAX] = { RECOV_0, RECOV_1, RECOV_2, RECOV_3, RECOV_4, RECOV_5 };
	int ret;
	VERIF_INPUTS();
	setup_failed();
	VERIF_ASSUME(IN.failed_count >= 1);
	VERIF_ASSUME(IN.level >= 1 && IN.level <= REPAIR_LEVEL_MAX);
#ifdef REPAIR_LEVEL_IS
	VERIF_ASSUME(IN.level == REPAIR_LEVEL_IS); /* concrete per obligation in the thorough tier: keeps each query within memory */
#endif
	ST.level = IN.level;
	for (j = 0; j < NFAIL; ++j) {
		map[j] = j;
		if (j < IN.failed_count && !IN.outofdate[j] && (IN.bstate[j] == BLOCK_STATE_BLK || IN.bstate[j] == BLOCK_STATE_REP))
			has_hash = 1;
	}
	for (j = 0; j < NFAIL + LEV_MAX; ++j)
		buffer[j] = DATA[j];
	m = 0;
	for (l = 0; l < LEV_MAX; ++l) {
		recov[l] = (l < IN.level && IN.readable[l]) ? (void *)RECOV[l] : (void *)0;
		m += recov[l] != 0;
	}
#ifdef VERIF_NATIVE
	exit(77);
#endif
	g_valid_calls = g_data_calls = g_gen_calls = 0;
	g_last_valid_result = 0;
	ret = repair_step(&ST, IN.rehash, 0, NFAIL, FAILED, map, IN.failed_count, buffer, recov, IN.zero);

	/* specification */
	if (has_hash && IN.failed_count <= IN.level) {
		r_expect = IN.failed_count;
		attempts_expect = choose(m, r_expect);
	} else if (!has_hash && IN.failed_count < IN.level) {
		r_expect = IN.failed_count + 1; /* one parity is spent on the validation */
		attempts_expect = choose(m, r_expect);
	} else {
		r_expect = 0;
		attempts_expect = 0;
	}
	/* index of the first accepting validation among the possible attempts */
	first_ok = attempts_expect;
	for (k = 0; k < NATT; ++k)
		if (k < attempts_expect && first_ok == attempts_expect && IN.verdict[k])
			first_ok = k;

	VERIF_ASSERT(ret == 0 ? (g_valid_calls >= 1 && g_last_valid_result == 1) : 1, "repair_step returns success only after a validated reconstruction");
	VERIF_ASSERT(g_valid_calls == g_data_calls, "repair_step validates every reconstruction it performs");
	if (g_valid_calls > 0)
		VERIF_ASSERT(g_last_valid_kind == (has_hash ? 1u : 2u), "repair_step validates by hash when a failed block has an up-to-date hash, else by a spare parity");
	if (first_ok < attempts_expect) {
		VERIF_ASSERT(ret == 0 && g_valid_calls == first_ok + 1, "repair_step stops at the first validated attempt");
	} else {
		VERIF_ASSERT(g_valid_calls == attempts_expect, "repair_step tries every combination of readable parities exactly once");
		VERIF_ASSERT(ret == (attempts_expect == 0 ? -1 : (int)attempts_expect), "repair_step: -1 iff no attempt was possible, else the number of failed attempts");
	}
	for (k = 0; k < NATT; ++k)
		if (k < g_data_calls) {
			VERIF_ASSERT(g_data_r[k] == (has_hash ? r_expect : r_expect - 1), "repair_step recovers with failed_count parities");
			for (l = 0; l < LEV_MAX; ++l)
				if (l < g_data_r[k])
					VERIF_ASSERT(g_data_ip[k][l] >= 0 && (unsigned)g_data_ip[k][l] < IN.level && recov[g_data_ip[k][l]] != 0, "repair_step only uses parities that could be read");
			if (!has_hash) {
				/* validation by a SPARE parity: readable, and not one of those the reconstruction was computed from */
				VERIF_ASSERT(g_valid_arg[k] < IN.level && recov[g_valid_arg[k]] != 0, "the parity used for validation could be read");
				for (l = 0; l < LEV_MAX; ++l)
					if (l < g_data_r[k])
						VERIF_ASSERT((unsigned)g_data_ip[k][l] != g_valid_arg[k], "a reconstruction is validated against a parity it was NOT computed from");
			}
		}
	VERIF_CANARY();
}


/*
 * repair_step with MORE failed blocks than parity levels - in particular more than LEV_MAX, the size of its local
 * index vectors: no reconstruction is attempted, "no strategy" (-1) is returned, and nothing outside an object is touched
 * (bounds / pointer obligations of the real function).
 */
#ifdef VERIF_MANY
#define NMANY 8
void h_repair_step_many(void)
{
	static struct failed_struct FM[NMANY];
	static unsigned char BM_0[BLKSZ], BM_1[BLKSZ], BM_2[BLKSZ], BM_3[BLKSZ], BM_4[BLKSZ], BM_5[BLKSZ], BM_6[BLKSZ], BM_7[BLKSZ];
	unsigned char *const BM[NMANY] = { BM_0, BM_1, BM_2, BM_3, BM_4, BM_5, BM_6, BM_7 };
	static struct snapraid_file FL;
	unsigned map[NMANY], j, l;
	void *buffer[NMANY + LEV_MAX];
	void *recov[LEV_MAX];
	static unsigned char RECOV_0[BS], RECOV_1[BS], RECOV_2[BS], RECOV_3[BS], RECOV_4[BS], RECOV_5[BS];
	unsigned char *const RECOV[LEV_MAX] = { RECOV_0, RECOV_1, RECOV_2, RECOV_3, RECOV_4, RECOV_5 };
	static unsigned char DM[BS];
	int ret;
	VERIF_INPUTS();
	VERIF_ASSUME(IN.level >= 1 && IN.level <= LEV_MAX);
	VERIF_ASSUME(IN.failed_count > IN.level && IN.failed_count <= NMANY);
#ifdef MANY_FC
	VERIF_ASSUME(IN.failed_count == MANY_FC && IN.level == MANY_LEVEL); /* concrete per obligation: keeps the query small */
#endif
	ST.level = IN.level;
	ST.block_size = BS;
	for (j = 0; j < NMANY; ++j) {
		struct snapraid_block *b = (struct snapraid_block *)BM[j];
		unsigned st = IN.bstate[j % NFAIL];
		VERIF_ASSUME(st == BLOCK_STATE_BLK || st == BLOCK_STATE_CHG || st == BLOCK_STATE_REP);
		block_state_set(b, st);
		FM[j].is_bad = 1;
		FM[j].is_outofdate = IN.outofdate[j % NFAIL] != 0;
		FM[j].index = j;
		FM[j].block = b;
		FM[j].file = &FL;
		FM[j].file_pos = 0;
		map[j] = j;
	}
	for (j = 0; j < NMANY + LEV_MAX; ++j)
		buffer[j] = DM;
	for (l = 0; l < LEV_MAX; ++l)
		recov[l] = (l < IN.level && IN.readable[l]) ? (void *)RECOV[l] : (void *)0;
#ifdef VERIF_NATIVE
	exit(77);
#endif
	g_valid_calls = g_data_calls = g_gen_calls = 0;
	ret = repair_step(&ST, IN.rehash, 0, NMANY, FM, map, IN.failed_count, buffer, recov, IN.zero);
	VERIF_ASSERT(ret == -1 && g_data_calls == 0 && g_valid_calls == 0, "with more failed blocks than parity levels nothing is reconstructed: no strategy");
	VERIF_CANARY();
}
#endif

#include "verif_tail.h"
