/*
 * Record-level codecs of the content file (cmdline/state.c), as mechanically extracted regions:
 *   'f' record, modification time nanoseconds:  decode(encode(ns)) == ns for every ns in 0..999999999 and for
 *   STAT_NSEC_INVALID; the encoder emits 0 exactly for STAT_NSEC_INVALID. The integer itself travels through
 *   sputb32/sgetb32, whose round trip is the C10 stream obligation (callee by contract: identity).
 */
#include "portable.h"
#include "support.h"
#include "elem.h"
#include "state.h"
#include "stream.h"
#include "verif.h"

struct verif_in {
	int32_t ns;
	snapraid_info info;
	time_t info_now, info_oldest;
	unsigned prevhash;
	/* mapping index guards */
	uint32_t map_value, mapping_max;
	int map_ret;
	/* run-length guards */
	uint32_t r_pos, r_count, r_idx, r_blockmax, r_fileblockmax;
};
VERIF_DECLARE_IN

static uint32_t g_put, g_q[4];
static unsigned g_put_calls, g_get_calls;
/* callees by contract: a FIFO of integers (sgetb32(sputb32(v)) == v is discharged by stream.rt32) */
int sputb32(uint32_t value, STREAM *s)
{
	(void)s;
	g_put = value;
	if (g_put_calls < 4)
		g_q[g_put_calls] = value;
	++g_put_calls;
	return 0;
}
int sgetb32(STREAM *s, uint32_t *value)
{
	(void)s;
	*value = g_q[g_get_calls < 4 ? g_get_calls : 3];
	++g_get_calls;
	return 0;
}
#ifdef VERIF_CBMC
void log_fatal(const char *format, ...) { (void)format; }
void os_abort(void) { __CPROVER_assume(0); }
#endif
static void decoding_error(const char *path, STREAM *f) { (void)path; (void)f; }

#include "region_nsec_enc.c"
#include "region_nsec_dec.c"

void h_nsec_roundtrip(void)
{
	uint32_t v;
	VERIF_INPUTS();
	VERIF_ASSUME((IN.ns >= 0 && IN.ns < 1000000000) || IN.ns == STAT_NSEC_INVALID);
	region_nsec_enc(IN.ns, 0);
	VERIF_ASSERT(g_put_calls == 1, "the nanosecond field is written exactly once");
	VERIF_ASSERT((g_put == 0) == (IN.ns == STAT_NSEC_INVALID), "0 encodes exactly the missing nanosecond value");
	v = g_put;
	region_nsec_dec(&v);
	VERIF_ASSERT((int32_t)v == IN.ns, "decode(encode(mtime_nsec)) == mtime_nsec");
	VERIF_CANARY();
}

/*
 * 'i' record: per-stripe info word.  decode(encode(info)) == info for every info word whose time lies between the
 * oldest recorded time and "now" (times are 8-second aligned); 0 (no info) round-trips; a time in the future is
 * clamped to now (documented normalisation - which is why byte identity needs a clock that does not run backwards).
 */
#ifdef VERIF_INFO_REGIONS
#include "region_info_enc.c"
#include "region_info_dec.c"

void h_info_roundtrip(void)
{
	static struct snapraid_state st;
	snapraid_info out;
	uint32_t flag;
	time_t t;
	VERIF_INPUTS();
	st.prevhash = IN.prevhash ? HASH_SPOOKY2 : HASH_UNDEFINED;
	VERIF_ASSUME(IN.info_oldest >= 0 && IN.info_oldest <= IN.info_now && IN.info_now <= 0xfffffff8u);
	VERIF_ASSUME((IN.info_oldest & 7) == 0);
	t = info_get_time(IN.info);
	/* the writer computes info_oldest as the minimum over the required stripes: here the stripe is a required one */
	VERIF_ASSUME(IN.info == 0 || t >= IN.info_oldest);
	/* a rehash mark can only exist while a previous hash kind is recorded */
	VERIF_ASSUME(!(info_get_rehash(IN.info) && !IN.prevhash));
	g_put_calls = g_get_calls = 0;
	region_info_enc(IN.info, IN.info_now, IN.info_oldest, 0);
	VERIF_ASSERT(g_put_calls == (IN.info ? 2u : 1u), "the info word is written as a flag and, when present, a time");
	/* reader: the flag was fetched by the caller of the region */
	flag = g_q[0];
	g_get_calls = 1;
	out = region_info_dec(&st, flag, (uint32_t)IN.info_oldest, 0, "content");
	if (IN.info == 0)
		VERIF_ASSERT(out == 0, "a missing info word reloads as missing");
	else if (t <= IN.info_now)
		VERIF_ASSERT(out == IN.info, "decode(encode(info)) == info (time, bad, rehash, just-synced)");
	else
		VERIF_ASSERT(out == info_make(IN.info_now, info_get_bad(IN.info), info_get_rehash(IN.info), info_get_justsynced(IN.info)), "a time in the future is clamped to now, marks kept");
	VERIF_CANARY();
}
#endif

/*
 * 'N' record: the integrity seal.  The loader marks the file as checked ONLY when the four bytes stored after the 'N'
 * equal the CRC of everything read before them (taken BEFORE they are read); a short read or a mismatch never returns.
 */
#ifdef VERIF_CRC_REGION
static unsigned g_ord, g_scrc_when, g_get32_when;
static uint32_t g_scrc_value, g_stored_value;
static int g_get32_ret;
uint32_t scrc(STREAM *s) { (void)s; g_scrc_when = ++g_ord; return g_scrc_value; }
int64_t stell(STREAM *s) { (void)s; return 0; }
int sgetble32(STREAM *s, uint32_t *value) { (void)s; g_get32_when = ++g_ord; if (g_get32_ret == 0) *value = g_stored_value; return g_get32_ret; }
#ifdef VERIF_CBMC
void exit(int code) { (void)code; __CPROVER_assume(0); }
#endif
#include "region_crc_check.c"

void h_crc_record(void)
{
	int checked = 0;
	VERIF_INPUTS();
	g_scrc_value = (uint32_t)IN.info_now;
	g_stored_value = (uint32_t)IN.info_oldest;
	g_get32_ret = IN.ns < 0 ? -1 : 0;
	g_ord = 0;
#ifdef VERIF_NATIVE
	exit(77);
#endif
	region_crc_check(0, "content", &checked);
	VERIF_ASSERT(checked == 1 && g_get32_ret == 0 && g_stored_value == g_scrc_value, "the content file counts as checked only when the stored CRC equals the computed one");
	VERIF_ASSERT(g_scrc_when == 1 && g_get32_when == 2, "the CRC is taken before the stored value is read");
	VERIF_CANARY();
}
#endif


/*
 * Disk mapping index of the 'f' 'h' 's' 'a' 'r' records: each decoder runs BEFORE the final CRC comparison, so each must
 * itself reject an index that does not name a mapped disk - the mapping vector is only ever read inside its bounds.
 */
#ifdef VERIF_MAP_REGIONS
static struct snapraid_disk MAPPED_DISK;
static unsigned g_array_calls;
static uint32_t g_array_pos;
static int g_aborted_ok;
static void *m_array_get(tommy_array *array, tommy_size_t pos)
{
	(void)array;
	++g_array_calls;
	g_array_pos = (uint32_t)pos;
	VERIF_ASSERT(pos < IN.mapping_max, "the disk mapping vector is read only at an index below the number of mapped disks");
	return &MAPPED_DISK;
}
static int m_sgetb32(STREAM *s, uint32_t *value) { (void)s; if (IN.map_ret >= 0) *value = IN.map_value; return IN.map_ret >= 0 ? 0 : -1; }
static void m_abort(void)
{
	VERIF_ASSERT(IN.map_ret < 0 || IN.map_value >= IN.mapping_max, "a record with a valid mapping index is not rejected");
#ifdef VERIF_CBMC
	__CPROVER_assume(0);
#else
	printf("VERIF-REJECTED-AS-EXPECTED\n");
	fflush(stdout);
	_exit(0);
#endif
}
#define tommy_array_get m_array_get
#define sgetb32 m_sgetb32
#define os_abort m_abort
#define disk_mapping (*disk_mapping_p)
#include "region_map_f.c"
#include "region_map_h.c"
#include "region_map_s.c"
#include "region_map_a.c"
#include "region_map_r.c"
#undef tommy_array_get
#undef sgetb32
#undef os_abort
#undef disk_mapping

#ifndef MAP_RECORD
#define MAP_RECORD region_map_f
#endif
void h_map_guard(void)
{
	static tommy_array A;
	struct snapraid_disk *d;
	VERIF_INPUTS();
	g_array_calls = 0;
	d = MAP_RECORD(0, "content", IN.mapping_max, &A);
	VERIF_ASSERT(IN.map_ret >= 0 && IN.map_value < IN.mapping_max, "the decoder goes on only with an index that names a mapped disk");
	VERIF_ASSERT(g_array_calls == 1 && g_array_pos == IN.map_value && d == &MAPPED_DISK, "and uses the disk that index names");
	VERIF_CANARY();
}
#endif


/*
 * Run lengths of the 'f' (block runs of a file), 'h' (holes / deleted runs) and 'i' (info runs) records: a run must end
 * inside the array / the file, for EVERY 32-bit position and count - in particular when position + count does not fit
 * in 32 bits.  The guards are the only thing between a damaged count (the CRC is compared at the very end of the file)
 * and loops that run `count` times.
 */
#ifdef VERIF_RUN_REGIONS
static void r_abort(void)
{
#ifdef VERIF_CBMC
	__CPROVER_assume(0);
#else
	printf("VERIF-REJECTED\n");
	fflush(stdout);
	_exit(0);
#endif
}
#define os_abort r_abort
#include "region_run_i.c"
#include "region_run_h.c"
#include "region_run_f.c"
#undef os_abort

void h_run_i(void)
{
	VERIF_INPUTS();
	VERIF_ASSUME(IN.r_pos < IN.r_blockmax); /* loop condition of the decoder */
	region_run_i(0, "content", IN.r_pos, IN.r_count, IN.r_blockmax, 0);
	VERIF_ASSERT((uint64_t)IN.r_pos + IN.r_count <= IN.r_blockmax, "an info run accepted by the decoder ends inside the array");
	VERIF_CANARY();
}
void h_run_h(void)
{
	VERIF_INPUTS();
	VERIF_ASSUME(IN.r_pos < IN.r_blockmax);
	region_run_h(0, "content", IN.r_pos, IN.r_count, IN.r_blockmax, 0);
	VERIF_ASSERT((uint64_t)IN.r_pos + IN.r_count <= IN.r_blockmax, "a hole run accepted by the decoder ends inside the array");
	VERIF_CANARY();
}
void h_run_f(void)
{
	static struct snapraid_file FL;
	VERIF_INPUTS();
	FL.blockmax = IN.r_fileblockmax;
	VERIF_ASSUME(IN.r_idx < IN.r_fileblockmax);
	region_run_f(0, "content", IN.r_pos, IN.r_count, IN.r_idx, IN.r_blockmax, &FL, 0);
	VERIF_ASSERT((uint64_t)IN.r_idx + IN.r_count <= IN.r_fileblockmax, "a block run accepted by the decoder ends inside the file");
	VERIF_ASSERT((uint64_t)IN.r_pos + IN.r_count <= IN.r_blockmax, "a block run accepted by the decoder ends inside the array");
	VERIF_CANARY();
}
#endif

#include "verif_tail.h"
