/*
 * Record-level codecs of the content file (cmdline/state.c), as mechanically extracted regions:
 *   'f' record, modification time nanoseconds:  decode(encode(ns)) == ns for every ns in 0..999999999 and for
 *   STAT_NSEC_INVALID; the encoder emits 0 exactly for STAT_NSEC_INVALID. The integer itself travels through
 *   sputb32/sgetb32, whose round trip is the C10 stream obligation (callee by contract: identity).
 */
#include "portable.h"
#include "support.h"
#include "elem.h"
#include "state.h"
#include "stream.h"
#include "verif.h"

struct verif_in {
	int32_t ns;
};
VERIF_DECLARE_IN

static uint32_t g_put;
static unsigned g_put_calls;
/* callee by contract: records the value (sgetb32(sputb32(v)) == v is discharged by stream.rt32) */
int sputb32(uint32_t value, STREAM *s)
{
	(void)s;
	g_put = value;
	++g_put_calls;
	return 0;
}

#include "region_nsec_enc.c"
#include "region_nsec_dec.c"

void h_nsec_roundtrip(void)
{
	uint32_t v;
	VERIF_INPUTS();
	VERIF_ASSUME((IN.ns >= 0 && IN.ns < 1000000000) || IN.ns == STAT_NSEC_INVALID);
	region_nsec_enc(IN.ns, 0);
	VERIF_ASSERT(g_put_calls == 1, "the nanosecond field is written exactly once");
	VERIF_ASSERT((g_put == 0) == (IN.ns == STAT_NSEC_INVALID), "0 encodes exactly the missing nanosecond value");
	v = g_put;
	region_nsec_dec(&v);
	VERIF_ASSERT((int32_t)v == IN.ns, "decode(encode(mtime_nsec)) == mtime_nsec");
	VERIF_CANARY();
}

#include "verif_tail.h"
