/*
 * Open modes (property C12): what the read-only commands hand to the operating system.
 *   handle_open   (cmdline/handle.c, REAL)  - the way sync, scrub, check (and fix for files it only reads) open a DATA file:
 *                 every open() it issues has access mode O_RDONLY and neither O_CREAT, O_TRUNC nor O_APPEND, for every
 *                 advise mode; the handle is marked not created
 *   parity_open   (cmdline/parity.c, REAL)  - the way check and scrub open PARITY: every split is opened O_RDONLY without
 *                 O_CREAT / O_TRUNC / O_APPEND (bounded by SPLIT_MAX splits, fully unwound)
 *   open_noatime  (cmdline/unix.c) and advise_flags (cmdline/support.c) are extracted mechanically and run for real: they add
 *                 O_NOATIME / O_SEQUENTIAL / O_DIRECT only; open(), fstat(), close(), advise_open() are stubs.
 */
#include "portable.h"
#include "support.h"
#include "elem.h"
#include "state.h"
#include "parity.h"
#include "handle.h"
#include "verif.h"

struct verif_in {
	int mode;                 /* advise mode */
	int open_ret[2 * SPLIT_MAX], open_errno[2 * SPLIT_MAX];
	unsigned split_mac;
	data_off_t st_size[SPLIT_MAX], rec_size[SPLIT_MAX];
	int fstat_ret, advise_ret;
	int already_open;
	/* handle_read / handle_write */
	unsigned char filedata[8], before[8];
	unsigned rw_size;
	block_off_t rw_pos;
	data_off_t valid_size;
	int chunk[8], io_fail_at, advise_rw_ret;
	/* handle_utime / handle_create */
	int64_t u_sec; int u_nsec; int u_open, u_ret;
	int c_open1, c_errno1, c_open2, c_errno2, c_rename, c_open3, c_mk, c_already;
	/* state_check region */
	int fix, auditonly, level, skip_access[LEV_MAX], excluded[LEV_MAX], popen_ret[LEV_MAX], pcreate_ret[LEV_MAX], chsize_ret, process_ret;
	block_off_t blockstart, blockmax, blockcount;
};
VERIF_DECLARE_IN

static unsigned g_open_calls;
static int g_bad_flags, g_writable_ok;
static int g_create_mode;          /* handle_create unit: a different open() model */
static unsigned g_copen; static int g_cflags[4];

static int v_open(const char *path, int flags, ...)
{
	int r;
	(void)path;
	if (g_create_mode) {
		int k = g_copen < 3 ? (int)g_copen : 3, ret, err;
		g_cflags[k] = flags;
		++g_copen;
		ret = k == 0 ? IN.c_open1 : k == 1 ? IN.c_open2 : IN.c_open3;
		err = k == 0 ? IN.c_errno1 : k == 1 ? IN.c_errno2 : EACCES;
		if (ret) { errno = err; return -1; }
		return 5;
	}
	if ((flags & O_ACCMODE) != O_RDONLY || (flags & (O_CREAT | O_TRUNC | O_APPEND)) != 0)
		g_bad_flags = 1;
	if (!g_writable_ok) {
		VERIF_ASSERT((flags & O_ACCMODE) == O_RDONLY, "the file is opened read-only");
		VERIF_ASSERT((flags & (O_CREAT | O_TRUNC | O_APPEND)) == 0, "the open can neither create nor truncate nor append");
	} else {
		VERIF_ASSERT((flags & (O_TRUNC | O_APPEND)) == 0, "a parity file is never truncated or appended to by opening it");
	}
	r = IN.open_ret[g_open_calls < 2 * SPLIT_MAX ? g_open_calls : 0];
	if (r < 0)
		errno = IN.open_errno[g_open_calls < 2 * SPLIT_MAX ? g_open_calls : 0];
	++g_open_calls;
	return r < 0 ? -1 : 3 + (int)g_open_calls;
}
static unsigned g_fstat_calls;
static int v_fstat(int fd, struct stat *st)
{
	(void)fd;
	st->st_size = IN.st_size[g_fstat_calls < SPLIT_MAX ? g_fstat_calls : 0];
	++g_fstat_calls;
	return IN.fstat_ret ? -1 : 0;
}
static int v_close(int fd) { (void)fd; return 0; }
static int v_advise_open(struct advise_struct *advise, int f) { (void)advise; (void)f; return IN.advise_ret ? -1 : 0; }
static void v_out(const char *format, ...) { (void)format; }

#ifdef VERIF_CBMC
void log_fatal(const char *format, ...) { (void)format; }
void log_tag(const char *format, ...) { (void)format; }
void os_abort(void) { __CPROVER_assume(0); }
void *malloc_nofail(size_t size) { void *q = malloc(size); __CPROVER_assume(q != 0); return q; }
void advise_init(struct advise_struct *advise, int mode) { advise->mode = mode; }
void pathprint(char *dst, size_t size, const char *format, ...) { (void)format; if (size) dst[0] = 0; }
void pathcpy(char *dst, size_t size, const char *src) { (void)src; if (size) dst[0] = 0; }
#endif

static unsigned g_pread_calls, g_pwrite_calls;
static off_t g_pwrite_off = -1;
static size_t g_pwrite_n;
static const void *g_pwrite_buf;
static int g_pread_bad_args;
static unsigned char *g_rw_buffer;
static ssize_t v_pread(int fd, void *buf, size_t n, off_t off)
{
	unsigned k, c, done = (unsigned)((unsigned char *)buf - g_rw_buffer);
	(void)fd;
	/* every call continues where the previous one stopped: buffer + done, size 8 - done, offset pos * 8 + done */
	if (done >= 8 || n != 8 - done || off != (off_t)IN.rw_pos * 8 + (off_t)done)
		g_pread_bad_args = 1;
	if ((int)g_pread_calls == IN.io_fail_at) { ++g_pread_calls; return -1; }
	c = (unsigned)IN.chunk[g_pread_calls < 8 ? g_pread_calls : 7];
	++g_pread_calls;
	if (c > n) c = (unsigned)n;
	for (k = 0; k < 8; ++k)
		if (k < c && done + k < 8)
			((unsigned char *)buf)[k] = IN.filedata[done + k];
	return (ssize_t)c;
}
static ssize_t v_pwrite(int fd, const void *buf, size_t n, off_t off)
{
	(void)fd;
	++g_pwrite_calls; g_pwrite_off = off; g_pwrite_n = n; g_pwrite_buf = buf;
	return IN.io_fail_at == 0 ? (ssize_t)n - 1 : (ssize_t)n;
}
static void v_bw_limit(struct snapraid_bw *bw, unsigned bytes) { (void)bw; (void)bytes; }
static int v_advise_rw(struct advise_struct *advise, int f, data_off_t offset, data_off_t size) { (void)advise; (void)f; (void)offset; (void)size; return IN.advise_rw_ret ? -1 : 0; }
static unsigned v_file_block_size(struct snapraid_file *file, block_off_t file_pos, unsigned block_size) { (void)file; (void)file_pos; (void)block_size; return IN.rw_size; }

static unsigned g_fmtime_calls;
static int64_t g_fm_sec; static int g_fm_nsec;
static int v_fmtime(int fd, int64_t sec, int nsec) { (void)fd; ++g_fmtime_calls; g_fm_sec = sec; g_fm_nsec = nsec; return IN.u_ret ? -1 : 0; }
static unsigned g_mkanc, g_rename2;
static int v_mkancestor(const char *path) { (void)path; ++g_mkanc; return IN.c_mk ? -1 : 0; }
static int v_rename(const char *a, const char *b) { (void)a; (void)b; ++g_rename2; return IN.c_rename ? -1 : 0; }

#define fmtime v_fmtime
#define mkancestor v_mkancestor
#define rename v_rename
#define pread v_pread
#define pwrite v_pwrite
#define bw_limit v_bw_limit
#define advise_read v_advise_rw
#define advise_write v_advise_rw
#define file_block_size v_file_block_size
#define open v_open
#define fstat v_fstat
#define close v_close
#define advise_open v_advise_open
#define open_noatime real_open_noatime
#define advise_flags real_advise_flags
#include "region_open_noatime.c"
#include "region_advise_flags.c"
#include "cmdline/handle.c"
#include "cmdline/parity.c"
#undef fmtime
#undef mkancestor
#undef rename
#undef pread
#undef pwrite
#undef bw_limit
#undef advise_read
#undef advise_write
#undef file_block_size
#undef open
#undef fstat
#undef close
#undef advise_open
#undef open_noatime
#undef advise_flags

void h_handle_open(void)
{
	static struct snapraid_handle H;
	static struct snapraid_disk DK;
	static struct snapraid_file FL, OTHER;
	static char sub[] = "f";
	int r;
	VERIF_INPUTS();
	FL.sub = sub;
	H.disk = &DK;
	H.file = IN.already_open ? &FL : &OTHER;
	H.f = IN.already_open ? 7 : -1;
	H.created = 1;
	g_open_calls = g_fstat_calls = 0;
	r = handle_open(&H, &FL, IN.mode, v_out, 0);
	VERIF_ASSERT(r == 0 || r == -1, "handle_open returns 0 or -1");
	if (!IN.already_open) {
		VERIF_ASSERT(g_open_calls >= 1 && g_open_calls <= 2, "one open, retried once without O_NOATIME when not permitted");
		VERIF_ASSERT(H.created == 0, "a file opened for reading is never marked as created by this run");
	} else {
		VERIF_ASSERT(g_open_calls == 0 && r == 0, "an already open handle is reused");
	}
	if (r == 0 && !IN.already_open)
		VERIF_ASSERT(H.file == &FL && H.f >= 0 && H.valid_size == IN.st_size[0], "the handle describes the file just opened");
	VERIF_CANARY();
}

void h_parity_open(void)
{
	static struct snapraid_parity_handle PH;
	static struct snapraid_parity PR;
	unsigned s;
	int r;
	VERIF_INPUTS();
	VERIF_ASSUME(IN.split_mac <= SPLIT_MAX);
	PR.split_mac = IN.split_mac;
	for (s = 0; s < SPLIT_MAX; ++s) {
		PR.split_map[s].size = IN.rec_size[s];
		PR.split_map[s].path[0] = 0;
	}
	g_open_calls = g_fstat_calls = 0;
	r = parity_open(&PH, &PR, 0, IN.mode, 256, 0);
	VERIF_ASSERT(r == 0 || r == -1, "parity_open returns 0 or -1");
	if (r == 0) {
		VERIF_ASSERT(PH.split_mac == IN.split_mac && g_open_calls >= IN.split_mac, "every configured split is opened");
		/* the address map (parity_split_find) works on split->size: it must be the RECORDED size, whatever the file on disk
		 * looks like now; only a split without a recorded size takes the size it has */
		for (s = 0; s < SPLIT_MAX; ++s)
			if (s < IN.split_mac)
				VERIF_ASSERT(PH.split_map[s].size == (IN.rec_size[s] == PARITY_SIZE_INVALID ? IN.st_size[s] : IN.rec_size[s]),
					"the split sizes the address map uses are the recorded ones (the real size only where none is recorded)");
	}
	VERIF_CANARY();
}

void h_parity_create(void)
{
	static struct snapraid_parity_handle PH;
	static struct snapraid_parity PR;
	unsigned s;
	int r;
	VERIF_INPUTS();
	VERIF_ASSUME(IN.split_mac <= SPLIT_MAX);
	PR.split_mac = IN.split_mac;
	for (s = 0; s < SPLIT_MAX; ++s) {
		PR.split_map[s].size = IN.rec_size[s];
		PR.split_map[s].path[0] = 0;
	}
	g_open_calls = g_fstat_calls = 0;
	g_writable_ok = 1;
	r = parity_create(&PH, &PR, 0, IN.mode, 256, 0);
	VERIF_ASSERT(r == 0 || r == -1, "parity_create returns 0 or -1");
	if (r == 0)
		for (s = 0; s < SPLIT_MAX; ++s)
			if (s < IN.split_mac)
				VERIF_ASSERT(PH.split_map[s].size == (IN.rec_size[s] == PARITY_SIZE_INVALID ? IN.st_size[s] : IN.rec_size[s]),
					"the split sizes the address map uses are the recorded ones (the real size only where none is recorded)");
	VERIF_CANARY();
}


/* ---------------------------------------------------------------- state_check (cmdline/check.c): how check and fix open the parity */
static unsigned g_popen, g_pcreate, g_pchsize, g_ptruncate, g_pclose, g_process_calls;
static data_off_t g_chsize_arg = -1;
static block_off_t g_proc_a, g_proc_b;
static block_off_t c_allocated(struct snapraid_state *state) { (void)state; return IN.blockmax; }
static int g_process_fix = -1;
static int c_parity_open(struct snapraid_parity_handle *h, const struct snapraid_parity *p, unsigned level, int mode, uint32_t bs, data_off_t lim)
{ (void)h; (void)p; (void)mode; (void)bs; (void)lim; ++g_popen; return IN.popen_ret[level < LEV_MAX ? level : 0] ? -1 : 0; }
static int c_parity_create(struct snapraid_parity_handle *h, const struct snapraid_parity *p, unsigned level, int mode, uint32_t bs, data_off_t lim)
{ (void)h; (void)p; (void)mode; (void)bs; (void)lim; ++g_pcreate; return IN.pcreate_ret[level < LEV_MAX ? level : 0] ? -1 : 0; }
static int c_parity_chsize(struct snapraid_parity_handle *h, struct snapraid_parity *p, int *is_modified, data_off_t size, uint32_t bs, int a, int b)
{ (void)h; (void)p; (void)is_modified; (void)bs; (void)a; (void)b; ++g_pchsize; g_chsize_arg = size; return IN.chsize_ret ? -1 : 0; }
static int c_parity_truncate(struct snapraid_parity_handle *h) { (void)h; ++g_ptruncate; return 0; }
static int c_parity_close(struct snapraid_parity_handle *h) { (void)h; ++g_pclose; return 0; }
static int c_check_process(struct snapraid_state *state, int fix, struct snapraid_parity_handle **parity, block_off_t a, block_off_t b)
{ (void)state; (void)parity; ++g_process_calls; g_process_fix = fix; g_proc_a = a; g_proc_b = b; return IN.process_ret ? -1 : 0; }
static const char *c_lev_name(unsigned l) { (void)l; return "parity"; }
static void c_msg(const char *format, ...) { (void)format; }
static int g_exit_ok;
static void c_exit(int code)
{
	VERIF_ASSERT(g_exit_ok && code != 0, "state_check stops only when fix cannot open a parity for writing, or the start position is beyond the array");
#ifdef VERIF_CBMC
	__CPROVER_assume(0);
#else
	_exit(0);
#endif
}
#ifdef VERIF_CBMC
int exit_success = 0, exit_failure = 1, exit_sync_needed = 2;
#endif
#define parity_allocated_size c_allocated
#define log_fatal(...) ((void)0)
#define parity_open c_parity_open
#define parity_create c_parity_create
#define parity_chsize c_parity_chsize
#define parity_truncate c_parity_truncate
#define parity_close c_parity_close
#define state_check_process c_check_process
#define lev_name c_lev_name
#define msg_status c_msg
#define exit c_exit
#include "region_check_parity.c"
#undef parity_allocated_size
#undef log_fatal
#undef parity_open
#undef parity_create
#undef parity_chsize
#undef parity_truncate
#undef parity_close
#undef state_check_process
#undef lev_name
#undef msg_status
#undef exit

void h_check_parity(void)
{
	static struct snapraid_state ST;
	unsigned l;
	int r;
	VERIF_INPUTS();
	VERIF_ASSUME(IN.level >= 1 && IN.level <= LEV_MAX);
	ST.level = IN.level;
	ST.block_size = 256;
	ST.opt.auditonly = IN.auditonly != 0;
	for (l = 0; l < LEV_MAX; ++l) {
		ST.parity[l].skip_access = IN.skip_access[l] != 0;
		ST.parity[l].is_excluded_by_filter = IN.excluded[l] != 0;
	}
	VERIF_ASSUME(IN.blockmax <= 0x00ffffff && (uint64_t)IN.blockstart + IN.blockcount <= 0xffffffffull);
	g_exit_ok = IN.fix != 0 || IN.blockstart > IN.blockmax;
	g_chsize_arg = -1;
	r = region_check_parity(&ST, IN.fix, IN.blockstart, IN.blockcount);
	(void)r;
	if (!IN.fix) {
		VERIF_ASSERT(g_pcreate == 0 && g_pchsize == 0 && g_ptruncate == 0, "check opens parity for reading only: it never creates, resizes or truncates a parity file");
		if (IN.auditonly)
			VERIF_ASSERT(g_popen == 0, "an audit-only check does not touch the parity at all");
	}
	if (g_process_calls) {
		block_off_t end = (IN.blockcount != 0 && IN.blockstart + IN.blockcount < IN.blockmax) ? IN.blockstart + IN.blockcount : IN.blockmax;
		VERIF_ASSERT(g_process_fix == IN.fix && g_process_calls == 1, "the fix flag reaches the processing loop unchanged");
		VERIF_ASSERT(g_proc_a == IN.blockstart && g_proc_b == end, "the stripes processed are those of the requested range (-S / -B), inside the array");
	}
	if (g_pchsize)
		VERIF_ASSERT(g_chsize_arg == (data_off_t)IN.blockmax * 256, "fix sizes a parity file for the WHOLE array, whatever range it was asked to process (a partial fix never shrinks the parity)");
	VERIF_CANARY();
}


/* ---------------------------------------------------------------- handle_read / handle_write (REAL, block size 8) */
void h_handle_read(void)
{
	static struct snapraid_handle H;
	static struct snapraid_file FL;
	static unsigned char BUF[8];
	int r, k;
	unsigned total = 0, calls_needed = 0, got = 0;
	VERIF_INPUTS();
	VERIF_ASSUME(IN.rw_size >= 1 && IN.rw_size <= 8);
	VERIF_ASSUME(IN.rw_pos < 0x10000 && IN.valid_size >= 0);
	for (k = 0; k < 8; ++k) {
		VERIF_ASSUME(IN.chunk[k] >= 0 && IN.chunk[k] <= 8);
		BUF[k] = IN.before[k];
	}
	H.file = &FL; H.f = 5; H.valid_size = IN.valid_size;
	g_rw_buffer = BUF;
	g_pread_calls = 0; g_pread_bad_args = 0;
	r = handle_read(&H, IN.rw_pos, BUF, 8, v_out, 0);
	VERIF_ASSERT(!g_pread_bad_args, "every read continues at buffer + count, offset + count, for the rest of the block");
	if (r >= 0) {
		VERIF_ASSERT((unsigned)r == IN.rw_size, "a successful read returns the number of valid bytes of this block of the file");
		VERIF_ASSERT((data_off_t)IN.rw_pos * 8 < IN.valid_size, "data beyond what the file holds is never returned as read");
		for (k = 0; k < 8; ++k)
			VERIF_ASSERT(BUF[k] == ((unsigned)k < IN.rw_size ? IN.filedata[k] : 0), "the buffer holds the bytes of the file, zero padded to the block size");
	} else {
		VERIF_ASSERT(r == -1, "a failed read returns -1");
	}
	/* completeness: if the file delivers the whole block in chunks and nothing fails, the read succeeds */
	for (k = 0; k < 8; ++k)
		if (got < IN.rw_size && IN.chunk[k] > 0 && (int)calls_needed == k) { got += (unsigned)IN.chunk[k] > 8 - got ? 8 - got : (unsigned)IN.chunk[k]; ++calls_needed; }
	(void)total;
	if ((data_off_t)IN.rw_pos * 8 < IN.valid_size && got >= IN.rw_size && (IN.io_fail_at < 0 || IN.io_fail_at >= (int)calls_needed) && !IN.advise_rw_ret)
		VERIF_ASSERT(r >= 0, "a block the file delivers completely is not reported as an error");
	VERIF_CANARY();
}

void h_handle_write(void)
{
	static struct snapraid_handle H;
	static struct snapraid_file FL;
	static unsigned char BUF[8];
	int r;
	VERIF_INPUTS();
	VERIF_ASSUME(IN.rw_size >= 1 && IN.rw_size <= 8);
	VERIF_ASSUME(IN.rw_pos < 0x10000 && IN.valid_size >= 0 && IN.valid_size < ((data_off_t)1 << 40));
	H.file = &FL; H.f = 5; H.valid_size = IN.valid_size;
	g_pwrite_calls = 0;
	r = handle_write(&H, IN.rw_pos, BUF, 8);
	VERIF_ASSERT(g_pwrite_calls == 1 && g_pwrite_buf == BUF && g_pwrite_n == IN.rw_size && g_pwrite_off == (off_t)IN.rw_pos * 8,
		"exactly the valid bytes of the block are written, at the offset of that block of the file (never beyond the recorded size)");
	if (r == 0) {
		VERIF_ASSERT(IN.io_fail_at != 0, "a short write is an error");
		VERIF_ASSERT(H.valid_size == (IN.valid_size > (data_off_t)IN.rw_pos * 8 + IN.rw_size ? IN.valid_size : (data_off_t)IN.rw_pos * 8 + IN.rw_size), "the valid size follows the highest byte written");
	}
	VERIF_CANARY();
}


/* ---------------------------------------------------------------- handle_utime / handle_create (REAL) */
void h_handle_utime(void)
{
	static struct snapraid_handle H;
	static struct snapraid_file FL;
	int r;
	VERIF_INPUTS();
	FL.sub = "f"; FL.mtime_sec = IN.u_sec; FL.mtime_nsec = IN.u_nsec;
	H.file = &FL; H.f = IN.u_open ? 5 : -1;
	g_fmtime_calls = 0;
	r = handle_utime(&H);
	if (!IN.u_open)
		VERIF_ASSERT(r == 0 && g_fmtime_calls == 0, "a handle that is not open sets no time");
	else
		VERIF_ASSERT(g_fmtime_calls == 1 && g_fm_sec == IN.u_sec && g_fm_nsec == IN.u_nsec && r == (IN.u_ret ? -1 : 0),
			"the time restored is the recorded one: seconds AND nanoseconds");
	VERIF_CANARY();
}

void h_handle_create(void)
{
	static struct snapraid_handle H;
	static struct snapraid_disk DK2;
	static struct snapraid_file FL, OTHERF;
	int r, k;
	VERIF_INPUTS();
	FL.sub = "f";
	H.disk = &DK2;
	H.file = IN.c_already ? &FL : &OTHERF;
	H.f = IN.c_already ? 7 : -1;
	H.created = 0;
	g_create_mode = 1; g_copen = 0; g_mkanc = g_rename2 = 0; g_fstat_calls = 0;
	for (k = 0; k < 4; ++k) g_cflags[k] = 0;
	r = handle_create(&H, &FL, IN.mode);
	g_create_mode = 0;
	if (IN.c_already) {
		VERIF_ASSERT(r == 0 && g_copen == 0, "an already open file is reused");
	} else if (IN.c_mk) {
		VERIF_ASSERT(r == -1 && g_copen == 0, "without its parent directories the file is not created");
	} else {
		VERIF_ASSERT(g_mkanc == 1 && g_copen >= 1 && (g_cflags[0] & O_ACCMODE) == O_RDWR && !(g_cflags[0] & (O_CREAT | O_TRUNC)), "an existing file is first opened read-write, never truncated");
		for (k = 0; k < 4; ++k)
			VERIF_ASSERT(!(g_cflags[k] & O_TRUNC), "no open of fix truncates a data file");
		if (r == 0 && !IN.c_open1)
			VERIF_ASSERT(H.created == 0 && g_copen == 1, "a file that could be opened existed: it is not marked as created by this run");
		if (r == 0 && !H.created)
			VERIF_ASSERT(!(g_cflags[g_copen - 1] & O_CREAT), "a file opened without creating it is not marked as created");
		if (H.created)
			VERIF_ASSERT((g_cflags[g_copen - 1] & O_CREAT) && g_rename2 == 1, "creation happens only after looking for a .unrecoverable copy to take back");
	}
	VERIF_CANARY();
}

#include "verif_tail.h"
