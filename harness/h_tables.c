/*
 * Lemmas over the REAL raid/tables.c: every lookup table the parity code reads is tied to the
 * table-free field / matrix definition in spec/gf_spec.h.  Loop-free, full-domain symbolic indices.
 */
#include "internal.h"
#include "verif.h"
#include "gf_spec.h"

struct verif_in {
	uint8_t a, b;
	int i, j, n, p, d;
};
VERIF_DECLARE_IN

/* TAB-MUL: gfmul[a][b] == a (x) b, split by high nibble of a (HI = 0..15) to keep each query small */
#ifndef HI
#define HI 0
#endif
void h_tab_mul(void)
{
	VERIF_INPUTS();
	VERIF_ASSUME((IN.a >> 4) == HI);
	VERIF_ASSERT(raid_gfmul[IN.a][IN.b] == S_mul(IN.a, IN.b), "TAB-MUL gfmul[a][b] == a*b mod 0x11d");
	VERIF_CANARY();
}

/* TAB-INV: a != 0 ==> a (x) gfinv[a] == 1 ; gfinv[0] == 0 */
void h_tab_inv(void)
{
	VERIF_INPUTS();
	if (IN.a != 0)
		VERIF_ASSERT(S_mul(IN.a, raid_gfinv[IN.a]) == 1, "TAB-INV a*gfinv[a] == 1");
	VERIF_ASSERT(raid_gfinv[0] == 0, "TAB-INV gfinv[0] == 0");
	VERIF_ASSERT(S_mul(IN.a, S_inv(IN.a)) == (IN.a != 0), "SPEC-INV a*a^254 == 1 (spec self-check)");
	VERIF_CANARY();
}

/* TAB-EXP: gfexp[0] == 1, gfexp[i+1] == 2 (x) gfexp[i]; hence gfexp[i] == 2^i; 2 has order 255 */
void h_tab_exp(void)
{
	VERIF_INPUTS();
	VERIF_ASSUME(IN.i >= 0 && IN.i < 255);
	VERIF_ASSERT(raid_gfexp[0] == 1, "TAB-EXP gfexp[0] == 1");
	VERIF_ASSERT(raid_gfexp[IN.i + 1] == S_x2(raid_gfexp[IN.i]), "TAB-EXP gfexp[i+1] == 2*gfexp[i]");
	VERIF_ASSERT(raid_gfexp[255] == 1, "TAB-EXP gfexp[255] == 1 (order of 2 divides 255)");
	/* injectivity on 0..254: needed by the MDS argument (x_i pairwise distinct) */
	VERIF_ASSUME(IN.j >= 0 && IN.j < 255 && IN.j != IN.i);
	VERIF_ASSERT(raid_gfexp[IN.i] != raid_gfexp[IN.j], "TAB-EXP 2^i injective on 0..254");
	VERIF_ASSERT(raid_gfexp[IN.i] != 0, "TAB-EXP 2^i != 0");
	VERIF_CANARY();
}

/*
 * TAB-CAUCHY: gfcauchy is the documented extended Cauchy matrix.
 *   row 0 = 1, row 1 = 2^i, row j>=2: A[j][i] (x) (y_j + x_i) == (y_j + 1), y_j + x_i != 0,
 *   x_i = 1/2^i, y_j = 2^(j-1).
 * gfexp / gfinv are used as witnesses; TAB-EXP / TAB-INV tie them to the definition.
 */
void h_tab_cauchy(void)
{
	uint8_t e, x, y;
	VERIF_INPUTS();
	VERIF_ASSUME(IN.i >= 0 && IN.i < 251);
	VERIF_ASSUME(IN.j >= 2 && IN.j < 6);
	e = raid_gfexp[IN.i];
	VERIF_ASSERT(raid_gfcauchy[0][IN.i] == 1, "TAB-CAUCHY row 0 == 1");
	VERIF_ASSERT(raid_gfcauchy[1][IN.i] == e, "TAB-CAUCHY row 1 == 2^i");
	x = raid_gfinv[e];
	y = (uint8_t)(1u << (IN.j - 1));
	VERIF_ASSERT((uint8_t)(y ^ x) != 0, "TAB-CAUCHY x_i + y_j != 0");
	VERIF_ASSERT(S_mul(raid_gfcauchy[IN.j][IN.i], (uint8_t)(y ^ x)) == (uint8_t)(y ^ 1),
		"TAB-CAUCHY A[j][i]*(x_i+y_j) == 1+y_j");
	VERIF_CANARY();
}

/* TAB-POWER: alternate triple parity rows 1, 2^i, 2^-i */
void h_tab_power(void)
{
	uint8_t e;
	VERIF_INPUTS();
	VERIF_ASSUME(IN.i >= 0 && IN.i < 251);
	e = raid_gfexp[IN.i];
	VERIF_ASSERT(raid_gfvandermonde[0][IN.i] == 1, "TAB-POWER row 0 == 1");
	VERIF_ASSERT(raid_gfvandermonde[1][IN.i] == e, "TAB-POWER row 1 == 2^i");
	VERIF_ASSERT(S_mul(raid_gfvandermonde[2][IN.i], e) == 1, "TAB-POWER row 2 == 2^-i");
	VERIF_CANARY();
}

/* TAB-PSHUFB: split-nibble tables used by the SSSE3/AVX2 generators (gen3..gen6) */
void h_tab_pshufb(void)
{
	uint8_t c;
	VERIF_INPUTS();
	VERIF_ASSUME(IN.d >= 0 && IN.d < 251);
	VERIF_ASSUME(IN.p >= 0 && IN.p < 4);
	VERIF_ASSUME(IN.n >= 0 && IN.n < 16);
	c = raid_gfcauchy[IN.p + 2][IN.d];
	VERIF_ASSERT(raid_gfcauchypshufb[IN.d][IN.p][0][IN.n] == S_mul(c, (uint8_t)IN.n),
		"TAB-PSHUFB low nibble == A[p+2][d]*n");
	VERIF_ASSERT(raid_gfcauchypshufb[IN.d][IN.p][1][IN.n] == S_mul(c, (uint8_t)(IN.n << 4)),
		"TAB-PSHUFB high nibble == A[p+2][d]*(n<<4)");
	VERIF_CANARY();
}

/* TAB-MULPSHUFB: split-nibble tables used by the SSSE3/AVX2 decoders */
void h_tab_mulpshufb(void)
{
	VERIF_INPUTS();
	VERIF_ASSUME(IN.n >= 0 && IN.n < 16);
	VERIF_ASSERT(raid_gfmulpshufb[IN.a][0][IN.n] == S_mul(IN.a, (uint8_t)IN.n),
		"TAB-MULPSHUFB low nibble == a*n");
	VERIF_ASSERT(raid_gfmulpshufb[IN.a][1][IN.n] == S_mul(IN.a, (uint8_t)(IN.n << 4)),
		"TAB-MULPSHUFB high nibble == a*(n<<4)");
	VERIF_CANARY();
}

#include "verif_tail.h"
