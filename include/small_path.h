/*
 * Verification-build shim (cbmc only, never native): PATH_MAX 4096 -> 64.
 * It only shrinks the char path[PATH_MAX] members of the structures involved; used solely for obligations on
 * functions that never read or write those members (named in the obligation's note), because an 8 x 4 KiB
 * struct makes every cbmc query 50-100x slower. Listed in evidence under assumptions.
 */
/* the repo's config.h first: it enables _GNU_SOURCE etc. before any system header is seen */
#include "config.h"
#include <limits.h>
#include <linux/limits.h>
#undef PATH_MAX
#define PATH_MAX 64
