/* included at the very end of every driver file */
#if defined(VERIF_NATIVE)
static void verif_load_inputs(void)
{
	memset(&IN, 0, sizeof(IN));
#ifdef VERIF_REPLAY_VALUES
#include VERIF_REPLAY_VALUES
#endif
}
int main(void)
{
	VERIF_ENTRY();
	return 0;
}
#endif
