/*
 * verif.h - dual-mode proof-driver support.
 *
 * VERIF_CBMC   : compiled by goto-cc; inputs are nondeterministic, checks are cbmc obligations.
 * VERIF_NATIVE : compiled by gcc (+ASan/UBSan) and linked with the REAL repo code; inputs come from the
 *                counterexample (file named by -DVERIF_REPLAY_VALUES="..."), checks abort the process.
 *
 * Every driver keeps ALL of its nondeterministic inputs in one global object `IN` (struct verif_in,
 * declared by the driver) and never writes to it after VERIF_INPUTS(), so a cbmc trace determines a native
 * replay completely.
 */
#ifndef VERIF_H
#define VERIF_H

#include <stddef.h>
#include <stdint.h>

#if defined(VERIF_NATIVE)
#include <stdio.h>
#include <stdlib.h>
#include <string.h>
#define VERIF_ASSUME(c) do { if (!(c)) { printf("VERIF-ASSUME-EXCLUDED: %s\n", #c); exit(77); } } while (0)
#define VERIF_ASSERT(c, name) do { if (!(c)) { printf("VERIF-ASSERT-FAILED: %s\n", name); fflush(stdout); exit(1); } } while (0)
#define VERIF_CANARY() do { printf("VERIF-REACHED-END\n"); } while (0)
#define VERIF_INPUTS() verif_load_inputs()
#define VERIF_MAIN(fn) int main(void) { fn(); return 0; }
#else
#define VERIF_ASSUME(c) __CPROVER_assume(c)
#define VERIF_ASSERT(c, name) __CPROVER_assert(c, "VERIF " name)
/* must FAIL on every run: shows the assumptions are satisfiable and the call returns */
#define VERIF_CANARY() __CPROVER_assert(0, "VERIF-CANARY reachability (expected to fail)")
#define VERIF_INPUTS() do { struct verif_in verif_tmp_; IN = verif_tmp_; } while (0)
#define VERIF_MAIN(fn)
#endif

/* the driver declares `struct verif_in { ... };` then VERIF_DECLARE_IN, and ends with #include "verif_tail.h" */
#define VERIF_DECLARE_IN struct verif_in IN;
#if defined(VERIF_NATIVE)
static void verif_load_inputs(void);
#endif


#if defined(VERIF_NATIVE)
/* contract clauses are for goto-instrument; a native replay checks the same predicates through VERIF_ASSERT */
#define __CPROVER_requires(...)
#define __CPROVER_ensures(...)
#define __CPROVER_assigns(...)
#endif

#endif
