/*
 * The repo's own generated config.h with the inline-assembly variants switched off: this is the configuration
 * the sources select on a CPU/compiler without x86 assembly (internal.h: CONFIG_X86 is only defined #if HAVE_ASSEMBLY).
 * Used for obligations that go through raid_init()'s dispatch tables, because cbmc cannot interpret the SSE2/SSSE3/
 * AVX2 inline assembly (those 23 variants are listed as NOT verified).
 */
#include "../../../repo/config.h"
#undef HAVE_ASSEMBLY
#define HAVE_ASSEMBLY 0
